"""F18: oslopolicy-policy-generator pastes a policy name read from the
operator's file between double quotes unescaped."""
import os, sys, tempfile, yaml, io, contextlib
from oslo_config import cfg
from oslo_policy import generator, policy
from unittest import mock

d = tempfile.mkdtemp()
pf = os.path.join(d, 'policy.json')
open(pf, 'w').write('{"legacy\\\\admin_api": "role:ops", "p": "rule:legacy\\\\admin_api"}')
conf = cfg.ConfigOpts()
conf([], project='x')
enf = policy.Enforcer(conf, policy_file=pf)
enf.register_default(policy.RuleDefault('q', 'role:member'))
out = os.path.join(d, 'out.yaml')
with mock.patch.object(generator, '_get_enforcer', return_value=enf):
    generator._generate_policy('ns', out)
text = open(out).read()
print(text)
try:
    got = yaml.safe_load(text)
except Exception as e:
    print('FAIL unloadable', e); sys.exit(1)
print(got)
ok = 'legacy\\admin_api' in got
print('PASS' if ok else 'FAIL: name changed'); sys.exit(0 if ok else 1)

"""F15: oslopolicy-convert-json-to-yaml changes the meaning of a policy file
whose extra rule name contains a backslash (or breaks it for a double quote)."""
import json, os, sys, tempfile
from unittest import mock
import yaml
from oslo_policy import generator, policy

d = tempfile.mkdtemp()
src = os.path.join(d, 'policy.json')
out = os.path.join(d, 'policy.yaml')
rules = {'a\\b': 'role:member', 'p': 'rule:a\\b'}
open(src, 'w').write(json.dumps(rules))
defaults = {'ns': [policy.RuleDefault('p', 'role:admin', 'd')]}
with mock.patch('oslo_policy.generator.get_policies_dict', return_value=defaults):
    generator._convert_policy_json_to_yaml('ns', src, out)
text = open(out).read()
try:
    back = yaml.safe_load(text)
except Exception as e:
    print('FAIL: converted file does not load:', e); sys.exit(1)
ok = set(back) == set(rules) and all(back[k] == v for k, v in rules.items())
print(text)
print('names before', sorted(rules), 'after', sorted(back))
print('PASS' if ok else 'FAIL: the converted file defines different names')
sys.exit(0 if ok else 1)

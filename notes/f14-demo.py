import sys
sys.path.insert(0,'/repo')
from oslo_policy.tests import test_generator as tg
import unittest
class T(tg.ValidatorTestCase):
    def test_paren_false(self):
        self._test_policy('foo: "(!)"', success=True)
    def test_list_false(self):
        self._test_policy('foo: [["!"]]', success=True)
    def test_plain_false(self):
        self._test_policy('foo: "!"', success=True)
unittest.main(argv=['x'], verbosity=1)

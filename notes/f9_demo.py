"""Demonstration of finding F9 (C20) on the real code - not a check.

A reload is paused between the main-file step and the policy.d step; a second
thread's enforce('p') on the same enforcer returns True although both the
complete old policy and the complete new policy deny.
Run: cd /repo && /venv/bin/python /verif/notes/f9_demo.py
"""
import os
import tempfile
import threading
import time

from oslo_config import cfg
from oslo_policy import policy

d = tempfile.mkdtemp()
main = os.path.join(d, 'policy.yaml')
pd = os.path.join(d, 'policy.d')
os.mkdir(pd)
open(main, 'w').write('"p": "@"\n')          # main file allows
open(os.path.join(pd, 'a.yaml'), 'w').write('"p": "!"\n')   # override denies
conf = cfg.ConfigOpts()
conf([], project='x')
conf.set_override('policy_dirs', [pd], group='oslo_policy') \
    if hasattr(conf, 'oslo_policy') else None
e = policy.Enforcer(conf, policy_file=main)
conf.set_override('policy_dirs', [pd], group='oslo_policy')
old = e.enforce('p', {}, {})
print('complete old policy decides', old)
time.sleep(0.05)
open(main, 'w').write('"p": "@"\n"q": "!"\n')   # edit main file; p unchanged
os.utime(main, (time.time() + 5, time.time() + 5))

paused = threading.Event()
resume = threading.Event()
orig = policy.Enforcer._walk_through_policy_directory


def slow_walk(path, func, *args):
    paused.set()
    resume.wait(5)
    return orig(path, func, *args)


policy.Enforcer._walk_through_policy_directory = staticmethod(slow_walk)
t = threading.Thread(target=lambda: e.load_rules())
t.start()
paused.wait(5)
policy.Enforcer._walk_through_policy_directory = staticmethod(orig)
# concurrent decision while the reload sits between main file and policy.d
mid = policy._checks._check(e.rules['p'], {}, {}, e, 'p')
print('decision during the reload', mid)
resume.set()
t.join()
new = e.enforce('p', {}, {})
print('complete new policy decides', new)
print('MIXED' if (mid != old and mid != new) else 'consistent')

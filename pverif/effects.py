"""Store / mutator effects with access paths, and transitive write sets."""
import ast

from .util import U, method_call, walk_no_nested

MUTATORS = {'append', 'extend', 'insert', 'pop', 'remove', 'clear', 'update',
            'setdefault', 'sort', 'add', 'discard', 'popitem', 'reverse',
            '__setitem__', '__delitem__', 'add_check', 'pop_check'}


class Effect:
    def __init__(self, kind, path, node, func):
        self.kind = kind      # store | substore | mutcall | del | global
        self.path = path      # access path text of the mutated object
        self.node = node
        self.func = func

    def __repr__(self):
        return '<Effect %s %s @%s>' % (self.kind, self.path,
                                       getattr(self.node, 'lineno', '?'))


def _root(expr):
    while isinstance(expr, (ast.Attribute, ast.Subscript)):
        expr = expr.value
    if isinstance(expr, ast.Call):
        return _root(expr.func)
    return expr


def effects_of(finfo):
    """Direct effects of one function body (nested defs excluded)."""
    out = []
    globs = set()
    for n in walk_no_nested(finfo.node):
        if isinstance(n, ast.Global):
            globs |= set(n.names)
    # local aliases of attributes (`store = self.rules`): a write through
    # the alias is a write to the attribute.  Only names bound exactly once,
    # to an attribute chain rooted at a parameter or self.
    bound = {}
    for n in walk_no_nested(finfo.node):
        tg = []
        if isinstance(n, ast.Assign):
            tg = n.targets
        elif isinstance(n, (ast.AugAssign, ast.AnnAssign, ast.For,
                            ast.comprehension)):
            tg = [n.target]
        elif isinstance(n, ast.NamedExpr):
            tg = [n.target]
        elif isinstance(n, (ast.With,)):
            tg = [i.optional_vars for i in n.items if i.optional_vars]
        for t in tg:
            for x in ast.walk(t):
                if isinstance(x, ast.Name) and isinstance(
                        x.ctx, ast.Store):
                    bound.setdefault(x.id, []).append(
                        n.value if isinstance(n, ast.Assign) and len(
                            n.targets) == 1 and n.targets[0] is x else None)
    alias = {}
    for nm, vals in bound.items():
        if len(vals) != 1 or nm in finfo.params or vals[0] is None:
            continue
        cands = [vals[0]]
        if isinstance(vals[0], ast.IfExp):
            # may alias either branch
            cands = [vals[0].body, vals[0].orelse]
        elif isinstance(vals[0], ast.BoolOp):
            cands = list(vals[0].values)
        for v in cands:
            if isinstance(v, ast.Attribute) or (
                    isinstance(v, ast.Name) and v.id in finfo.params
                    and v.id != 'self'):
                r = _root(v)
                if isinstance(r, ast.Name) and (r.id == 'self'
                                                or r.id in finfo.params):
                    alias[nm] = U(v)
                    break

    def apath(expr):
        t = U(expr)
        head = t.split('.', 1)[0].split('[', 1)[0]
        if head in alias:
            return alias[head] + t[len(head):]
        return t
    for n in walk_no_nested(finfo.node):
        targets = []
        if isinstance(n, ast.Assign):
            targets = n.targets
        elif isinstance(n, (ast.AugAssign, ast.AnnAssign)):
            targets = [n.target]
        elif isinstance(n, ast.Delete):
            for t in n.targets:
                if isinstance(t, ast.Subscript):
                    out.append(Effect('del', apath(t.value), n, finfo))
                elif isinstance(t, ast.Attribute):
                    out.append(Effect('del', U(t), n, finfo))
            continue
        elif isinstance(n, ast.Call):
            mc = method_call(n)
            if mc and mc[1] in MUTATORS:
                out.append(Effect('mutcall:' + mc[1], apath(mc[0]), n, finfo))
            continue
        flat = []
        for t in targets:
            if isinstance(t, (ast.Tuple, ast.List)):
                flat.extend(t.elts)
            else:
                flat.append(t)
        for t in flat:
            if isinstance(t, ast.Attribute):
                out.append(Effect('store', U(t), n, finfo))
            elif isinstance(t, ast.Subscript):
                out.append(Effect('substore', apath(t.value), n, finfo))
            elif isinstance(t, ast.Name) and t.id in globs:
                out.append(Effect('global', t.id, n, finfo))
    return out


def self_writes(prog, finfo, _seen=None):
    """Texts 'self.attr' this method (transitively, through self-method
    calls) may rebind or mutate."""
    if _seen is None:
        _seen = set()
    if finfo.qual in _seen:
        return set()
    _seen.add(finfo.qual)
    cache = prog.__dict__.setdefault('_self_writes', {})
    if finfo.qual in cache:
        return cache[finfo.qual]
    out = set()
    if finfo.cls is None or finfo.is_static:
        cache[finfo.qual] = out
        return out
    for e in effects_of(finfo):
        p = e.path
        if p == 'self' or p.startswith('self.'):
            parts = p.split('.')
            out.add('.'.join(parts[:2]) if len(parts) > 1 else 'self')
    for call, g in prog.callees(finfo):
        if g.cls is not None and isinstance(call, ast.Call) and isinstance(
                call.func, ast.Attribute) and U(call.func.value) == 'self':
            out |= self_writes(prog, g, _seen)
        elif g.cls is not None and not isinstance(call, ast.Call):
            pass
    cache[finfo.qual] = out
    return out


def writes_cb(prog):
    def cb(finfo):
        if finfo.cls is None or finfo.is_static:
            return set()
        return self_writes(prog, finfo)
    return cb

"""Helpers to read facts off enumerated paths (collections, loop elements)."""
import ast

from .util import U, method_call


def contents(p):
    """{collection symbol: [appended / added / stored items]} on path p,
    and the set of collections changed by other means."""
    out, opaque = {}, set()
    for ev in p.events:
        if ev.kind == 'call':
            mc = method_call(ev.node)
            if mc and isinstance(mc[0], ast.Name) and mc[0].id.startswith(
                    'SYM_m'):
                if mc[1] in ('append', 'add') and len(ev.node.args) == 1:
                    out.setdefault(mc[0].id, []).append(ev.node.args[0])
                elif mc[1] in ('extend', 'insert', 'remove', 'pop', 'clear',
                               'update', 'discard', 'reverse'):
                    opaque.add(mc[0].id)
        elif ev.kind == 'store' and isinstance(ev.node, ast.Subscript) and \
                isinstance(ev.node.value, ast.Name) and \
                ev.node.value.id.startswith('SYM_m'):
            out.setdefault(ev.node.value.id, []).append(
                ('item', ev.node.slice, ev.value))
    return out, opaque


def elem_source(en, sym):
    """The iterable expression a loop-element symbol was drawn from."""
    if isinstance(sym, ast.Name):
        sym = sym.id
    d = en.defs.get(sym)
    if isinstance(d, tuple) and d and d[0] == 'elem':
        return d[1]
    return None


def resolve_elem(en, p, expr, depth=6):
    """Follow an element of a collection built on this path back to the
    single item that was put into it (one-iteration paths)."""
    cont, opaque = contents(p)
    while depth > 0:
        depth -= 1
        if not isinstance(expr, ast.Name):
            return expr
        src = elem_source(en, expr)
        if src is None:
            return expr
        src = strip_order(src)[0]
        if isinstance(src, ast.Name) and src.id in cont and \
                src.id not in opaque and len(cont[src.id]) == 1 and \
                not isinstance(cont[src.id][0], tuple):
            expr = cont[src.id][0]
            continue
        return expr
    return expr


def strip_order(e):
    """(inner, [wrappers]) for sorted(x) / list(x) / tuple(x) / reversed(x)
    / iter(x) wrappers around an iterable."""
    wr = []
    while isinstance(e, ast.Call) and isinstance(e.func, ast.Name) and \
            e.func.id in ('sorted', 'list', 'tuple', 'reversed', 'iter') \
            and e.args:
        wr.append(e)
        e = e.args[0]
    return e, wr


def deref(en, e, depth=6):
    """Replace a value symbol by its defining expression (one level at a
    time) until something structural shows."""
    while depth > 0 and isinstance(e, ast.Name) and isinstance(
            en.defs.get(e.id), ast.AST):
        e = en.defs[e.id]
        depth -= 1
    return e


def loop_conds(p):
    return [c for c in p.conds if c.kind == 'loop']


def frame_module(prog, frame, default):
    f = prog.functions.get(frame)
    return f.module if f is not None else default

"""Check context: obligations, findings, evidence, known findings, exit codes."""
import ast
import hashlib
import json
import os
import re
import time

from . import REPO, VERIF
from .model import AnalysisError, Program

KNOWN_FILE = os.path.join(VERIF, 'known_findings.json')


def norm_text(node_or_text):
    """Normalised text of a construct (position independent)."""
    if isinstance(node_or_text, ast.AST):
        try:
            t = ast.unparse(node_or_text)
        except Exception:
            t = ast.dump(node_or_text)
    else:
        t = str(node_or_text)
    return re.sub(r'\s+', ' ', t).strip()


class Finding:
    def __init__(self, prop, rule, where, qual, construct, reason,
                 witness=None):
        self.prop = prop
        self.rule = rule
        self.where = where          # file:line
        self.qual = qual            # qualified function / class
        self.construct = norm_text(construct)
        self.reason = reason
        self.witness = witness

    @property
    def key(self):
        return '%s|%s|%s|%s' % (self.prop, self.rule, self.qual,
                                self.construct)

    @property
    def digest(self):
        return hashlib.sha1(self.key.encode()).hexdigest()[:12]

    def line(self):
        return '%s  %s  %s  %s  -- %s' % (self.where, self.qual, self.rule,
                                          self.construct, self.reason)

    def to_json(self):
        return {'property': self.prop, 'rule': self.rule,
                'where': self.where, 'qualname': self.qual,
                'construct': self.construct, 'reason': self.reason,
                'witness': self.witness, 'key': self.key}


class Ctx:
    def __init__(self, prop, tier='quick', seed=0, root=REPO, prog=None):
        self.prop = prop
        self.tier = tier
        self.seed = seed
        self.root = root
        self.prog = prog if prog is not None else Program(root)
        self.findings = []
        self.obligations = []     # dicts: rule, site, ok, detail
        self.evaluations = 0
        self.nontrivial = set()
        self.samples = []
        self.explanations = []
        self.assumptions = []
        self.trusted = []
        self.consulted = set()
        self.extra = {}
        self.t0 = time.time()

    # ------------------------------------------------------------ recording
    def use(self, *modnames):
        for m in modnames:
            self.consulted.add(m)

    def explain(self, text):
        self.explanations.append(text)

    def assume(self, text):
        if text not in self.assumptions:
            self.assumptions.append(text)

    def trust(self, text):
        if text not in self.trusted:
            self.trusted.append(text)

    def ob(self, rule, ok, where, qual, construct, detail, witness=None,
           nontrivial=True):
        """Record one obligation (rule instance).  A failed obligation is a
        finding."""
        ct = norm_text(construct)
        self.obligations.append({'rule': rule, 'ok': bool(ok),
                                 'site': where, 'qual': qual,
                                 'construct': ct[:200],
                                 'detail': detail if ok else
                                 'FAILED: ' + detail})
        self.evaluations += 1
        if nontrivial:
            self.nontrivial.add((rule, qual, ct))
        if not ok:
            self.findings.append(Finding(self.prop, rule, where, qual,
                                         construct, detail, witness))
        return ok

    def borrow(self, label, fn, *args, only=None, **kw):
        """Run rules of another property's module under this property's
        name: `label(OTHER.RULE)`.  With `only`, the other rules the function
        records are dropped again (they are decided where they belong)."""
        nf, no = len(self.findings), len(self.obligations)
        res = fn(self, *args, **kw)

        def keep(rule):
            return only is None or any(rule == r or rule.startswith(r)
                                       for r in only)
        self.findings[nf:] = [f for f in self.findings[nf:] if keep(f.rule)]
        self.obligations[no:] = [o for o in self.obligations[no:]
                                 if keep(o['rule'])]
        for f in self.findings[nf:]:
            f.rule = '%s(%s)' % (label, f.rule)
        for o in self.obligations[no:]:
            o['rule'] = '%s(%s)' % (label, o['rule'])
        return res

    def borrow_soft(self, label, fn, *args, only=None, **kw):
        """borrow(), but a shape the other property's rule does not read
        (AnalysisError) only costs this cross-listing: it is recorded as an
        assumption and the borrowing check goes on."""
        from .model import AnalysisError
        nf, no = len(self.findings), len(self.obligations)
        try:
            return self.borrow(label, fn, *args, only=only, **kw)
        except AnalysisError as e:
            del self.findings[nf:]
            del self.obligations[no:]
            self.assume('%s(%s) not decided here: %s' % (
                label, '/'.join(only or ['*']), str(e)[:160]))
            return None

    def count(self, n, distinct_keys=()):
        """Count bulk evaluations (table rows, sentences)."""
        self.evaluations += n
        for k in distinct_keys:
            self.nontrivial.add(k)

    def sample(self, s):
        if len(self.samples) < 400:
            self.samples.append(s)

    def floor(self, rule, n, minimum, what):
        """Instance floor: a rule matching fewer sites than confirmed by hand
        must not pass vacuously."""
        if n < minimum and self.findings:
            # a reported violation already explains the missing instances
            return
        if n < minimum:
            raise AnalysisError(
                '%s matched %d %s, expected at least %d (vacuous rule)'
                % (rule, n, what, minimum))

    def where(self, finfo_or_module, node=None):
        path = getattr(finfo_or_module, 'path', None)
        if path is None:
            path = finfo_or_module.module.path
        if node is None:
            node = getattr(finfo_or_module, 'node', None)
        return '%s:%s' % (os.path.relpath(path, self.root),
                          getattr(node, 'lineno', '?'))


def load_known():
    if not os.path.exists(KNOWN_FILE):
        return []
    with open(KNOWN_FILE) as f:
        return json.load(f).get('findings', [])


def matches_known(f, entry):
    if entry.get('property') != f.prop:
        return False
    if entry.get('rule') and entry['rule'] != f.rule:
        return False
    if entry.get('qualname') and entry['qualname'] != f.qual:
        return False
    if entry.get('construct') and entry['construct'] != f.construct:
        return False
    if entry.get('witness_max'):
        # a known finding covers the listed state, not a worse one
        for k, mx in entry['witness_max'].items():
            if (f.witness or {}).get(k, 0) > mx:
                return False
    if entry.get('witness_contains'):
        w = json.dumps(f.witness, sort_keys=True, default=str) + f.reason
        if entry['witness_contains'] not in w:
            return False
    return True


def finish(ctx, level='other'):
    """Print the report, write evidence + replay files, return exit code."""
    known = [e for e in load_known() if e.get('status') == 'known']
    viol, kf = [], []
    for f in ctx.findings:
        hit = next((e for e in known if matches_known(f, e)), None)
        if hit is not None:
            kf.append((f, hit))
        else:
            viol.append(f)
    quiet = bool(os.environ.get('PVERIF_NO_EVIDENCE'))
    outdir = os.path.join(VERIF, 'out', ctx.prop)
    if not quiet:
        os.makedirs(outdir, exist_ok=True)
    seen = set()
    for f, hit in kf:
        tag = (hit.get('id'), f.key)
        if tag in seen:
            continue
        seen.add(tag)
        print('KNOWN-FINDING: property=%s %s [%s]' % (
            ctx.prop, hit.get('what', f.reason), f.line()))
    printed = set()
    for f in viol:
        if f.key in printed:
            continue
        printed.add(f.key)
        path = os.path.join(outdir, f.digest + '.json')
        if not quiet:
            with open(path, 'w') as fh:
                json.dump(f.to_json(), fh, indent=1, default=str)
        print(f.line())
        if f.witness is not None:
            print('    witness: %s' % json.dumps(f.witness, default=str)[:600])
        print('VIOLATION property=%s replay=%s' % (ctx.prop, path))
    if not quiet:
        write_evidence(ctx, level, len(printed), len(seen))
    nob = len(ctx.obligations)
    nok = sum(1 for o in ctx.obligations if o['ok'])
    print('%s %s: %d obligations, %d discharged, %d evaluations, '
          '%d violations, %d known findings, %.2fs' % (
              ctx.prop, ctx.tier, nob, nok, ctx.evaluations, len(printed),
              len(seen), time.time() - ctx.t0))
    return 1 if printed else 0


def write_evidence(ctx, level, nviol, nknown):
    os.makedirs(os.path.join(VERIF, 'evidence'), exist_ok=True)
    units = []
    for m in ctx.prog.units:
        if not ctx.consulted or m.name in ctx.consulted:
            units.append({'unit': os.path.relpath(m.path, ctx.root),
                          'sha256': m.sha256})
    rules = {}
    for o in ctx.obligations:
        r = rules.setdefault(o['rule'], {'instances': 0, 'discharged': 0})
        r['instances'] += 1
        r['discharged'] += 1 if o['ok'] else 0
    samples = []
    obs = ctx.obligations
    if obs:
        step = max(1, len(obs) // 40)
        start = ctx.seed % step if step > 1 else 0
        for o in obs[start::step][:40]:
            samples.append('%s %s %s :: %s -> %s' % (
                o['site'], o['qual'], o['rule'], o['construct'][:120],
                o['detail'][:200]))
    for o in obs:
        if not o['ok']:
            samples.append('%s %s %s :: %s -> %s' % (
                o['site'], o['qual'], o['rule'], o['construct'][:120],
                o['detail'][:300]))
    samples.extend(ctx.samples[:60])
    cov = {
        'explanation': ' '.join(ctx.explanations) or
        'static analysis of the working tree',
        'obligations': len(obs),
        'discharged': sum(1 for o in obs if o['ok']),
        'evaluations': max(ctx.evaluations, 1),
        'distinct_nontrivial': len(ctx.nontrivial),
        'rule': 'one evaluation per rule instance (site, table row, '
                'sentence); distinct = distinct (rule, function, normalised '
                'construct) triples with a non-trivial obligation',
        'samples': samples or ['(none)'],
        'rules': rules,
        'units': units,
        'trusted_base': ctx.trusted or ['python ast module',
                                        'pverif engine'],
        'checker_cmd': '/venv/bin/python -m pverif check %s --tier %s' % (
            ctx.prop, ctx.tier),
        'known_findings': nknown,
    }
    cov.update(ctx.extra)
    ev = {
        'property_id': ctx.prop,
        'tier': ctx.tier,
        'seed': int(ctx.seed),
        'level': level,
        'coverage': cov,
        'assumptions': ctx.assumptions,
        'wall_s': round(time.time() - ctx.t0, 3),
        'violations': nviol,
    }
    path = os.path.join(VERIF, 'evidence', ctx.prop + '.json')
    tmp = path + '.tmp'
    with open(tmp, 'w') as f:
        json.dump(ev, f, indent=1, default=str)
    os.replace(tmp, path)

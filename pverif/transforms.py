"""Behaviour-preserving source transformations used by the self-test's
must-stay-silent corpus (applied to every non-test module of a scratch copy).
"""
import ast
import glob
import os


def _each_module(root):
    for f in sorted(glob.glob(os.path.join(root, 'oslo_policy', '*.py'))):
        yield f


def _rewrite(root, fn):
    for f in _each_module(root):
        src = open(f).read()
        tree = ast.parse(src)
        tree = fn(tree) or tree
        ast.fix_missing_locations(tree)
        out = ast.unparse(tree) + '\n'
        compile(out, f, 'exec')
        open(f, 'w').write(out)


def unparse(root):
    """Reformat: moves every line, drops comments."""
    _rewrite(root, lambda t: t)


class _Rename(ast.NodeTransformer):
    def __init__(self, names):
        self.names = names

    def visit_Name(self, n):
        if n.id in self.names:
            n.id = n.id + '_r'
        return n

    def visit_ExceptHandler(self, n):
        if n.name in self.names:
            n.name = n.name + '_r'
        return self.generic_visit(n)


def _locals_of(fn):
    params = set()

    def add_params(a):
        for x in a.posonlyargs + a.args + a.kwonlyargs:
            params.add(x.arg)
        if a.vararg:
            params.add(a.vararg.arg)
        if a.kwarg:
            params.add(a.kwarg.arg)
    add_params(fn.args)
    glob_ = set()
    stores = set()
    for n in ast.walk(fn):
        if isinstance(n, (ast.Global, ast.Nonlocal)):
            glob_ |= set(n.names)
        if isinstance(n, ast.Name) and isinstance(n.ctx, (ast.Store,
                                                          ast.Del)):
            stores.add(n.id)
        if isinstance(n, ast.ExceptHandler) and n.name:
            stores.add(n.name)
        if isinstance(n, (ast.FunctionDef, ast.Lambda)) and n is not fn:
            add_params(n.args)
    return stores - params - glob_


def alpha(root):
    """Rename every local variable (parameters keep their names: they are
    part of the calling convention)."""
    def fn(tree):
        for node in ast.walk(tree):
            if isinstance(node, ast.ClassDef):
                for f in node.body:
                    if isinstance(f, ast.FunctionDef):
                        _Rename(_locals_of(f)).visit(f)
        for f in tree.body:
            if isinstance(f, ast.FunctionDef):
                _Rename(_locals_of(f)).visit(f)
        return tree
    _rewrite(root, fn)


class _SwapIf(ast.NodeTransformer):
    def visit_If(self, n):
        self.generic_visit(n)
        if n.orelse and not (len(n.orelse) == 1
                             and isinstance(n.orelse[0], ast.If)):
            n.test = ast.UnaryOp(op=ast.Not(), operand=n.test)
            n.body, n.orelse = n.orelse, n.body
        return n


def swap_branches(root):
    """if c: A else: B  ->  if not c: B else: A  (plain if/else only)."""
    _rewrite(root, lambda t: _SwapIf().visit(t))


class _SwapEq(ast.NodeTransformer):
    def visit_Compare(self, n):
        self.generic_visit(n)
        if len(n.ops) == 1 and isinstance(n.ops[0], (ast.Eq, ast.NotEq)):
            n.left, n.comparators[0] = n.comparators[0], n.left
        return n


def swap_eq(root):
    """a == b -> b == a ; a != b -> b != a"""
    _rewrite(root, lambda t: _SwapEq().visit(t))


class _DeMorgan(ast.NodeTransformer):
    def visit_If(self, n):
        self.generic_visit(n)
        t = n.test
        if isinstance(t, ast.BoolOp) and isinstance(t.op, ast.And) and \
                n.orelse == []:
            # if a and b: X   ->   if not (not a or not b): X
            n.test = ast.UnaryOp(op=ast.Not(), operand=ast.BoolOp(
                op=ast.Or(), values=[ast.UnaryOp(op=ast.Not(), operand=v)
                                     for v in t.values]))
        return n


def de_morgan(root):
    _rewrite(root, lambda t: _DeMorgan().visit(t))


class _Tuples(ast.NodeTransformer):
    def visit_Compare(self, n):
        self.generic_visit(n)
        if len(n.ops) == 1 and isinstance(n.ops[0], (ast.In, ast.NotIn)):
            c = n.comparators[0]
            if isinstance(c, ast.Tuple) and all(
                    isinstance(e, ast.Constant) for e in c.elts):
                n.comparators[0] = ast.List(elts=c.elts, ctx=ast.Load())
            elif isinstance(c, ast.List) and all(
                    isinstance(e, ast.Constant) for e in c.elts):
                n.comparators[0] = ast.Tuple(elts=c.elts, ctx=ast.Load())
        return n


def tuple_list(root):
    """x in (a, b) <-> x in [a, b] for literal collections of constants."""
    _rewrite(root, lambda t: _Tuples().visit(t))


class _Padding(ast.NodeTransformer):
    def visit_Module(self, n):
        helper = ast.parse(
            'def _unrelated_helper_for_selftest(value):\n'
            '    """Added by the self-test; unrelated to any property."""\n'
            '    return [value] * 2\n').body
        imp = ast.parse('import itertools as _selftest_itertools\n').body
        # after the module docstring / __future__ imports
        i = 0
        while i < len(n.body) and (
                (isinstance(n.body[i], ast.Expr)
                 and isinstance(n.body[i].value, ast.Constant))
                or isinstance(n.body[i], (ast.Import, ast.ImportFrom))):
            i += 1
        n.body[i:i] = imp
        n.body.extend(helper)
        return n


def padding(root):
    """Unrelated import and function added to every module."""
    _rewrite(root, lambda t: _Padding().visit(t))


class _Logging(ast.NodeTransformer):
    def __init__(self):
        self.has_log = False

    def visit_Module(self, n):
        self.has_log = any(
            isinstance(s, ast.Assign) and any(
                isinstance(t, ast.Name) and t.id == 'LOG' for t in s.targets)
            for s in n.body)
        if self.has_log:
            self.generic_visit(n)
        return n

    def _fn(self, n):
        self.generic_visit(n)
        is_gen = any(isinstance(x, (ast.Yield, ast.YieldFrom))
                     for x in ast.walk(n))
        stmt = ast.parse("LOG.debug('selftest: entering %s', %r)"
                         % ('%s', n.name)).body[0]
        i = 0
        if n.body and isinstance(n.body[0], ast.Expr) and isinstance(
                n.body[0].value, ast.Constant):
            i = 1
        if n.name not in ('__init__',) and not is_gen:
            n.body.insert(i, stmt)
        return n

    visit_FunctionDef = _fn


def logging_calls(root):
    """A debug log statement at the start of every function (modules that
    define LOG)."""
    _rewrite(root, lambda t: _Logging().visit(t))


class _Annotate(ast.NodeTransformer):
    def visit_FunctionDef(self, n):
        self.generic_visit(n)
        for a in n.args.args + n.args.kwonlyargs:
            if a.annotation is None and a.arg not in ('self', 'cls'):
                a.annotation = ast.Constant(value='object')
        return n


def annotations(root):
    """String type annotations on every parameter."""
    _rewrite(root, lambda t: _Annotate().visit(t))


AUTO = [('auto-unparse', unparse), ('auto-alpha-rename', alpha),
        ('auto-swap-if-else', swap_branches), ('auto-swap-eq', swap_eq),
        ('auto-de-morgan', de_morgan), ('auto-tuple-list', tuple_list),
        ('auto-padding', padding), ('auto-logging', logging_calls),
        ('auto-annotations', annotations)]

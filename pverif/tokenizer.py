"""Tokenizer facts extracted from the generator that feeds the parser.

Found through the call graph (the function whose yields are shifted by the
text-rule parser), analysed with the path enumerator.  Facts:

  split       how the rule text is split (regex AST / str.split)
  keywords    set of keyword kinds and whether the test and the yielded kind
              use a case-normalised token
  parens      (open_char, close_char, open_kind, close_kind), ordering
  string      the condition under which a token is classified as 'string'
  check       the value carried by a 'check' token
"""
import ast
import re

from . import PKG
from .model import AnalysisError
from .paths import Enumerator
from .util import U, is_const, method_call

PARSER = PKG + '._parser'

try:                                    # regex AST (CPython internal)
    import re._parser as sre_parse      # 3.11+
    import re._constants as sre_c
except ImportError:                     # pragma: no cover
    import sre_parse
    import sre_constants as sre_c


NORMALISERS = ('lower', 'casefold')


class TokFacts:
    def __init__(self):
        self.func = None
        self.split = None
        self.split_ok = None
        self.split_detail = ''
        self.keyword_sets = []      # (set, tested_normalised, yielded_norm)
        self.keyword_kinds = set()
        self.open = None            # (strip_char, yielded kind)
        self.close = None
        self.order_ok = True
        self.order_detail = ''
        self.string_cond = None
        self.string_value = None
        self.check_arg = None
        self.yields = []            # (kind_text, value_text, line)
        self.problems = []          # (rule, node, detail)
        self.oks = []               # (rule, node, detail)


def find_tokenizer(prog):
    """The generator whose (tok, value) pairs are shifted into the parser."""
    f = prog.functions.get(PARSER + '._parse_text_rule')
    if f is None:
        raise AnalysisError('anchor vanished: text-rule parser')
    # in the text-rule parser itself, or in a helper of the parser module
    # it hands the rule text to
    todo, seen = [f], set()
    while todo:
        h = todo.pop(0)
        if h.qual in seen:
            continue
        seen.add(h.qual)
        for n in ast.walk(h.node):
            if isinstance(n, ast.For) and isinstance(n.iter, ast.Call):
                g = prog.callee_of(h, n.iter)
                if g is not None and any(isinstance(x, (ast.Yield,
                                                        ast.YieldFrom))
                                         for x in ast.walk(g.node)):
                    return g, h, n
        for c in ast.walk(h.node):
            if isinstance(c, ast.Call):
                g = prog.callee_of(h, c)
                if g is not None and g.module is f.module and \
                        g.cls is None and len(seen) < 6 and \
                        g.name != '_parse_check':
                    todo.append(g)
    raise AnalysisError('cannot find the tokenizer generator consumed by '
                        'the text-rule parser')


def whitespace_only(pattern):
    """Does the regex match only (runs of) whitespace, at least one char?"""
    try:
        p = sre_parse.parse(pattern)
    except Exception as e:
        return False, 'regex does not parse: %s' % e
    items = list(p)
    if len(items) != 1:
        return False, 'regex is not a single whitespace item'
    op, av = items[0]

    def ws_item(op, av):
        if op is sre_c.IN:
            for o, a in av:
                if o is sre_c.CATEGORY and a is sre_c.CATEGORY_SPACE:
                    continue
                if o is sre_c.LITERAL and chr(a).isspace():
                    continue
                return False
            return True
        if op is sre_c.LITERAL:
            return chr(av).isspace()
        return False

    if op in (sre_c.MAX_REPEAT, sre_c.MIN_REPEAT):
        lo, hi, sub = av
        sub = list(sub)
        if lo < 1:
            return False, 'regex may match the empty string'
        if len(sub) == 1 and ws_item(*sub[0]):
            return True, 'whitespace run (min %d)' % lo
        return False, 'regex matches non-whitespace'
    if ws_item(op, av):
        return True, 'single whitespace character'
    return False, 'regex matches non-whitespace'


def _deref(en, expr, depth=8):
    while depth and isinstance(expr, ast.Name) and expr.id in en.defs and \
            isinstance(en.defs[expr.id], ast.AST):
        expr = en.defs[expr.id]
        depth -= 1
    return expr


def _strip_chain(en, expr):
    """Follow  x.lstrip(c).rstrip(c')...  back to its root.

    Returns (root_expr, [(method, char), ...]) outermost first."""
    chain = []
    for _ in range(10):
        expr = _deref(en, expr)
        if isinstance(expr, ast.Subscript) and isinstance(
                expr.slice, ast.Slice):
            # the same peeling spelled with run lengths and one slice
            from .paths import _fold_strip_slice
            full = en.expand(expr)
            folded = _fold_strip_slice(full) if isinstance(
                full, ast.Subscript) else None
            if folded is not None:
                expr = folded
        mc = method_call(expr)
        if mc and mc[1] in ('lstrip', 'rstrip', 'strip') and \
                len(expr.args) == 1 and is_const(expr.args[0]):
            chain.append((mc[1], expr.args[0].value))
            expr = mc[0]
            continue
        break
    return expr, chain


def _is_normalised(en, expr):
    e = _deref(en, expr)
    mc = method_call(e)
    if mc and mc[1] in NORMALISERS and not e.args:
        return True, mc[0]
    return False, None


def extract(prog):
    g, consumer, loop = find_tokenizer(prog)
    tf = TokFacts()
    tf.func = g
    from .dte import inline_helpers
    en = Enumerator(prog, g, handler_paths=False, max_depth=4,
                    inline=inline_helpers(
                        prog, modules={PARSER}, classes=False,
                        exclude={PARSER + '._parse_check'}))
    paths = en.run()
    tf.npaths = len(paths)
    mod = g.module
    param = g.params[0] if g.params else None

    # ---- split: the outermost loop iterable
    outer = None
    for n in g.node.body:
        if isinstance(n, ast.For):
            outer = n
            break
    if outer is None:
        raise AnalysisError('tokenizer has no top-level loop')
    it = outer.iter
    # map(f, X) / filter(p, X) / list(X) ... walk the same pieces
    while isinstance(it, ast.Call) and isinstance(it.func, ast.Name) and \
            it.func.id in ('map', 'filter', 'list', 'tuple', 'iter') and \
            it.args:
        it = it.args[-1]
    tf.split = it
    mc = method_call(it)
    if mc and mc[1] == 'split':
        recv = mc[0]
        r = prog.resolve(mod, recv)
        if isinstance(recv, ast.Name) and recv.id == param and not it.args:
            tf.split_ok, tf.split_detail = True, 'str.split() on whitespace'
        else:
            pat = None
            if isinstance(recv, ast.Name) and recv.id in mod.assigns:
                v = mod.assigns[recv.id]
                if isinstance(v, ast.Call) and prog.resolve(
                        mod, v.func) == 'ext:re.compile' and v.args and \
                        is_const(v.args[0]) and len(v.args) == 1 \
                        and not v.keywords:
                    pat = v.args[0].value
            elif isinstance(recv, ast.Call) and prog.resolve(
                    mod, recv.func) == 'ext:re.compile' and recv.args and \
                    is_const(recv.args[0]):
                pat = recv.args[0].value
            if pat is None and r == 'ext:re' and len(it.args) == 2 and \
                    is_const(it.args[0]):
                pat = it.args[0].value
            if pat is None:
                tf.split_ok, tf.split_detail = None, \
                    'unrecognised split expression %s' % U(it)
            else:
                tf.split_ok, tf.split_detail = whitespace_only(pat)
                tf.split_pattern = pat
    else:
        tf.split_ok, tf.split_detail = None, \
            'unrecognised split expression %s' % U(it)

    # ---- yields along paths
    kw_tests = []
    seen_yield = set()
    for p in paths:
        ys = [e for e in p.events if e.kind == 'yield']
        order = []
        for y in ys:
            t = y.node
            if not (isinstance(t, ast.Tuple) and len(t.elts) == 2):
                tf.problems.append(('C01.T0', y, 'tokenizer yields '
                                    'something other than (kind, value)'))
                continue
            kind, val = t.elts
            kd = _deref(en, kind)
            if is_const(kd):
                order.append((kd.value, y))
            else:
                order.append(('<norm>', y))
            key = (U(en.expand(kind)), U(en.expand(val)), y.line)
            if key not in seen_yield:
                seen_yield.add(key)
                tf.yields.append(key)
            conds = p.conds[:y.nconds]
            # keyword yields
            isnorm, _src = _is_normalised(en, kind)
            if isnorm or (is_const(kd) and isinstance(kd.value, str)
                          and kd.value.isalpha() and kd.value not in
                          ('check', 'string')):
                # find the governing membership / equality test
                gov = None
                for c in conds:
                    if c.kind != 'test' or not c.pol:
                        continue
                    e = c.expr
                    if isinstance(e, ast.Compare) and len(e.ops) == 1 and \
                            isinstance(e.ops[0], (ast.In, ast.Eq)):
                        l, r0 = e.left, e.comparators[0]
                        if isinstance(e.ops[0], ast.In) and isinstance(
                                r0, (ast.Tuple, ast.List, ast.Set)) and all(
                                    is_const(x) for x in r0.elts):
                            gov = (l, {x.value for x in r0.elts}, c)
                        elif isinstance(e.ops[0], ast.Eq) and is_const(r0):
                            gov = (l, {r0.value}, c)
                        elif isinstance(e.ops[0], ast.Eq) and is_const(l):
                            gov = (r0, {l.value}, c)
                if gov is None:
                    tf.problems.append((
                        'C01.T1', y, 'keyword token yielded without a '
                        'recognisable keyword test'))
                    continue
                tested_norm, _ = _is_normalised(en, gov[0])
                kinds = gov[1] if isnorm else {kd.value}
                kw_tests.append((frozenset(kinds), tested_norm, isnorm
                                 or is_const(kd), y, gov[2]))
                # the word tested has had its parentheses peeled on both
                # sides (`(not` and `not)` are the keyword too)
                txt = U(en.expand(gov[0]))
                sides = {m for m in ('lstrip', 'rstrip')
                         if '.%s(' % m in txt}
                if len(sides) == 1:
                    tf.problems.append((
                        'C01.T1', y, 'the keyword test is made on a word '
                        'peeled on one side only (%s): a keyword glued to '
                        'the other parenthesis, as the printers write it, is '
                        'taken for a check' % sorted(sides)[0]))
            # string classification
            if is_const(kd, 'string'):
                tf.string_value = val
                sc = []
                for c in conds:
                    if c.kind == 'test':
                        sc.append(c)
                tf.string_cond = sc
                tf.string_yield = y
                # which word is tested: peeled of its parentheses on both
                # sides (as the word handed to the leaf parser is), or not
                sides = set()
                for c in sc:
                    for n in ast.walk(c.expr):
                        if isinstance(n, ast.Subscript) or (
                                isinstance(n, ast.Call) and method_call(n)
                                and method_call(n)[1] in ('startswith',
                                                          'endswith')):
                            base = n.value if isinstance(
                                n, ast.Subscript) else method_call(n)[0]
                            txt = U(en.expand(base))
                            sides |= {m for m in ('lstrip', 'rstrip')
                                      if '.%s(' % m in txt}
                tf.string_sides = sides
            if is_const(kd, 'check'):
                v = _deref(en, val)
                tf.check_value = v
                tf.check_yield = y
                tf.check_conds = conds
        # ordering of parens around the token's own yield
        kinds = [k for k, _ in order]
        own = [i for i, k in enumerate(kinds) if k not in ('(', ')')]
        for i, k in enumerate(kinds):
            if k == '(' and own and i > min(own):
                tf.order_ok = False
                tf.order_detail = "'(' yielded after the token itself"
            if k == ')' and own and i < max(own):
                tf.order_ok = False
                tf.order_detail = "')' yielded before the token itself"
    tf.kw_tests = kw_tests
    for kinds, tn, yn, y, c in kw_tests:
        tf.keyword_kinds |= set(kinds)

    # ---- paren loops (syntactic: for _ in range(len(a) - len(b)): yield K)
    for n in ast.walk(g.node):
        if isinstance(n, ast.For) and n is not outer:
            ys = [x for x in ast.walk(n) if isinstance(x, ast.Yield)]
            if len(ys) != 1 or not isinstance(ys[0].value, ast.Tuple):
                continue
            kind = ys[0].value.elts[0]
            if not is_const(kind):
                continue
            tf.paren_loops = getattr(tf, 'paren_loops', [])
            tf.paren_loops.append((n, kind.value, ys[0]))
    return tf, en, paths

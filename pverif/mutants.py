"""Variant corpus for the self-test (see selftest.py).

FIRE  = the edit breaks the property; the named check must report it.
SILENT = behaviour-preserving edit; the named checks must stay at exit 0.
"""
P = 'oslo_policy/_parser.py'
C = 'oslo_policy/_checks.py'
POL = 'oslo_policy/policy.py'
GEN = 'oslo_policy/generator.py'
SH = 'oslo_policy/shell.py'
OPTS = 'oslo_policy/opts.py'
CH = 'oslo_policy/_cache_handler.py'
EXT = 'oslo_policy/_external.py'

VARIANTS = []


def fire(id, prop, edits, rule=None):
    VARIANTS.append({'id': id, 'props': [prop], 'expect': 'fire',
                     'edits': edits, 'rule': rule})


def silent(id, props, edits):
    if isinstance(props, str):
        props = [props]
    VARIANTS.append({'id': id, 'props': props, 'expect': 'silent',
                     'edits': edits})


# ------------------------------------------------------------------ C01
fire('c01-retarget-pattern', 'C01',
     [(P, "@reducer('and_expr', 'or', 'check')",
       "@reducer('and_expr', 'and', 'check')")], 'C01.TABLE')
fire('c01-delete-pattern', 'C01',
     [(P, "    @reducer('(', 'and_expr', ')')\n", "")], 'C01.TABLE')
fire('c01-mix-wrong', 'C01',
     [(P, """        or_expr, check1 = or_expr.pop_check()
        if isinstance(check1, _checks.AndCheck):
            and_expr = check1
            and_expr.add_check(check)
        else:
            and_expr = _checks.AndCheck([check1, check])
        return [('or_expr', or_expr.add_check(and_expr))]""",
       """        return [('and_expr', _checks.AndCheck([or_expr, check]))]""")],
     'C01.TABLE')
fire('c01-or-in-make-and', 'C01',
     [(P, "return [('and_expr', _checks.AndCheck([check1, check2]))]",
       "return [('and_expr', _checks.OrCheck([check1, check2]))]")],
     'C01.TABLE')
fire('c01-swapped-operands-not', 'C01',
     [(P, "return [('check', _checks.NotCheck(check))]",
       "return [('check', check)]")], 'C01.TABLE')
fire('c01-keyword-case', 'C01',
     [(P, "yield lowered, clean", "yield clean, clean")], 'C01.T1')
fire('c01-keyword-test-raw', 'C01',
     [(P, "if lowered in ('and', 'or', 'not'):",
       "if clean in ('and', 'or', 'not'):")], 'C01.T1')
fire('c01-and-any', 'C01',
     [(C, """        for rule in self.rules:
            if not _check(rule, target, cred, enforcer, current_rule):
                return False

        return True""",
       """        for rule in self.rules:
            if _check(rule, target, cred, enforcer, current_rule):
                return True

        return False""")], 'C01')
fire('c01-not-identity', 'C01',
     [(C, "return not _check(self.rule, target, cred, enforcer, current_rule)",
       "return _check(self.rule, target, cred, enforcer, current_rule)")],
     'C01')
fire('c01-true-false', 'C01',
     [(C, """        \"\"\"Check the policy.\"\"\"

        return True""", """        \"\"\"Check the policy.\"\"\"

        return False""")], 'C01')
fire('c01-list-swapped', 'C01',
     [(P, "or_list.append(_checks.AndCheck(and_list))",
       "or_list.append(_checks.OrCheck(and_list))")], 'C01.LIST')
fire('c01-list-outer-and', 'C01',
     [(P, "return _checks.OrCheck(or_list)",
       "return _checks.AndCheck(or_list)")], 'C01.LIST')
fire('c01-strip-charset', 'C01',
     [(P, "clean = tok.lstrip('(')", "clean = tok.lstrip('([')")], 'C01.T3')
fire('c01-rstrip-charset', 'C01',
     [(P, "clean = tok.rstrip(')')", "clean = tok.rstrip(' )')")], 'C01.T3')
fire('c01-empty-string-deny', 'C01',
     [(P, """    if not rule:
        return _checks.TrueCheck()

    # Parse the token stream""", """    if not rule:
        return _checks.FalseCheck()

    # Parse the token stream""")], 'C01.CONST')
fire('c01-at-is-false', 'C01',
     [(P, """    elif rule == '@':
        return _checks.TrueCheck()""", """    elif rule == '@':
        return _checks.FalseCheck()""")], 'C01.CONST')
fire('c01-values-slot', 'C01',
     [(P, "self.values[-len(reduction):] = [r[1] for r in results]",
       "self.values[-len(reduction):] = [r[0] for r in results]")], 'C01.D2')
fire('c01-no-fixpoint', 'C01',
     [(P, "                return self.reduce()\n", "                return\n")],
     'C01.D5')
fire('c01-shift-no-reduce', 'C01',
     [(P, """        # Do a greedy reduce...
        self.reduce()""", """        # Do a greedy reduce...
        pass""")], 'C01.D6')
fire('c01-split-nonspace', 'C01',
     [(P, "_tokenize_re = re.compile(r'\\s+')",
       "_tokenize_re = re.compile(r'[\\s,]+')")], 'C01.T5')
fire('c01-parens-after', 'C01',
     [(P, """        clean = tok.lstrip('(')
        for i in range(len(tok) - len(clean)):
            yield '(', '('
""", """        clean = tok.lstrip('(')
"""), (P, """        # Yield the trailing parens
        for i in range(trail):
            yield ')', ')'""", """        # Yield the trailing parens
        for i in range(trail):
            yield ')', ')'
        for i in range(len(tok) - len(tok.lstrip('('))):
            yield '(', '('""")], 'C01.T3')

silent('c01-drop-len-guard', ['C01', 'C02', 'C15'],
       [(P, """            if (len(self.tokens) >= len(reduction) and
                    self.tokens[-len(reduction):] == reduction):""",
         """            if self.tokens[-len(reduction):] == reduction:""")])
silent('c01-return-not-reduce', ['C01', 'C02'],
       [(P, "                return self.reduce()\n",
         "                return not self.reduce()\n")])
silent('c01-remove-bang-branch', ['C01', 'C02', 'C15'],
       [(P, """    if rule == '!':
        return _checks.FalseCheck()
    elif rule == '@':""", """    if rule == '@':""")])
silent('c01-any-all', ['C01', 'C06', 'C14'],
       [(C, """        for rule in self.rules:
            if not _check(rule, target, cred, enforcer, current_rule):
                return False

        return True""",
         """        return all(_check(rule, target, cred, enforcer, current_rule)
                   for rule in self.rules)""")])
silent('c01-split-single-ws', ['C01', 'C15'],
       [(P, "_tokenize_re = re.compile(r'\\s+')",
         "_tokenize_re = re.compile(r'\\s')")])
silent('c01-reorder-reducers', ['C01', 'C02', 'C15'],
       [(P, """    @reducer('not', 'check')
    def _make_not_expr(self, _not, check):
        \"\"\"Invert the result of another check.\"\"\"

        return [('check', _checks.NotCheck(check))]
""", ""),
        (P, """    @reducer('(', 'check', ')')
    @reducer('(', 'and_expr', ')')""", """    @reducer('not', 'check')
    def _make_not_expr(self, _not, check):
        \"\"\"Invert the result of another check.\"\"\"

        return [('check', _checks.NotCheck(check))]

    @reducer('(', 'check', ')')
    @reducer('(', 'and_expr', ')')""")])
silent('c01-mix-flip-branches', ['C01', 'C15'],
       [(P, """        if isinstance(check1, _checks.AndCheck):
            and_expr = check1
            and_expr.add_check(check)
        else:
            and_expr = _checks.AndCheck([check1, check])""",
         """        if not isinstance(check1, _checks.AndCheck):
            and_expr = _checks.AndCheck([check1, check])
        else:
            and_expr = check1
            and_expr.add_check(check)""")])
silent('c01-empty-token-skip', ['C01', 'C02', 'C15'],
       [(P, "        if not tok or tok.isspace():", "        if not tok:")])

# ------------------------------------------------------------------ C02
fire('c02-revert-f1', 'C02',
     [(P, """        if (len(self.values) != 1 or
                self.tokens[0] in ('(', ')', 'and', 'or', 'not', 'string')):""",
       """        if len(self.values) != 1:""")], 'C02.RESULT-TYPE')
fire('c02-f1-partial', 'C02',
     [(P, "self.tokens[0] in ('(', ')', 'and', 'or', 'not', 'string')):",
       "self.tokens[0] in ('(', ')', 'and', 'or', 'not')):")],
     'C02.RESULT-TYPE')
fire('c02-revert-f2a-top', 'C02',
     [(P, """    if rule is None or isinstance(rule, (list, tuple)):
        return _parse_list_rule(rule)
""", """    if True:
        return _parse_list_rule(rule)
""")], 'C02.TRUE-GUARD')
fire('c02-revert-f2a-inner', 'C02',
     [(P, """        elif not isinstance(inner_rule, (list, tuple)):
            # Not a list of checks; fail closed
            LOG.error('Failed to understand rule %s', inner_rule)
            inner_rule = ['!']
""", "")], 'C02.ITER-GUARD')
fire('c02-len-lt-1', 'C02',
     [(P, "        if (len(self.values) != 1 or",
       "        if (len(self.values) < 1 or")], 'C02.REJECT')
fire('c02-handler-true', 'C02',
     [(P, """        # Fail closed
        return _checks.FalseCheck()


def parse_rule""", """        # Fail closed
        return _checks.TrueCheck()


def parse_rule""")], 'C02')
fire('c02-split-handler-true', 'C02',
     [(P, """        # If the rule is invalid, we'll fail closed
        return _checks.FalseCheck()""",
       """        # If the rule is invalid, we'll fail closed
        return _checks.TrueCheck()""")], 'C02')
fire('c02-no-try', 'C02',
     [(P, """    try:
        return state.result
    except ValueError:
        # Couldn't parse the rule
        LOG.exception('Failed to understand rule %s', rule)

        # Fail closed
        return _checks.FalseCheck()""", """    return state.result""")],
     'C02.RAISE-CATCH')
fire('c02-wrong-handler-class', 'C02',
     [(P, "    except ValueError:\n        # Couldn't parse",
       "    except KeyError:\n        # Couldn't parse")], 'C02.RAISE-CATCH')
fire('c02-empty-or-list-true', 'C02',
     [(P, """    if not or_list:
        return _checks.FalseCheck()""", """    if not or_list:
        return _checks.TrueCheck()""")], 'C02.TRUE-GUARD')
fire('c02-load-without-parse', 'C02',
     [(POL, """        rules = {k: _parser.parse_rule(v) for k, v in parsed_file.items()}""",
       """        rules = {k: v for k, v in parsed_file.items()}""")],
     'C02.EACH-VALUE')
fire('c02-no-handler-true', 'C02',
     [(P, """        LOG.error('No handler for matches of kind %s', kind)
        return _checks.FalseCheck()""",
       """        LOG.error('No handler for matches of kind %s', kind)
        return _checks.TrueCheck()""")], 'C02')
fire('c02-passthrough', 'C02',
     [(P, """    # Anything else (booleans, numbers, mappings) is not a rule
    LOG.error('Failed to understand rule %s', rule)
    # Fail closed
    return _checks.FalseCheck()""",
       """    return rule""")], 'C02')

silent('c02-except-exception', ['C01', 'C02'],
       [(P, "    except ValueError:\n        # Couldn't parse",
         "    except Exception:\n        # Couldn't parse")])
silent('c02-no-log', ['C01', 'C02'],
       [(P, "        LOG.exception('Failed to understand rule %s', rule)\n\n        # Fail closed", "        # Fail closed")])
silent('c02-len-spelling', ['C01', 'C02'],
       [(P, """    # Empty rule defaults to True
    if not rule:""", """    # Empty rule defaults to True
    if rule is None or len(rule) == 0:""")])
silent('c02-whitelist-result', ['C01', 'C02', 'C15'],
       [(P, "self.tokens[0] in ('(', ')', 'and', 'or', 'not', 'string')):",
         "self.tokens[0] not in ('check', 'and_expr', 'or_expr')):")])

# ------------------------------------------------------------------ C03
fire('c03-check-default-ignored', 'C03',
     [(POL, "        if isinstance(self.default_rule, _checks.BaseCheck):\n            return self.default_rule\n",
       "        if False:\n            return self.default_rule\n")], 'C03.MISSING')
fire('c03-return-key', 'C03',
     [(POL, "        if isinstance(self.default_rule, _checks.BaseCheck):\n            return self.default_rule\n",
       "        if isinstance(self.default_rule, _checks.BaseCheck):\n            raise KeyError(key)\n")], 'C03.MISSING')
fire('c03-no-recursion-guard', 'C03',
     [(POL, "        if self.default_rule not in self:\n            raise KeyError(key)\n\n        elif isinstance",
       "        if isinstance")], 'C03.MISSING')
fire('c03-empty-store-allows', 'C03',
     [(POL, """            # No rules to reference means we're going to fail closed
            result = False""", """            # No rules to reference means we're going to fail closed
            result = True""")], 'C03.FAIL-CLOSED')
fire('c03-keyerror-allows', 'C03',
     [(POL, """                # If the rule doesn't exist, fail closed
                result = False""", """                # If the rule doesn't exist, fail closed
                result = True""")], 'C03.FAIL-CLOSED')
fire('c03-drop-default-init', 'C03',
     [(POL, "        self.rules = Rules(rules, self.default_rule)\n        self.registered_rules = {}",
       "        self.rules = Rules(rules)\n        self.registered_rules = {}")], 'C03.DEFAULT-SRC')
fire('c03-drop-default-set-rules', 'C03',
     [(POL, "        if overwrite:\n            self.rules = Rules(rules, self.default_rule)",
       "        if overwrite:\n            self.rules = Rules(rules)")], 'C03.DEFAULT-SRC')
fire('c03-drop-default-load', 'C03',
     [(POL, "            rules = Rules.load(data, self.default_rule)",
       "            rules = Rules.load(data)")], 'C03.DEFAULT-SRC')
fire('c03-drop-default-reset', 'C03',
     [(POL, "                    self.rules = Rules(default_rule=self.default_rule)",
       "                    self.rules = Rules()")], 'C03.DEFAULT-SRC')
fire('c03-opt-default', 'C03',
     [(OPTS, "    cfg.StrOpt('policy_default_rule',\n               default='default',",
       "    cfg.StrOpt('policy_default_rule',\n               default='defaults',")], 'C03.DEFAULT-SRC')
fire('c03-alias-keyerror-true', 'C03',
     [(C, "            # We don't have any matching rule; fail closed\n            return False",
       "            # We don't have any matching rule; fail closed\n            return True")], 'C03.RAISE-CATCH')
fire('c03-enforce-no-catch', 'C03',
     [(POL, "            except KeyError:\n                LOG.debug('Rule [%s] does not exist', rule)",
       "            except AttributeError:\n                LOG.debug('Rule [%s] does not exist', rule)")], 'C03.RAISE-CATCH')
fire('c03-rules-getitem', 'C03',
     [(POL, "    def __missing__(self, key):\n        \"\"\"Implements the default rule handling.\"\"\"\n",
       "    def __getitem__(self, key):\n        return dict.get(self, key) or dict.__getitem__(self, self.default_rule)\n\n    def __missing__(self, key):\n        \"\"\"Implements the default rule handling.\"\"\"\n")], 'C03.NO-OVERRIDE')
fire('c03-init-default-from-opt-only', 'C03',
     [(POL, "        self.default_rule = (default_rule or\n                             self.conf.oslo_policy.policy_default_rule)",
       "        self.default_rule = self.conf.oslo_policy.policy_default_rule")], 'C03.DEFAULT-SRC')

silent('c03-no-dict-guard', 'C03',
       [(POL, "        if isinstance(self.default_rule, dict):\n            raise KeyError(key)\n\n", "")])
silent('c03-no-falsy-guard', 'C03',
       [(POL, "        if not self.default_rule:\n            raise KeyError(key)\n\n", "")])
silent('c03-elif-str-else', 'C03',
       [(POL, "        elif isinstance(self.default_rule, str):\n            return self[self.default_rule]",
         "        else:\n            return self[self.default_rule]")])
silent('c03-reorder-guards', 'C03',
       [(POL, """        if isinstance(self.default_rule, dict):
            raise KeyError(key)

        # If the default rule isn't actually defined, do something
        # reasonably intelligent
        if not self.default_rule:
            raise KeyError(key)
""", """        if not self.default_rule:
            raise KeyError(key)

        if isinstance(self.default_rule, dict):
            raise KeyError(key)
""")])

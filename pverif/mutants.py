"""Variant corpus for the self-test (see selftest.py).

FIRE  = the edit breaks the property; the named check must report it.
SILENT = behaviour-preserving edit; the named checks must stay at exit 0.
"""
P = 'oslo_policy/_parser.py'
C = 'oslo_policy/_checks.py'
POL = 'oslo_policy/policy.py'
GEN = 'oslo_policy/generator.py'
SH = 'oslo_policy/shell.py'
OPTS = 'oslo_policy/opts.py'
CH = 'oslo_policy/_cache_handler.py'
EXT = 'oslo_policy/_external.py'

VARIANTS = []


def fire(id, prop, edits, rule=None):
    VARIANTS.append({'id': id, 'props': [prop], 'expect': 'fire',
                     'edits': edits, 'rule': rule})


def silent(id, props, edits):
    if isinstance(props, str):
        props = [props]
    VARIANTS.append({'id': id, 'props': props, 'expect': 'silent',
                     'edits': edits})


# ------------------------------------------------------------------ C01
fire('c01-retarget-pattern', 'C01',
     [(P, "@reducer('and_expr', 'or', 'check')",
       "@reducer('and_expr', 'and', 'check')")], 'C01.TABLE')
fire('c01-delete-pattern', 'C01',
     [(P, "    @reducer('(', 'and_expr', ')')\n", "")], 'C01.TABLE')
fire('c01-mix-wrong', 'C01',
     [(P, """        or_expr, check1 = or_expr.pop_check()
        if isinstance(check1, _checks.AndCheck):
            and_expr = check1
            and_expr.add_check(check)
        else:
            and_expr = _checks.AndCheck([check1, check])
        return [('or_expr', or_expr.add_check(and_expr))]""",
       """        return [('and_expr', _checks.AndCheck([or_expr, check]))]""")],
     'C01.TABLE')
fire('c01-or-in-make-and', 'C01',
     [(P, "return [('and_expr', _checks.AndCheck([check1, check2]))]",
       "return [('and_expr', _checks.OrCheck([check1, check2]))]")],
     'C01.TABLE')
fire('c01-swapped-operands-not', 'C01',
     [(P, "return [('check', _checks.NotCheck(check))]",
       "return [('check', check)]")], 'C01.TABLE')
fire('c01-keyword-case', 'C01',
     [(P, "yield lowered, clean", "yield clean, clean")], 'C01.T1')
fire('c01-keyword-test-raw', 'C01',
     [(P, "if lowered in ('and', 'or', 'not'):",
       "if clean in ('and', 'or', 'not'):")], 'C01.T1')
fire('c01-and-any', 'C01',
     [(C, """        for rule in self.rules:
            if not _check(rule, target, cred, enforcer, current_rule):
                return False

        return True""",
       """        for rule in self.rules:
            if _check(rule, target, cred, enforcer, current_rule):
                return True

        return False""")], 'C01')
fire('c01-not-identity', 'C01',
     [(C, "return not _check(self.rule, target, cred, enforcer, current_rule)",
       "return _check(self.rule, target, cred, enforcer, current_rule)")],
     'C01')
fire('c01-true-false', 'C01',
     [(C, """        \"\"\"Check the policy.\"\"\"

        return True""", """        \"\"\"Check the policy.\"\"\"

        return False""")], 'C01')
fire('c01-list-swapped', 'C01',
     [(P, "or_list.append(_checks.AndCheck(and_list))",
       "or_list.append(_checks.OrCheck(and_list))")], 'C01.LIST')
fire('c01-list-outer-and', 'C01',
     [(P, "return _checks.OrCheck(or_list)",
       "return _checks.AndCheck(or_list)")], 'C01.LIST')
fire('c01-strip-charset', 'C01',
     [(P, "clean = tok.lstrip('(')", "clean = tok.lstrip('([')")], 'C01.T3')
fire('c01-rstrip-charset', 'C01',
     [(P, "clean = tok.rstrip(')')", "clean = tok.rstrip(' )')")], 'C01.T3')
fire('c01-empty-string-deny', 'C01',
     [(P, """    if not rule:
        return _checks.TrueCheck()

    # Parse the token stream""", """    if not rule:
        return _checks.FalseCheck()

    # Parse the token stream""")], 'C01.CONST')
fire('c01-at-is-false', 'C01',
     [(P, """    elif rule == '@':
        return _checks.TrueCheck()""", """    elif rule == '@':
        return _checks.FalseCheck()""")], 'C01.CONST')
fire('c01-values-slot', 'C01',
     [(P, "self.values[-len(reduction):] = [r[1] for r in results]",
       "self.values[-len(reduction):] = [r[0] for r in results]")], 'C01.D2')
fire('c01-no-fixpoint', 'C01',
     [(P, "                return self.reduce()\n", "                return\n")],
     'C01.D5')
fire('c01-shift-no-reduce', 'C01',
     [(P, """        # Do a greedy reduce...
        self.reduce()""", """        # Do a greedy reduce...
        pass""")], 'C01.D6')
fire('c01-split-nonspace', 'C01',
     [(P, "_tokenize_re = re.compile(r'\\s+')",
       "_tokenize_re = re.compile(r'[\\s,]+')")], 'C01.T5')
fire('c01-parens-after', 'C01',
     [(P, """        clean = tok.lstrip('(')
        for i in range(len(tok) - len(clean)):
            yield '(', '('
""", """        clean = tok.lstrip('(')
"""), (P, """        # Yield the trailing parens
        for i in range(trail):
            yield ')', ')'""", """        # Yield the trailing parens
        for i in range(trail):
            yield ')', ')'
        for i in range(len(tok) - len(tok.lstrip('('))):
            yield '(', '('""")], 'C01.T3')

silent('c01-drop-len-guard', ['C01', 'C02', 'C15'],
       [(P, """            if (len(self.tokens) >= len(reduction) and
                    self.tokens[-len(reduction):] == reduction):""",
         """            if self.tokens[-len(reduction):] == reduction:""")])
silent('c01-return-not-reduce', ['C01', 'C02'],
       [(P, "                return self.reduce()\n",
         "                return not self.reduce()\n")])
silent('c01-remove-bang-branch', ['C01', 'C02', 'C15'],
       [(P, """    if rule == '!':
        return _checks.FalseCheck()
    elif rule == '@':""", """    if rule == '@':""")])
silent('c01-any-all', ['C01', 'C06', 'C14'],
       [(C, """        for rule in self.rules:
            if not _check(rule, target, cred, enforcer, current_rule):
                return False

        return True""",
         """        return all(_check(rule, target, cred, enforcer, current_rule)
                   for rule in self.rules)""")])
silent('c01-split-single-ws', ['C01', 'C15'],
       [(P, "_tokenize_re = re.compile(r'\\s+')",
         "_tokenize_re = re.compile(r'\\s')")])
silent('c01-reorder-reducers', ['C01', 'C02', 'C15'],
       [(P, """    @reducer('not', 'check')
    def _make_not_expr(self, _not, check):
        \"\"\"Invert the result of another check.\"\"\"

        return [('check', _checks.NotCheck(check))]
""", ""),
        (P, """    @reducer('(', 'check', ')')
    @reducer('(', 'and_expr', ')')""", """    @reducer('not', 'check')
    def _make_not_expr(self, _not, check):
        \"\"\"Invert the result of another check.\"\"\"

        return [('check', _checks.NotCheck(check))]

    @reducer('(', 'check', ')')
    @reducer('(', 'and_expr', ')')""")])
silent('c01-mix-flip-branches', ['C01', 'C15'],
       [(P, """        if isinstance(check1, _checks.AndCheck):
            and_expr = check1
            and_expr.add_check(check)
        else:
            and_expr = _checks.AndCheck([check1, check])""",
         """        if not isinstance(check1, _checks.AndCheck):
            and_expr = _checks.AndCheck([check1, check])
        else:
            and_expr = check1
            and_expr.add_check(check)""")])
silent('c01-empty-token-skip', ['C01', 'C02', 'C15'],
       [(P, "        if not tok or tok.isspace():", "        if not tok:")])

# ------------------------------------------------------------------ C02
fire('c02-revert-f1', 'C02',
     [(P, """        if (len(self.values) != 1 or
                self.tokens[0] in ('(', ')', 'and', 'or', 'not', 'string')):""",
       """        if len(self.values) != 1:""")], 'C02.RESULT-TYPE')
fire('c02-f1-partial', 'C02',
     [(P, "self.tokens[0] in ('(', ')', 'and', 'or', 'not', 'string')):",
       "self.tokens[0] in ('(', ')', 'and', 'or', 'not')):")],
     'C02.RESULT-TYPE')
fire('c02-revert-f2a-top', 'C02',
     [(P, """    if rule is None or isinstance(rule, (list, tuple)):
        return _parse_list_rule(rule)
""", """    if True:
        return _parse_list_rule(rule)
""")], 'C02.TRUE-GUARD')
fire('c02-revert-f2a-inner', 'C02',
     [(P, """        elif not isinstance(inner_rule, (list, tuple)):
            # Not a list of checks; fail closed
            LOG.error('Failed to understand rule %s', inner_rule)
            inner_rule = ['!']
""", "")], 'C02.ITER-GUARD')
fire('c02-len-lt-1', 'C02',
     [(P, "        if (len(self.values) != 1 or",
       "        if (len(self.values) < 1 or")], 'C02.REJECT')
fire('c02-handler-true', 'C02',
     [(P, """        # Fail closed
        return _checks.FalseCheck()


def parse_rule""", """        # Fail closed
        return _checks.TrueCheck()


def parse_rule""")], 'C02')
fire('c02-split-handler-true', 'C02',
     [(P, """        # If the rule is invalid, we'll fail closed
        return _checks.FalseCheck()""",
       """        # If the rule is invalid, we'll fail closed
        return _checks.TrueCheck()""")], 'C02')
fire('c02-no-try', 'C02',
     [(P, """    try:
        return state.result
    except ValueError:
        # Couldn't parse the rule
        LOG.exception('Failed to understand rule %s', rule)

        # Fail closed
        return _checks.FalseCheck()""", """    return state.result""")],
     'C02.RAISE-CATCH')
fire('c02-wrong-handler-class', 'C02',
     [(P, "    except ValueError:\n        # Couldn't parse",
       "    except KeyError:\n        # Couldn't parse")], 'C02.RAISE-CATCH')
fire('c02-empty-or-list-true', 'C02',
     [(P, """    if not or_list:
        return _checks.FalseCheck()""", """    if not or_list:
        return _checks.TrueCheck()""")], 'C02.TRUE-GUARD')
fire('c02-load-without-parse', 'C02',
     [(POL, """        rules = {k: _parser.parse_rule(v) for k, v in parsed_file.items()}""",
       """        rules = {k: v for k, v in parsed_file.items()}""")],
     'C02.EACH-VALUE')
fire('c02-no-handler-true', 'C02',
     [(P, """        LOG.error('No handler for matches of kind %s', kind)
        return _checks.FalseCheck()""",
       """        LOG.error('No handler for matches of kind %s', kind)
        return _checks.TrueCheck()""")], 'C02')
fire('c02-passthrough', 'C02',
     [(P, """    # Anything else (booleans, numbers, mappings) is not a rule
    LOG.error('Failed to understand rule %s', rule)
    # Fail closed
    return _checks.FalseCheck()""",
       """    return rule""")], 'C02')

silent('c02-except-exception', ['C01', 'C02'],
       [(P, "    except ValueError:\n        # Couldn't parse",
         "    except Exception:\n        # Couldn't parse")])
silent('c02-no-log', ['C01', 'C02'],
       [(P, "        LOG.exception('Failed to understand rule %s', rule)\n\n        # Fail closed", "        # Fail closed")])
silent('c02-len-spelling', ['C01', 'C02'],
       [(P, """    # Empty rule defaults to True
    if not rule:""", """    # Empty rule defaults to True
    if rule is None or len(rule) == 0:""")])
silent('c02-whitelist-result', ['C01', 'C02', 'C15'],
       [(P, "self.tokens[0] in ('(', ')', 'and', 'or', 'not', 'string')):",
         "self.tokens[0] not in ('check', 'and_expr', 'or_expr')):")])

# ------------------------------------------------------------------ C03
fire('c03-check-default-ignored', 'C03',
     [(POL, "        if isinstance(self.default_rule, _checks.BaseCheck):\n            return self.default_rule\n",
       "        if False:\n            return self.default_rule\n")], 'C03.MISSING')
fire('c03-return-key', 'C03',
     [(POL, "        if isinstance(self.default_rule, _checks.BaseCheck):\n            return self.default_rule\n",
       "        if isinstance(self.default_rule, _checks.BaseCheck):\n            raise KeyError(key)\n")], 'C03.MISSING')
fire('c03-no-recursion-guard', 'C03',
     [(POL, "        if self.default_rule not in self:\n            raise KeyError(key)\n\n        elif isinstance",
       "        if isinstance")], 'C03.MISSING')
fire('c03-empty-store-allows', 'C03',
     [(POL, """            # No rules to reference means we're going to fail closed
            result = False""", """            # No rules to reference means we're going to fail closed
            result = True""")], 'C03.FAIL-CLOSED')
fire('c03-keyerror-allows', 'C03',
     [(POL, """                # If the rule doesn't exist, fail closed
                result = False""", """                # If the rule doesn't exist, fail closed
                result = True""")], 'C03.FAIL-CLOSED')
fire('c03-drop-default-init', 'C03',
     [(POL, "        self.rules = Rules(rules, self.default_rule)\n        self.registered_rules = {}",
       "        self.rules = Rules(rules)\n        self.registered_rules = {}")], 'C03.DEFAULT-SRC')
fire('c03-drop-default-set-rules', 'C03',
     [(POL, "        if overwrite:\n            self.rules = Rules(rules, self.default_rule)",
       "        if overwrite:\n            self.rules = Rules(rules)")], 'C03.DEFAULT-SRC')
fire('c03-drop-default-load', 'C03',
     [(POL, "            rules = Rules.load(data, self.default_rule)",
       "            rules = Rules.load(data)")], 'C03.DEFAULT-SRC')
fire('c03-drop-default-reset', 'C03',
     [(POL, "                    self.rules = Rules(default_rule=self.default_rule)",
       "                    self.rules = Rules()")], 'C03.DEFAULT-SRC')
fire('c03-opt-default', 'C03',
     [(OPTS, "    cfg.StrOpt('policy_default_rule',\n               default='default',",
       "    cfg.StrOpt('policy_default_rule',\n               default='defaults',")], 'C03.DEFAULT-SRC')
fire('c03-alias-keyerror-true', 'C03',
     [(C, "            # We don't have any matching rule; fail closed\n            return False",
       "            # We don't have any matching rule; fail closed\n            return True")], 'C03.RAISE-CATCH')
fire('c03-enforce-no-catch', 'C03',
     [(POL, "            except KeyError:\n                LOG.debug('Rule [%s] does not exist', rule)",
       "            except AttributeError:\n                LOG.debug('Rule [%s] does not exist', rule)")], 'C03.RAISE-CATCH')
fire('c03-rules-getitem', 'C03',
     [(POL, "    def __missing__(self, key):\n        \"\"\"Implements the default rule handling.\"\"\"\n",
       "    def __getitem__(self, key):\n        return dict.get(self, key) or dict.__getitem__(self, self.default_rule)\n\n    def __missing__(self, key):\n        \"\"\"Implements the default rule handling.\"\"\"\n")], 'C03.NO-OVERRIDE')
fire('c03-init-default-from-opt-only', 'C03',
     [(POL, "        self.default_rule = (default_rule or\n                             self.conf.oslo_policy.policy_default_rule)",
       "        self.default_rule = self.conf.oslo_policy.policy_default_rule")], 'C03.DEFAULT-SRC')

silent('c03-no-dict-guard', 'C03',
       [(POL, "        if isinstance(self.default_rule, dict):\n            raise KeyError(key)\n\n", "")])
silent('c03-no-falsy-guard', 'C03',
       [(POL, "        if not self.default_rule:\n            raise KeyError(key)\n\n", "")])
silent('c03-elif-str-else', 'C03',
       [(POL, "        elif isinstance(self.default_rule, str):\n            return self[self.default_rule]",
         "        else:\n            return self[self.default_rule]")])
silent('c03-reorder-guards', 'C03',
       [(POL, """        if isinstance(self.default_rule, dict):
            raise KeyError(key)

        # If the default rule isn't actually defined, do something
        # reasonably intelligent
        if not self.default_rule:
            raise KeyError(key)
""", """        if not self.default_rule:
            raise KeyError(key)

        if isinstance(self.default_rule, dict):
            raise KeyError(key)
""")])

# ------------------------------------------------------------------ C04
fire('c04-no-lower-left', 'C04',
     [(C, "return match.lower() in [x.lower() for x in creds['roles']]",
       "return match in [x.lower() for x in creds['roles']]")], 'C04.MEMBER')
fire('c04-no-lower-right', 'C04',
     [(C, "return match.lower() in [x.lower() for x in creds['roles']]",
       "return match.lower() in [x for x in creds['roles']]")], 'C04.MEMBER')
fire('c04-not-in', 'C04',
     [(C, "return match.lower() in [x.lower() for x in creds['roles']]",
       "return match.lower() not in [x.lower() for x in creds['roles']]")], 'C04.ELSE-FALSE')
fire('c04-handler-true', 'C04',
     [(C, "            # present in Target return false\n            return False\n        if 'roles' in creds:",
       "            # present in Target return false\n            return True\n        if 'roles' in creds:")], 'C04.SUBST')
fire('c04-no-roles-true', 'C04',
     [(C, "            return match.lower() in [x.lower() for x in creds['roles']]\n        return False",
       "            return match.lower() in [x.lower() for x in creds['roles']]\n        return True")], 'C04.ELSE-FALSE')
fire('c04-other-key', 'C04',
     [(C, "        if 'roles' in creds:\n            return match.lower() in [x.lower() for x in creds['roles']]",
       "        if 'role' in creds:\n            return match.lower() in [x.lower() for x in creds['role']]")], 'C04.MEMBER')
fire('c04-guard-mismatch', 'C04',
     [(C, "        if 'roles' in creds:\n            return match.lower()",
       "        if 'role' in creds:\n            return match.lower()")], 'C04.ELSE-FALSE')
fire('c04-startswith', 'C04',
     [(C, "return match.lower() in [x.lower() for x in creds['roles']]",
       "return any(x.lower().startswith(match.lower()) for x in creds['roles'])")], 'C04.MEMBER')
fire('c04-raw-match', 'C04',
     [(C, """        try:
            match = self.match % target
        except KeyError:
            # While doing RoleCheck if key not
            # present in Target return false
            return False
        if 'roles' in creds:""", """        match = self.match
        if 'roles' in creds:""")], 'C04')
silent('c04-casefold', 'C04',
       [(C, "return match.lower() in [x.lower() for x in creds['roles']]",
         "return match.casefold() in [x.casefold() for x in creds['roles']]")])
silent('c04-set', 'C04',
       [(C, "return match.lower() in [x.lower() for x in creds['roles']]",
         "return match.lower() in {x.lower() for x in creds['roles']}")])
silent('c04-get-default', 'C04',
       [(C, "        if 'roles' in creds:\n            return match.lower() in [x.lower() for x in creds['roles']]\n        return False",
         "        return match.lower() in [x.lower() for x in creds.get('roles', [])]")])
silent('c04-any-eq', 'C04',
       [(C, "return match.lower() in [x.lower() for x in creds['roles']]",
         "return any(x.lower() == match.lower() for x in creds['roles'])")])

# ------------------------------------------------------------------ C05
fire('c05-split-2', 'C05',
     [(P, "kind, match = rule.split(':', 1)", "kind, match = rule.split(':', 2)")], 'C05.FALLBACK')
fire('c05-eq-to-in', 'C05',
     [(C, "            return match == str(test_value)\n\n        except (ValueError,",
       "            return match in str(test_value)\n\n        except (ValueError,")], 'C05.LITERAL-FIRST')
fire('c05-base-in', 'C05',
     [(C, "        if len(path_segments) == 0:\n            return match == str(test_value)",
       "        if len(path_segments) == 0:\n            return match in str(test_value)")], 'C05.WALK')
fire('c05-any-to-all', 'C05',
     [(C, """            for val in test_value:
                if self._find_in_dict(val, path_segments, match):
                    return True
            return False""", """            for val in test_value:
                if not self._find_in_dict(val, path_segments, match):
                    return False
            return True""")], 'C05.WALK')
fire('c05-walk-target', 'C05',
     [(C, "return self._find_in_dict(creds, path_segments, match)",
       "return self._find_in_dict(target, path_segments, match)")], 'C05.WALK')
fire('c05-quoted-first-only', 'C05',
     [(P, "if len(clean) >= 2 and ((clean[0], clean[-1]) in",
       "if len(clean) >= 2 and ((clean[0], clean[0]) in")], 'C05.QUOTED')
# F13 reverted: the quoted test on the word before its trailing parentheses
# are peeled
fire('c15-revert-f13', 'C15',
     [(P, """            if len(clean) >= 2 and ((clean[0], clean[-1]) in
                                    [('"', '"'), ("'", "'")]):
                # It's a quoted string
                yield 'string', clean[1:-1]""",
       """            if len(tok) >= 2 and ((tok[0], tok[-1]) in
                                  [('"', '"'), ("'", "'")]):
                # It's a quoted string
                yield 'string', tok[1:-1]""")], 'C15.TOKENS(C05.QUOTED)')
fire('c05-revert-f13', 'C05',
     [(P, """            if len(clean) >= 2 and ((clean[0], clean[-1]) in
                                    [('"', '"'), ("'", "'")]):
                # It's a quoted string
                yield 'string', clean[1:-1]""",
       """            if len(tok) >= 2 and ((tok[0], tok[-1]) in
                                  [('"', '"'), ("'", "'")]):
                # It's a quoted string
                yield 'string', tok[1:-1]""")], 'C05.QUOTED')
fire('c05-missing-attr-true', 'C05',
     [(C, "            test_value = test_value[key]\n        except (KeyError, TypeError):\n            return False",
       "            test_value = test_value[key]\n        except (KeyError, TypeError):\n            return True")], 'C05.DENY')
fire('c05-missing-target-true', 'C05',
     [(C, "            # While doing GenericCheck if key not\n            # present in Target return false\n            return False",
       "            # While doing GenericCheck if key not\n            # present in Target return false\n            return True")], 'C05.DENY')
fire('c05-no-progress', 'C05',
     [(C, "            return self._find_in_dict(test_value, path_segments, match)",
       "            return self._find_in_dict(test_value, path_segments[1:], match)")], 'C05.WALK')
fire('c05-none-first', 'C05',
     [(P, """    if kind in extension_checks:
        return extension_checks[kind](kind, match)
    elif kind in _checks.registered_checks:
        return _checks.registered_checks[kind](kind, match)
    elif None in _checks.registered_checks:
        return _checks.registered_checks[None](kind, match)""",
       """    if None in _checks.registered_checks:
        return _checks.registered_checks[None](kind, match)
    elif kind in extension_checks:
        return extension_checks[kind](kind, match)
    elif kind in _checks.registered_checks:
        return _checks.registered_checks[kind](kind, match)""")], 'C05.FALLBACK')
fire('c05-swapped-ctor-args', 'C05',
     [(P, "        return _checks.registered_checks[None](kind, match)",
       "        return _checks.registered_checks[None](match, kind)")], 'C05.FALLBACK')
fire('c05-split-kind-on-colon', 'C05',
     [(C, "        path_segments = self.kind.split('.')", "        path_segments = self.kind.split('/')")], 'C05.WALK')
fire('c05-raw-match', 'C05',
     [(C, "        path_segments = self.kind.split('.')\n        return self._find_in_dict(creds, path_segments, match)",
       "        path_segments = self.kind.split('.')\n        return self._find_in_dict(creds, path_segments, self.match)")], 'C05.WALK')
silent('c05-startswith-quoted', ['C05', 'C01', 'C02'],
       [(P, """            if len(clean) >= 2 and ((clean[0], clean[-1]) in
                                    [('"', '"'), ("'", "'")]):""",
         """            if len(clean) >= 2 and (
                    (clean.startswith('"') and clean.endswith('"')) or
                    (clean.startswith("'") and clean.endswith("'"))):""")])
silent('c05-not-segments', 'C05',
       [(C, "        if len(path_segments) == 0:\n            return match == str(test_value)",
         "        if not path_segments:\n            return str(test_value) == match")])

# match statements over literals are the if / elif chain they abbreviate
silent('c01-match-constants', ['C01', 'C02', 'C05'],
       [(P, """    if rule == '!':
        return _checks.FalseCheck()
    elif rule == '@':
        return _checks.TrueCheck()
""", """    match rule:
        case '!':
            return _checks.FalseCheck()
        case '@':
            return _checks.TrueCheck()
""")])
fire('c01-match-constants-swapped', 'C01',
     [(P, """    if rule == '!':
        return _checks.FalseCheck()
    elif rule == '@':
        return _checks.TrueCheck()
""", """    match rule:
        case '@':
            return _checks.FalseCheck()
        case '!':
            return _checks.TrueCheck()
""")], 'C01.CONST')

# ------------------------------------------------------------------ C06
fire('c06-alias-current-rule', 'C06',
     [(C, "                enforcer=enforcer,\n                current_rule=current_rule,\n            )\n        except KeyError:",
       "                enforcer=enforcer,\n                current_rule=self.match,\n            )\n        except KeyError:")], 'C06.PASS-THROUGH')
fire('c06-swap-target-creds', 'C06',
     [(C, "        return not _check(self.rule, target, cred, enforcer, current_rule)",
       "        return not _check(self.rule, cred, target, enforcer, current_rule)")], 'C06.PASS-THROUGH')
fire('c06-adapter-gt5', 'C06',
     [(C, "    if len(argspec.args) > 4:", "    if len(argspec.args) > 5:")], 'C06.ADAPTER')
fire('c06-adapter-order', 'C06',
     [(C, "    rule_args = [target, creds, enforcer]", "    rule_args = [creds, target, enforcer]")], 'C06.ADAPTER')
fire('c06-adapter-always3', 'C06',
     [(C, "    if len(argspec.args) > 4:\n        rule_args.append(current_rule)\n", "")], 'C06.ADAPTER')
fire('c06-entry-none-name', 'C06',
     [(POL, "                    enforcer=self,\n                    current_rule=rule,\n                )",
       "                    enforcer=self,\n                    current_rule=None,\n                )")], 'C06.ENTRY')
fire('c06-parse-time-resolve', 'C06',
     [(C, """@register('rule')
class RuleCheck(Check):
    def __call__(self, target, creds, enforcer, current_rule=None):
        try:
            return _check(
                rule=enforcer.rules[self.match],""", """@register('rule')
class RuleCheck(Check):
    def __call__(self, target, creds, enforcer, current_rule=None):
        try:
            if not hasattr(self, '_resolved'):
                self._resolved = enforcer.rules[self.match]
            return _check(
                rule=self._resolved,""")], 'C06.LATE-LOOKUP')
fire('c06-alias-no-catch', 'C06',
     [(C, "        except KeyError:\n            # We don't have any matching rule; fail closed",
       "        except ValueError:\n            # We don't have any matching rule; fail closed")], 'C06.UNDEFINED')
silent('c06-positional-style', ['C06', 'C03', 'C14'],
       [(C, """            return _check(
                rule=enforcer.rules[self.match],
                target=target,
                creds=creds,
                enforcer=enforcer,
                current_rule=current_rule,
            )""", """            return _check(enforcer.rules[self.match], target, creds,
                          enforcer, current_rule)""")])
silent('c06-adapter-ge5', 'C06',
       [(C, "    if len(argspec.args) > 4:", "    if len(argspec.args) >= 5:")])

# ------------------------------------------------------------------ C07
fire('c07-authorize-default', 'C07',
     [(POL, "    def authorize(self, rule, target, creds, do_raise=False,",
       "    def authorize(self, rule, target, creds, do_raise=True,")], 'C07.AUTHORIZE')
fire('c07-gate-polarity', 'C07',
     [(POL, "        if do_raise and not result:", "        if do_raise and result:")], 'C07')
fire('c07-early-return-no-rules', 'C07',
     [(POL, "            # No rules to reference means we're going to fail closed\n            result = False",
       "            # No rules to reference means we're going to fail closed\n            return False")], 'C07.EXIT')
fire('c07-debug-creds-raise', 'C07',
     [(POL, "            except Exception as e:\n                creds_msg =", "            except TypeError as e:\n                creds_msg =")], 'C07.DEBUG')
fire('c07-debug-target-raise', 'C07',
     [(POL, "            except Exception as e:\n                target_msg =", "            except ValueError as e:\n                target_msg =")], 'C07.DEBUG')
fire('c07-exc-args-dropped', 'C07',
     [(POL, "                raise exc(*args, **kwargs)", "                raise exc(*args)")], 'C07.RAISE-ARGS')
fire('c07-default-exc-generic', 'C07',
     [(POL, "            raise PolicyNotAuthorized(rule, target, creds)", "            raise RuntimeError(rule)")], 'C07')
fire('c07-scope-false-under-raise', 'C07',
     [(POL, "                if do_raise:\n                    raise InvalidScope(", "                if do_raise and False:\n                    raise InvalidScope(")], 'C07.EXIT')
fire('c07-authorize-no-check', 'C07',
     [(POL, "        if rule not in self.registered_rules:\n            raise PolicyNotRegistered(rule)\n        return self.enforce(",
       "        return self.enforce(")], 'C07.AUTHORIZE')
fire('c07-authorize-drops-exc', 'C07',
     [(POL, "            rule, target, creds, do_raise, exc, *args, **kwargs)", "            rule, target, creds, do_raise, None, *args, **kwargs)")], 'C07.AUTHORIZE')
fire('c07-authorize-evaluates-first', 'C07',
     [(POL, "        if rule not in self.registered_rules:\n            raise PolicyNotRegistered(rule)\n        return self.enforce(",
       "        self.load_rules()\n        if rule not in self.registered_rules:\n            raise PolicyNotRegistered(rule)\n        return self.enforce(")], 'C07.AUTHORIZE')
fire('c07-debug-mutates', 'C07',
     [(POL, "            try:\n                creds_dict = strutils.mask_dict_password(creds)",
       "            try:\n                creds.pop('password', None)\n                creds_dict = strutils.mask_dict_password(creds)")], 'C07.DEBUG')
fire('c07-raise-without-doraise', 'C07',
     [(POL, "        if do_raise and not result:", "        if not result:")], 'C07.EXIT')
silent('c07-isenabled-variant', ['C07', 'C03', 'C08'],
       [(POL, "        if LOG.isEnabledFor(logging.DEBUG):", "        if LOG.isEnabledFor(10):")])
silent('c07-gate-helper', ['C07'],
       [(POL, """        if do_raise and not result:
            if exc:
                raise exc(*args, **kwargs)

            raise PolicyNotAuthorized(rule, target, creds)

        return result""", """        if not do_raise or result:
            return result
        if exc:
            raise exc(*args, **kwargs)
        raise PolicyNotAuthorized(rule, target, creds)""")])
silent('c07-no-debug-log-call', ['C07'],
       [(POL, """            LOG.debug('enforce: rule=%s creds=%s target=%s',
                      rule.__class__ if isinstance(rule, _checks.BaseCheck)
                      else '"%s"' % rule, creds_msg, target_msg)
""", "")])

# ------------------------------------------------------------------ C08
fire('c08-mismatch-no-deny', 'C08',
     [(POL, "                    if not scope_valid:\n                        return False\n                result = _checks._check(\n                    rule=to_check,",
       "                    if not scope_valid:\n                        pass\n                result = _checks._check(\n                    rule=to_check,")], 'C08.GATE')
fire('c08-obj-mismatch-no-deny', 'C08',
     [(POL, "                if not scope_valid:\n                    return False\n            result = _checks._check(\n                rule=rule,",
       "                if not scope_valid:\n                    pass\n            result = _checks._check(\n                rule=rule,")], 'C08.GATE')
fire('c08-mirror-none', 'C08',
     [(POL, "            creds['system'] = creds.get('system_scope')", "            creds['system'] = None")], 'C08.MIRROR')
fire('c08-mirror-removed', 'C08',
     [(POL, "        if creds.get('system_scope'):\n            creds['system'] = creds.get('system_scope')\n", "")], 'C08.MIRROR')
fire('c08-system-const', 'C08',
     [(POL, "            token_scope = 'system'  # nosec", "            token_scope = 'sytem'  # nosec")], 'C08.TABLE')
fire('c08-domain-const', 'C08',
     [(POL, "            token_scope = 'domain'  # nosec", "            token_scope = 'project'  # nosec")], 'C08.TABLE')
fire('c08-enforce-flag-ignored', 'C08',
     [(POL, "            if self.conf.oslo_policy.enforce_scope:\n                if do_raise:", "            if not self.conf.oslo_policy.enforce_scope:\n                if do_raise:")], 'C08.TABLE')
fire('c08-opt-default', 'C08',
     [(OPTS, "    cfg.BoolOpt('enforce_scope',\n                default=True,", "    cfg.BoolOpt('enforce_scope',\n                default=False,")], 'C08.OPT')
fire('c08-domain-before-system', 'C08',
     [(POL, """        if creds.get('system'):
            token_scope = 'system'  # nosec
        elif creds.get('domain_id'):
            token_scope = 'domain'  # nosec""", """        if creds.get('domain_id'):
            token_scope = 'domain'  # nosec
        elif creds.get('system'):
            token_scope = 'system'  # nosec""")], 'C08.TABLE')
fire('c08-scope-from-file-rule', 'C08',
     [(POL, "                registered_rule = self.registered_rules.get(rule)\n                if registered_rule and registered_rule.scope_types:",
       "                registered_rule = self.file_rules.get(rule)\n                if registered_rule and registered_rule.scope_types:")], 'C08.GATE')
fire('c08-gate-after-check', 'C08',
     [(POL, """                registered_rule = self.registered_rules.get(rule)
                if registered_rule and registered_rule.scope_types:
                    scope_valid = self._enforce_scope(creds, registered_rule,
                                                      do_raise=do_raise)
                    if not scope_valid:
                        return False
                result = _checks._check(
                    rule=to_check,
                    target=target,
                    creds=creds,
                    enforcer=self,
                    current_rule=rule,
                )""", """                result = _checks._check(
                    rule=to_check,
                    target=target,
                    creds=creds,
                    enforcer=self,
                    current_rule=rule,
                )
                registered_rule = self.registered_rules.get(rule)
                if registered_rule and registered_rule.scope_types and not result:
                    scope_valid = self._enforce_scope(creds, registered_rule,
                                                      do_raise=do_raise)
                    if not scope_valid:
                        return False""")], 'C08.GATE')
fire('c08-gate-no-doraise', 'C08',
     [(POL, "                    scope_valid = self._enforce_scope(creds, registered_rule,\n                                                      do_raise=do_raise)",
       "                    scope_valid = self._enforce_scope(creds, registered_rule,\n                                                      do_raise=False)")], 'C08')
fire('c08-false-when-match', 'C08',
     [(POL, "        result = True\n        if token_scope not in rule.scope_types:", "        result = False\n        if token_scope not in rule.scope_types:")], 'C08.TABLE')
fire('c08-mapper-drops', 'C08',
     [(POL, "        for k, v in context_values.items():\n            creds[k] = v", "        for k, v in context_values.items():\n            if k != 'system_scope':\n                creds[k] = v")], 'C08.CREDS')
silent('c08-doraise-default', ['C08', 'C07'],
       [(POL, "    def _enforce_scope(self, creds, rule, do_raise=True):", "    def _enforce_scope(self, creds, rule, do_raise=False):")])
silent('c08-dict-comp-mapper', ['C08'],
       [(POL, """        creds = {}
        # port public context attributes into the creds dictionary so long as
        # the attribute isn't callable
        context_values = context.to_policy_values()
        for k, v in context_values.items():
            creds[k] = v

        return creds""", """        context_values = context.to_policy_values()
        return {k: v for k, v in context_values.items()}""")])
silent('c08-early-return-chain', ['C08', 'C07'],
       [(POL, """        result = True
        if token_scope not in rule.scope_types:
            if self.conf.oslo_policy.enforce_scope:
                if do_raise:
                    raise InvalidScope(
                        rule, rule.scope_types, token_scope
                    )
                else:
                    result = False""", """        result = True
        if token_scope in rule.scope_types:
            return True
        if True:
            if self.conf.oslo_policy.enforce_scope:
                if do_raise:
                    raise InvalidScope(
                        rule, rule.scope_types, token_scope
                    )
                else:
                    result = False""")])

# ------------------------------------------------------------------ C09
fire('c09-pick-ignore-fallback', 'C09',
     [(POL, "    if ((conf.oslo_policy.policy_file == new_default_policy_file) and\n            fallback_to_json_file):",
       "    if ((conf.oslo_policy.policy_file == new_default_policy_file) or\n            fallback_to_json_file):")], 'C09.PICK')
fire('c09-pick-location', 'C09',
     [(POL, "        elif location in [cfg.Locations.opt_default,\n                          cfg.Locations.set_default]:",
       "        elif location not in [cfg.Locations.opt_default,\n                          cfg.Locations.set_default]:")], 'C09.PICK')
fire('c09-pick-location-user', 'C09',
     [(POL, "        elif location in [cfg.Locations.opt_default,\n                          cfg.Locations.set_default]:",
       "        elif location in [cfg.Locations.opt_default,\n                          cfg.Locations.set_default,\n                          cfg.Locations.user]:")], 'C09.PICK')
fire('c09-pick-json-when-yaml-exists', 'C09',
     [(POL, "        if conf.find_file(conf.oslo_policy.policy_file):\n            policy_file = conf.oslo_policy.policy_file\n        elif location in",
       "        if False:\n            policy_file = conf.oslo_policy.policy_file\n        elif location in")], 'C09.PICK')
fire('c09-init-ignores-arg', 'C09',
     [(POL, "        self.policy_file = policy_file or pick_default_policy_file(\n            self.conf, fallback_to_json_file=fallback_to_json_file)",
       "        self.policy_file = pick_default_policy_file(\n            self.conf, fallback_to_json_file=fallback_to_json_file)")], 'C09.FILE-SRC')
fire('c09-init-fallback-const', 'C09',
     [(POL, "            self.conf, fallback_to_json_file=fallback_to_json_file)", "            self.conf, fallback_to_json_file=False)")], 'C09.FILE-SRC')
fire('c09-dotfiles', 'C09',
     [(POL, "        for policy_file in [p for p in policy_files if not p.startswith('.')]:", "        for policy_file in [p for p in policy_files]:")], 'C09.WALK')
fire('c09-no-sort', 'C09',
     [(POL, "        policy_files.sort()\n", "")], 'C09.WALK')
fire('c09-sort-reverse', 'C09',
     [(POL, "        policy_files.sort()\n", "        policy_files.sort(reverse=True)\n")], 'C09.WALK')
fire('c09-walk-subdirs', 'C09',
     [(POL, "        policy_files = next(os.walk(path))[2]", "        policy_files = [os.path.join(d, f) for d, _, fs in os.walk(path) for f in fs]")], 'C09.WALK')
fire('c09-dir-overwrite', 'C09',
     [(POL, "                        path, self._load_policy_file, True, False)", "                        path, self._load_policy_file, True, True)")], 'C09.MODES')
fire('c09-defaults-first', 'C09',
     [(POL, """                if default.name in self.rules:
                    continue

                check = default.check""", """                check = default.check""")], 'C09.ORDER')
fire('c09-dirs-reversed', 'C09',
     [(POL, "                for path in existing_policy_dirs:\n                    self._walk_through_policy_directory(", "                for path in reversed(existing_policy_dirs):\n                    self._walk_through_policy_directory(")], 'C09.DIR-ORDER')
fire('c09-missing-dir-raises', 'C09',
     [(POL, "                except cfg.ConfigFilesNotFoundError:\n                    continue", "                except cfg.ConfigFilesNotFoundError:\n                    raise")], 'C09.SKIP')
fire('c09-opt-policy-file', 'C09',
     [(OPTS, "    cfg.StrOpt('policy_file',\n               default='policy.yaml',", "    cfg.StrOpt('policy_file',\n               default='policy.yml',")], 'C09')
fire('c09-set-rules-update-reversed', 'C09',
     [(POL, "        else:\n            self.rules.update(rules)", "        else:\n            rules.update(self.rules)\n            self.rules = rules")], 'C09.MODES')
fire('c09-yaml-error-swallowed', 'C09',
     [(POL, "            raise ValueError(str(e))\n    return parsed or {}", "            parsed = None\n    return parsed or {}")], 'C09.PARSE')
fire('c09-main-after-dirs', 'C09',
     [(POL, """                for path in existing_policy_dirs:
                    self._walk_through_policy_directory(
                        path, self._load_policy_file, True, False)
""", """                for path in existing_policy_dirs:
                    self._walk_through_policy_directory(
                        path, self._load_policy_file, True, False)
                if self.policy_path:
                    self._load_policy_file(self.policy_path, True,
                                           overwrite=False)
""")], 'C09.ORDER')
silent('c09-sorted-call', 'C09',
       [(POL, "        policy_files = next(os.walk(path))[2]\n        policy_files.sort()\n", "        policy_files = sorted(next(os.walk(path))[2])\n")])
silent('c09-no-debug-logs', 'C09',
       [(POL, "            LOG.debug('Searching old policy.json file.')\n", "")])
silent('c09-changed-init-false', ['C09', 'C10'],
       [(POL, "        policy_file_rules_changed = False\n\n        if self.use_conf:", "        policy_file_rules_changed = None\n\n        if self.use_conf:")])

# ------------------------------------------------------------------ C10
fire('c10-revert-f3', 'C10',
     [(POL, """    if not data:
        # NOTE: a policy file that is empty or has disappeared (the file
        # cache hands out an empty mapping in that case) defines no rules.
        return {}
""", "")], 'C10.TYPE-AGREE')
fire('c10-reset-only-rules', 'C10',
     [(POL, "                    self.rules = Rules(default_rule=self.default_rule)\n                    self.file_rules = {}",
       "                    self.rules = Rules(default_rule=self.default_rule)")], 'C10.RESET')
fire('c10-reset-only-file', 'C10',
     [(POL, "                    self.rules = Rules(default_rule=self.default_rule)\n                    self.file_rules = {}",
       "                    self.file_rules = {}")], 'C10.RESET')
fire('c10-elif-false', 'C10',
     [(POL, "                elif self.overwrite:\n                    self.rules = Rules(", "                elif False:\n                    self.rules = Rules(")], 'C10.RESET')
fire('c10-no-main-reload', 'C10',
     [(POL, "                    if not policy_file_rules_changed and self.overwrite:", "                    if False:")], 'C10.RESET')
fire('c10-record-no-reset', 'C10',
     [(POL, "        if overwrite:\n            self.file_rules = {}\n        parsed_file", "        parsed_file")], 'C10.PAIR')
fire('c10-record-other-mode', 'C10',
     [(POL, "            self._record_file_rules(data, overwrite)", "            self._record_file_rules(data)")], 'C10.PAIR')
fire('c10-dir-mtime-no-self', 'C10',
     [(POL, "            files = [path] + [os.path.join(path, file) for file in\n                              os.listdir(path)]",
       "            files = [os.path.join(path, file) for file in\n                     os.listdir(path)] or [path]")], 'C10.DIR-MTIME')
fire('c10-defaults-only-on-change', 'C10',
     [(POL, "            for default in self.registered_rules.values():\n                if default.deprecated_for_removal:",
       "            for default in (self.registered_rules.values()\n                            if force_reload_policy_dirs else []):\n                if default.deprecated_for_removal:")], 'C10.DEFAULTS')
fire('c10-enforce-no-load', 'C10',
     [(POL, "        self.load_rules()\n\n        if isinstance(creds, context.RequestContext):", "        if not self.rules:\n            self.load_rules()\n\n        if isinstance(creds, context.RequestContext):")], 'C10.LOAD-FIRST')
fire('c10-cache-ge', 'C10',
     [(CH, "    if not cache_info or mtime > cache_info.get('mtime', 0):", "    if not cache_info or mtime < cache_info.get('mtime', 0):")], 'C10.STALE')
fire('c10-force-no-delete', 'C10',
     [(CH, "    if force_reload:\n        delete_cached_file(cache, filename)\n", "")], 'C10.STALE')
fire('c10-reapply-ignores-main-change', 'C10',
     [(POL, "            if policy_file_rules_changed:\n                force_reload_policy_dirs = True\n", "")], 'C10.REAPPLY')
fire('c10-reapply-ignores-dir-update', 'C10',
     [(POL, "                if self._is_directory_updated(self._policy_dir_mtimes,\n                                              absolute_path):\n                    force_reload_policy_dirs = True",
       "                if self._is_directory_updated(self._policy_dir_mtimes,\n                                              absolute_path):\n                    pass")], 'C10.REAPPLY')
fire('c10-stored-mtime-zero', 'C10',
     [(CH, "        cache_info['mtime'] = mtime\n        reloaded = True", "        cache_info['mtime'] = 0\n        reloaded = True")], 'C10.STALE')
silent('c10-cache-drop-operand', 'C10',
       [(CH, "    if not cache_info or mtime > cache_info.get('mtime', 0):", "    if mtime > cache_info.get('mtime', 0):")])
silent('c10-cache-default-one', 'C10',
       [(CH, "    if not cache_info or mtime > cache_info.get('mtime', 0):", "    if not cache_info or mtime > cache_info.get('mtime', 1):")])
silent('c10-663-drop-overwrite', ['C10', 'C09'],
       [(POL, "                    if not policy_file_rules_changed and self.overwrite:", "                    if not policy_file_rules_changed:")])
silent('c10-663-if-true-variant', ['C10', 'C09'],
       [(POL, "                    if not policy_file_rules_changed and self.overwrite:", "                    if self.overwrite and not policy_file_rules_changed:")])
silent('c10-mtime-init', 'C10',
       [(POL, "        mtime = 0\n        if os.path.exists(path):", "        mtime = -1\n        if os.path.exists(path):")])
silent('c10-rules-changed-init', ['C10'],
       [(POL, "        rules_changed = False\n        reloaded, data", "        rules_changed = bool(0)\n        reloaded, data")])

# ------------------------------------------------------------------ C11
fire('c11-drop-alias-exception', 'C11',
     [(POL, "                file_rule.check != deprecated_rule.check and\n                str(file_rule.check) != 'rule:%s' % default.name and\n",
       "                file_rule.check != deprecated_rule.check and\n")], 'C11.TABLE')
fire('c11-return-old-default', 'C11',
     [(POL, "                return self.file_rules[deprecated_rule.name].check", "                return deprecated_rule.check")], 'C11.TABLE')
fire('c11-or-cond-or', 'C11',
     [(POL, "            not self.conf.oslo_policy.enforce_new_defaults\n            and deprecated_rule.check_str != default.check_str",
       "            not self.conf.oslo_policy.enforce_new_defaults\n            or deprecated_rule.check_str != default.check_str")], 'C11.TABLE')
fire('c11-or-when-flag-on', 'C11',
     [(POL, "            not self.conf.oslo_policy.enforce_new_defaults\n            and deprecated_rule.check_str",
       "            self.conf.oslo_policy.enforce_new_defaults\n            and deprecated_rule.check_str")], 'C11.TABLE')
fire('c11-and-instead-of-or', 'C11',
     [(POL, "            return OrCheck([default.check, deprecated_rule.check])", "            return AndCheck([default.check, deprecated_rule.check])")], 'C11.TABLE')
fire('c11-old-override-ignored', 'C11',
     [(POL, "            deprecated_rule.name != default.name and\n            deprecated_rule.name in self.file_rules\n        ):",
       "            deprecated_rule.name != default.name and\n            deprecated_rule.name not in self.file_rules\n        ):")], 'C11.TABLE')
fire('c11-suppress-flag-influences', 'C11',
     [(POL, "            and deprecated_rule.check_str != default.check_str\n            and default.name not in self.file_rules\n        ):",
       "            and deprecated_rule.check_str != default.check_str\n            and default.name not in self.file_rules\n            and not self.suppress_default_change_warnings\n        ):")], 'C11.TABLE')
fire('c11-handler-not-used', 'C11',
     [(POL, "                if default.deprecated_rule:\n                    check = self._handle_deprecated_rule(default)\n", "")], 'C11.GATE')
fire('c11-opt-default', 'C11',
     [(OPTS, "    cfg.BoolOpt('enforce_new_defaults',\n                default=True,", "    cfg.BoolOpt('enforce_new_defaults',\n                default=False,")], 'C11.OPT')
fire('c11-or-only-old', 'C11',
     [(POL, "            return OrCheck([default.check, deprecated_rule.check])", "            return OrCheck([deprecated_rule.check])")], 'C11.TABLE')
silent('c11-drop-name-ne', 'C11',
       [(POL, "            deprecated_rule.name != default.name and\n            deprecated_rule.name in self.file_rules\n        ):", "            deprecated_rule.name in self.file_rules\n        ):")])
silent('c11-drop-same-obj', 'C11',
       [(POL, "                file_rule.check != deprecated_rule.check and\n                str(file_rule.check)", "                str(file_rule.check)")])
silent('c11-drop-new-not-in-file-1', 'C11',
       [(POL, "                str(file_rule.check) != 'rule:%s' % default.name and\n                default.name not in self.file_rules.keys()\n            ):",
         "                str(file_rule.check) != 'rule:%s' % default.name\n            ):")])
silent('c11-drop-new-not-in-file-2', 'C11',
       [(POL, "            and deprecated_rule.check_str != default.check_str\n            and default.name not in self.file_rules\n        ):", "            and deprecated_rule.check_str != default.check_str\n        ):")])
silent('c11-drop-check-str-ne', 'C11',
       [(POL, "            not self.conf.oslo_policy.enforce_new_defaults\n            and deprecated_rule.check_str != default.check_str\n            and", "            not self.conf.oslo_policy.enforce_new_defaults\n            and")])
silent('c11-no-warnings', 'C11',
       [(POL, "            if not (\n                self.suppress_deprecation_warnings\n                or self.suppress_default_change_warnings\n            ):\n                warnings.warn(deprecated_msg)\n", "")])

# ------------------------------------------------------------------ C12
fire('c12-no-deepcopy', 'C12',
     [(POL, "        self.registered_rules[default.name] = copy.deepcopy(default)", "        self.registered_rules[default.name] = default")], 'C12.COPY-IN')
fire('c12-shallow-copy', 'C12',
     [(POL, "        self.registered_rules[default.name] = copy.deepcopy(default)", "        self.registered_rules[default.name] = copy.copy(default)")], 'C12.COPY-IN')
fire('c12-ruledefault-no-copy', 'C12',
     [(POL, "        self._deprecated_rule = copy.deepcopy(deprecated_rule) or []", "        self._deprecated_rule = deprecated_rule or []")], 'C12.COPY-IN')
# (a new combinator over a new list, extended right there, is still new)
silent('c12-add-check-in-handler', ['C12', 'C11'],
       [(POL, "            return OrCheck([default.check, deprecated_rule.check])", "            return OrCheck([default.check]).add_check(deprecated_rule.check)")])
fire('c12-add-check-to-registered-tree', 'C12',
     [(POL, "            return OrCheck([default.check, deprecated_rule.check])",
       "            merged = default.check if isinstance(default.check, OrCheck) else OrCheck([default.check])\n            return merged.add_check(deprecated_rule.check)")], 'C12.MUTATORS')
fire('c12-grow-default-check', 'C12',
     [(POL, "            return OrCheck([default.check, deprecated_rule.check])",
       "            if isinstance(default.check, OrCheck):\n                default.check.rules.append(deprecated_rule.check)\n                return default.check\n            return OrCheck([default.check, deprecated_rule.check])")], 'C12')
fire('c12-store-back', 'C12',
     [(POL, "            return OrCheck([default.check, deprecated_rule.check])",
       "            default._check = OrCheck([default.check, deprecated_rule.check])\n            return default.check")], 'C12.NO-WRITE')
fire('c12-store-back-in-load', 'C12',
     [(POL, "                if default.deprecated_rule:\n                    check = self._handle_deprecated_rule(default)\n",
       "                if default.deprecated_rule:\n                    check = self._handle_deprecated_rule(default)\n                    default._check = check\n")], 'C12.NO-WRITE')
fire('c12-module-cache', 'C12',
     [(POL, "    def _handle_deprecated_rule(self, default):\n", "    def _handle_deprecated_rule(self, default):\n        _MERGED.setdefault(default.name, default)\n"),
      (POL, "LOG = logging.getLogger(__name__)\n", "LOG = logging.getLogger(__name__)\n_MERGED = {}\n")], 'C12')
fire('c12-mutate-scope-types', 'C12',
     [(POL, "                registered_rule = self.registered_rules.get(rule)\n", "                registered_rule = self.registered_rules.get(rule)\n                if registered_rule and not registered_rule.scope_types:\n                    registered_rule.scope_types = ['project']\n")], 'C12.NO-WRITE')
silent('c12-from-copy-import', 'C12',
       [(POL, "        self.registered_rules[default.name] = copy.deepcopy(default)", "        default_copy = copy.deepcopy(default)\n        self.registered_rules[default.name] = copy.deepcopy(default)")])
silent('c12-local-alias', ['C12', 'C11'],
       [(POL, "                check = default.check\n                if default.deprecated_rule:", "                reg = default\n                check = reg.check\n                if default.deprecated_rule:")])

# memo / once-only state in the default merge
silent('c12-warn-once', ['C10', 'C11', 'C12'],
       [(POL, '            if not (\n                self.suppress_deprecation_warnings\n                or self.suppress_default_change_warnings\n            ):\n                warnings.warn(deprecated_msg)\n\n            return OrCheck([default.check, deprecated_rule.check])', '            if default.name not in self._default_change_reported:\n                self._default_change_reported.add(default.name)\n                if not (\n                    self.suppress_deprecation_warnings\n                    or self.suppress_default_change_warnings\n                ):\n                    warnings.warn(deprecated_msg)\n\n            return OrCheck([default.check, deprecated_rule.check])'), (POL, '        self._policy_dir_mtimes = {}\n        self._file_cache = {}\n', '        self._policy_dir_mtimes = {}\n        self._file_cache = {}\n        self._default_change_reported = set()\n        self._deprecated_checks = {}\n')])
fire('c12-warn-once-result', 'C12',
     [(POL, '            if not (\n                self.suppress_deprecation_warnings\n                or self.suppress_default_change_warnings\n            ):\n                warnings.warn(deprecated_msg)\n\n            return OrCheck([default.check, deprecated_rule.check])', '            if default.name not in self._default_change_reported:\n                self._default_change_reported.add(default.name)\n                if not (\n                    self.suppress_deprecation_warnings\n                    or self.suppress_default_change_warnings\n                ):\n                    warnings.warn(deprecated_msg)\n\n                return OrCheck([default.check, deprecated_rule.check])'), (POL, '        self._policy_dir_mtimes = {}\n        self._file_cache = {}\n', '        self._policy_dir_mtimes = {}\n        self._file_cache = {}\n        self._default_change_reported = set()\n        self._deprecated_checks = {}\n')], 'C12.ONCE(MEMO)')
fire('c10-memo-handler', 'C10',
     [(POL, '                    check = self._handle_deprecated_rule(default)\n', '                    check = self._deprecated_checks.get(default.name)\n                    if check is None:\n                        check = self._handle_deprecated_rule(default)\n                        self._deprecated_checks[default.name] = check\n'), (POL, '        self._policy_dir_mtimes = {}\n        self._file_cache = {}\n', '        self._policy_dir_mtimes = {}\n        self._file_cache = {}\n        self._default_change_reported = set()\n        self._deprecated_checks = {}\n')], 'C10.DEFAULTS(MEMO)')
fire('c11-record-old-wins', 'C11',
     [(POL, '        if overwrite:\n            self.file_rules = {}\n        parsed_file = parse_file_contents(data)\n', '        parsed_file = parse_file_contents(data)\n        loaded = {n: RuleDefault(n, c) for n, c in parsed_file.items()}\n        if overwrite:\n            self.file_rules = {}\n        self.file_rules = {**loaded, **self.file_rules}\n')], 'C11.RECORD')
silent('c11-record-new-wins', ['C10', 'C11', 'C12'],
       [(POL, '        if overwrite:\n            self.file_rules = {}\n        parsed_file = parse_file_contents(data)\n', '        parsed_file = parse_file_contents(data)\n        loaded = {n: RuleDefault(n, c) for n, c in parsed_file.items()}\n        if overwrite:\n            self.file_rules = {}\n        self.file_rules = {**self.file_rules, **loaded}\n')])
fire('c11-record-setdefault', 'C11',
     [(POL, "            self.file_rules[name] = file_rule\n", "            self.file_rules.setdefault(name, file_rule)\n")], 'C11.RECORD')
fire('c09-lookup-returns-unfound', 'C09',
     [(POL, "        raise cfg.ConfigFilesNotFoundError((path,))\n\n    def enforce(", "        return path\n\n    def enforce(")], 'C09.SKIP')
fire('c01-hasattr-add-check', 'C01',
     [(P, "        if isinstance(check1, _checks.AndCheck):\n", "        if hasattr(check1, 'add_check'):\n")], 'C01')
silent('c01-hasattr-pop-check', ['C01', 'C02'],
       [(P, "        if isinstance(check1, _checks.AndCheck):\n", "        if hasattr(check1, 'add_check') and isinstance(check1, _checks.AndCheck):\n")])

fire('c19-no-system-mirror', 'C19',
     [(SH, "        access_data['system'] = access_data['system_scope']\n", "")], 'C19.CREDS')
fire('c19-is-admin-dropped', 'C19',
     [(SH, "    access_data['is_admin'] = is_admin\n", "    access_data['is_admin'] = False\n")], 'C19.CREDS')
fire('c19-eval-guard-narrowed', 'C19',
     [(SH, "    except Exception as e:\n        print(e)", "    except (KeyError, ValueError) as e:\n        print(e)")], 'C19.EVERY')
fire('c18-upgrade-alias-moved', 'C18',
     [(GEN, "                if _is_alias_of(old_value, rule_default.name):\n", "                if False:\n")], 'C18.UPGRADE')
# ------------------------------------------------------------------ C20
fire('c20-clear-then-update', 'C20',
     [(POL, "        if overwrite:\n            self.rules = Rules(rules, self.default_rule)\n        else:",
       "        if overwrite:\n            self.rules.clear()\n            self.rules.update(rules)\n        else:")], 'C20.PUBLISH')
fire('c20-extra-write-site', 'C20',
     [(POL, "            if self.policy_path:\n                # If the policy file rules have changed any policy.d rules",
       "            if self.policy_path and force_reload:\n                self.rules.clear()\n            if self.policy_path:\n                # If the policy file rules have changed any policy.d rules")], 'C20.PUBLISH')
fire('c20-file-rules-pop', 'C20',
     [(POL, "            file_rule = RuleDefault(name, check_str)\n            self.file_rules[name] = file_rule",
       "            file_rule = RuleDefault(name, check_str)\n            self.file_rules.pop(name, None)\n            self.file_rules[name] = file_rule")], 'C20.PUBLISH')
silent('c20-comment-only', 'C20',
       [(POL, "        self.use_conf = use_conf\n        self._need_check_rule = True\n        if overwrite:", "        self.use_conf = use_conf\n        # rebuild\n        self._need_check_rule = True\n        if overwrite:")])

# ------------------------------------------------------------------ C13
fire('c13-revert-f4-undef', 'C13',
     [(POL, "        # A NotCheck wraps a single rule.\n        if isinstance(check, NotCheck):\n            return self._undefined_check(check.rule)\n\n", "")], 'C13.EXHAUSTIVE')
fire('c13-revert-f4-cycle', 'C13',
     [(POL, "        # A NotCheck wraps a single rule.\n        if isinstance(check, NotCheck):\n            return self._cycle_check(check.rule, seen)\n\n", "")], 'C13.EXHAUSTIVE')
fire('c13-undef-no-children', 'C13',
     [(POL, "        rules = getattr(check, 'rules', None)\n        if rules:\n            for rule in rules:\n                if self._undefined_check(rule):\n                    return True\n        return False",
       "        return False")], 'C13.EXHAUSTIVE')
fire('c13-undef-if-false', 'C13',
     [(POL, "        rules = getattr(check, 'rules', None)\n        if rules:\n            for rule in rules:\n                if self._undefined_check(rule):",
       "        rules = getattr(check, 'rules', None)\n        if not rules:\n            for rule in rules:\n                if self._undefined_check(rule):")], 'C13')
fire('c13-undef-fold-negated', 'C13',
     [(POL, "            for rule in rules:\n                if self._undefined_check(rule):\n                    return True\n        return False",
       "            for rule in rules:\n                if self._undefined_check(rule):\n                    return False\n        return False")], 'C13.FOLD')
fire('c13-shared-seen', 'C13',
     [(POL, "                if self._cycle_check(rule, seen.copy()):", "                if self._cycle_check(rule, seen):")], 'C13.CYCLE')
fire('c13-no-mark', 'C13',
     [(POL, "            seen.add(check.match)\n", "")], 'C13.CYCLE')
fire('c13-revisit-false', 'C13',
     [(POL, "            if check.match in seen:\n                # Cycle found\n                return True", "            if check.match in seen:\n                # Cycle found\n                return False")], 'C13.CYCLE')
fire('c13-undef-test-inverted', 'C13',
     [(POL, "            if check.match not in self.rules:\n                # Undefined rule\n                return True", "            if check.match in self.rules:\n                # Undefined rule\n                return True")], 'C13.UNDEF')
fire('c13-aggregate-always-true', 'C13',
     [(POL, "        return not violation", "        return True")], 'C13.AGGREGATE')
fire('c13-skip-cycle-too', 'C13',
     [(POL, "            if self._cycle_check(check):\n                cyclic_checks.append(name)", "            if not self.skip_undefined_check and self._cycle_check(check):\n                cyclic_checks.append(name)")], 'C13.AGGREGATE')
fire('c13-validator-literal-bang', 'C13',
     [(GEN, "        if str(enforcer.rules[name]) == '!' and unparsed_policies[name] != '!':", "        if str(enforcer.rules[name]) == '!':")], 'C13.VALIDATOR')
fire('c13-validator-no-status', 'C13',
     [(GEN, "        print('Invalid rules found')\n        return_code = 1", "        print('Invalid rules found')")], 'C13.VALIDATOR')
fire('c13-validator-unknown-ok', 'C13',
     [(GEN, "            print('Unknown rule found in policy file:', name)\n            return_code = 1", "            print('Unknown rule found in policy file:', name)")], 'C13.VALIDATOR')
silent('c13-generic-child-discovery', 'C13',
       [(POL, """        # A NotCheck wraps a single rule.
        if isinstance(check, NotCheck):
            return self._undefined_check(check.rule)

        # An AndCheck or OrCheck is composed of multiple rules so check
        # each of those.
        rules = getattr(check, 'rules', None)
        if rules:
            for rule in rules:
                if self._undefined_check(rule):
                    return True
        return False""", """        child = getattr(check, 'rule', None)
        if child is not None:
            if self._undefined_check(child):
                return True
        rules = getattr(check, 'rules', None)
        if rules:
            for rule in rules:
                if self._undefined_check(rule):
                    return True
        return False""")])

# ------------------------------------------------------------------ C14
fire('c14-revert-f5-literal', 'C14',
     [(C, "        except (ValueError, TypeError, SyntaxError, MemoryError,\n                RecursionError, OverflowError):\n            pass", "        except ValueError:\n            pass")], 'C14.COVER')
fire('c14-revert-f10', 'C14',
     [(C, "                RecursionError, OverflowError):\n            pass", "                RecursionError):\n            pass")], 'C14.COVER')
fire('c14-revert-f5-walk', 'C14',
     [(C, "        except (KeyError, TypeError):\n            return False", "        except KeyError:\n            return False")], 'C14.COVER')
fire('c14-no-roles-guard', 'C14',
     [(C, "        if 'roles' in creds:\n            return match.lower() in [x.lower() for x in creds['roles']]\n        return False",
       "        return match.lower() in [x.lower() for x in creds['roles']]")], 'C14.COVER')
fire('c14-rule-lookup-unguarded', 'C14',
     [(C, "        except KeyError:\n            # We don't have any matching rule; fail closed\n            return False",
       "        except AttributeError:\n            # We don't have any matching rule; fail closed\n            return False")], 'C14.COVER')
fire('c14-role-subst-unguarded', 'C14',
     [(C, """        try:
            match = self.match % target
        except KeyError:
            # While doing RoleCheck if key not
            # present in Target return false
            return False
        if 'roles' in creds:""", """        match = self.match % target
        if 'roles' in creds:""")], 'C14.COVER')
fire('c14-new-unguarded-subscript', 'C14',
     [(C, "        path_segments = self.kind.split('.')\n        return self._find_in_dict(creds, path_segments, match)",
       "        path_segments = self.kind.split('.')\n        if creds['is_admin']:\n            return True\n        return self._find_in_dict(creds, path_segments, match)")], 'C14.COVER')
fire('c14-handler-reraises', 'C14',
     [(C, "        except (KeyError, TypeError):\n            return False", "        except (KeyError, TypeError):\n            raise")], 'C14.COVER')
silent('c14-except-exception', 'C14',
       [(C, "        except (KeyError, TypeError):\n            return False", "        except Exception:\n            return False")])
silent('c14-lookup-error', 'C14',
       [(C, "        except KeyError:\n            # We don't have any matching rule; fail closed", "        except LookupError:\n            # We don't have any matching rule; fail closed")])
silent('c14-hoisted-try', 'C14',
       [(C, """        try:
            test_value = test_value[key]
        except (KeyError, TypeError):
            return False
""", """        test_value = test_value[key]
"""), (C, "        path_segments = self.kind.split('.')\n        return self._find_in_dict(creds, path_segments, match)",
       "        path_segments = self.kind.split('.')\n        try:\n            return self._find_in_dict(creds, path_segments, match)\n        except (KeyError, TypeError):\n            return False")])

# ------------------------------------------------------------------ C15
fire('c15-and-no-parens', 'C15',
     [(C, "        return '(%s)' % ' and '.join(str(r) for r in self.rules)", "        return '%s' % ' and '.join(str(r) for r in self.rules)")], 'C15')
fire('c15-or-no-parens', 'C15',
     [(C, "        return '(%s)' % ' or '.join(str(r) for r in self.rules)", "        return ' or '.join(str(r) for r in self.rules)")], 'C15')
fire('c15-not-no-space', 'C15',
     [(C, "        return 'not %s' % self.rule", "        return 'not%s' % self.rule")], 'C15')
fire('c15-amp-joiner', 'C15',
     [(C, "        return '(%s)' % ' and '.join(str(r) for r in self.rules)", "        return '(%s)' % ' & '.join(str(r) for r in self.rules)")], 'C15')
fire('c15-and-prints-or', 'C15',
     [(C, "        return '(%s)' % ' and '.join(str(r) for r in self.rules)", "        return '(%s)' % ' or '.join(str(r) for r in self.rules)")], 'C15.ROUNDTRIP')
fire('c15-split-2', 'C15',
     [(P, "kind, match = rule.split(':', 1)", "kind, match = rule.split(':', 2)")], 'C15.FORMATS')
fire('c15-leaf-swapped', 'C15',
     [(C, "        return '{}:{}'.format(self.kind, self.match)", "        return '{}:{}'.format(self.match, self.kind)")], 'C15.FORMATS')
fire('c15-eq-check-str', 'C15',
     [(POL, "                str(self.check) == str(other.check) and", "                self.check_str == other.check_str and")], 'C15.EQ')
fire('c15-eq-name-dropped', 'C15',
     [(POL, "        if (self.name == other.name and\n                str(self.check)", "        if (True and\n                str(self.check)")], 'C15.EQ')
fire('c15-dump-true-at', 'C15',
     [(POL, "            if isinstance(value, _checks.TrueCheck):\n                out_rules[key] = ''", "            if isinstance(value, _checks.TrueCheck):\n                out_rules[key] = '!'")], 'C15.DUMP')
fire('c15-false-prints-at', 'C15',
     [(C, "        return '!'", "        return '@'")], 'C15')
fire('c15-brackets', 'C15',
     [(C, "        return '(%s)' % ' or '.join(str(r) for r in self.rules)", "        return '[%s]' % ' or '.join(str(r) for r in self.rules)")], 'C15')
silent('c15-fstring', 'C15',
       [(C, "        return 'not %s' % self.rule", "        return f'not {self.rule}'")])
silent('c15-format-call', 'C15',
       [(C, "        return '(%s)' % ' and '.join(str(r) for r in self.rules)", "        return '({})'.format(' and '.join(str(r) for r in self.rules))")])
silent('c15-concat', 'C15',
       [(C, "        return '(%s)' % ' or '.join(str(r) for r in self.rules)", "        return '(' + ' or '.join(str(r) for r in self.rules) + ')'")])
silent('c15-eq-isinstance-drop', 'C15',
       [(POL, """                str(self.check) == str(other.check) and
                (isinstance(self, other.__class__) or
                 isinstance(other, self.__class__))):""", """                str(self.check) == str(other.check) and
                (isinstance(self, other.__class__) or
                 isinstance(other, self.__class__) or False)):""")])

# ------------------------------------------------------------------ C16
fire('c16-lower-true', 'C16',
     [(EXT, """                return r.text.lstrip('"').rstrip('"') == 'True'
        except Timeout:
            raise RuntimeError("Timeout in REST API call")

    @staticmethod""", """                return r.text.lstrip('"').rstrip('"').lower() == 'true'
        except Timeout:
            raise RuntimeError("Timeout in REST API call")

    @staticmethod""")], 'C16.DECIDE')
fire('c16-true-in-text', 'C16',
     [(EXT, """                return r.text.lstrip('"').rstrip('"') == 'True'
        except Timeout:
            raise RuntimeError("Timeout in REST API call")

    @staticmethod""", """                return 'True' in r.text
        except Timeout:
            raise RuntimeError("Timeout in REST API call")

    @staticmethod""")], 'C16.DECIDE')
fire('c16-https-strip-ws', 'C16',
     [(EXT, """                                  timeout=timeout)
            ) as r:
                return r.text.lstrip('"').rstrip('"') == 'True'""", """                                  timeout=timeout)
            ) as r:
                return r.text.strip().lstrip('"').rstrip('"') == 'True'""")], 'C16.DECIDE')
fire('c16-timeout-false', 'C16',
     [(EXT, """        except Timeout:
            raise RuntimeError("Timeout in REST API call")

    @staticmethod""", """        except Timeout:
            return False

    @staticmethod""")], 'C16.NO-ALLOW-ON-ERROR')
fire('c16-timeout-true-https', 'C16',
     [(EXT, """                return r.text.lstrip('"').rstrip('"') == 'True'
        except Timeout:
            raise RuntimeError("Timeout in REST API call")
""", """                return r.text.lstrip('"').rstrip('"') == 'True'
        except Timeout:
            return True
""", 1) if False else (EXT, """                                  timeout=timeout)
            ) as r:
                return r.text.lstrip('"').rstrip('"') == 'True'
        except Timeout:
            raise RuntimeError("Timeout in REST API call")""", """                                  timeout=timeout)
            ) as r:
                return r.text.lstrip('"').rstrip('"') == 'True'
        except Timeout:
            return True""")], 'C16.NO-ALLOW-ON-ERROR')
fire('c16-swapped-rule-target', 'C16',
     [(EXT, "            json = {'rule': current_rule,\n                    'target': temp_target,", "            json = {'rule': temp_target,\n                    'target': current_rule,")], 'C16.PAYLOAD')
fire('c16-target-mutated', 'C16',
     [(EXT, "            if type(element) is object:\n                temp_target[key] = {}", "            if type(element) is object:\n                target[key] = {}")], 'C16.TARGET-RO')
fire('c16-payload-raw-target', 'C16',
     [(EXT, "        temp_target = copy.deepcopy(target)", "        temp_target = target")], 'C16')
fire('c16-url-no-subst', 'C16',
     [(EXT, "        url = ('http:' + self.match) % target", "        url = 'http:' + self.match")], 'C16.URL')
fire('c16-https-as-http', 'C16',
     [(EXT, "        url = ('https:' + self.match) % target", "        url = ('http:' + self.match) % target")], 'C16.URL')
fire('c16-creds-dropped', 'C16',
     [(EXT, "                    'credentials': jsonutils.dumps(creds)}", "                    'credentials': jsonutils.dumps({})}")], 'C16.PAYLOAD')
fire('c16-data-json-swapped', 'C16',
     [(EXT, "                    requests.post(url, json=json, data=data, timeout=timeout)", "                    requests.post(url, json=data, data=json, timeout=timeout)")], 'C16.PAYLOAD')
fire('c16-entry-point', 'C16',
     [('setup.cfg', "    https = oslo_policy._external:HttpsCheck", "    https = oslo_policy._external:HttpCheck")], 'C16')
silent('c16-strip-call', 'C16',
       [(EXT, """                return r.text.lstrip('"').rstrip('"') == 'True'
        except Timeout:
            raise RuntimeError("Timeout in REST API call")

    @staticmethod""", """                return r.text.strip('"') == 'True'
        except Timeout:
            raise RuntimeError("Timeout in REST API call")

    @staticmethod"""), (EXT, """                                  timeout=timeout)
            ) as r:
                return r.text.lstrip('"').rstrip('"') == 'True'""", """                                  timeout=timeout)
            ) as r:
                return r.text.strip('"') == 'True'""")])
silent('c16-no-timeout-handler', 'C16',
       [(EXT, """        try:
            with contextlib.closing(
                    requests.post(url, json=json, data=data, timeout=timeout)
            ) as r:
                return r.text.lstrip('"').rstrip('"') == 'True'
        except Timeout:
            raise RuntimeError("Timeout in REST API call")""", """        with contextlib.closing(
                requests.post(url, json=json, data=data, timeout=timeout)
        ) as r:
            return r.text.lstrip('"').rstrip('"') == 'True'""")])
silent('c16-tls-precheck-removed', 'C16',
       [(EXT, """            if not os.access(cert_file, os.R_OK):
                raise RuntimeError(
                    _("Unable to access ssl cert_file  : %s") % cert_file)
""", "")])

# ------------------------------------------------------------------ C17
fire('c17-subsequent-indent', 'C17',
     [(GEN, "        return textwrap.wrap(' '.join(lines), 70, initial_indent='# ',\n                             subsequent_indent='# ')",
       "        return textwrap.wrap(' '.join(lines), 70, initial_indent='# ',\n                             subsequent_indent='')")], 'C17.SANITIZER')
fire('c17-literal-block-raw', 'C17',
     [(GEN, "            formatted_lines.append('# %s' % line.rstrip())", "            formatted_lines.append('%s' % line.rstrip())")], 'C17.SANITIZER')
fire('c17-raw-reason', 'C17',
     [(GEN, "             'reason': _format_help_text(default.deprecated_reason),\n             'text': text}", "             'reason': default.deprecated_reason,\n             'text': text}")], 'C17.LINES')
fire('c17-comment-rule-default', 'C17',
     [(GEN, "def _format_rule_default_yaml(default, include_help=True, comment_rule=True,", "def _format_rule_default_yaml(default, include_help=True, comment_rule=False,")], 'C17.CONSTS')
fire('c17-include-help-default', 'C17',
     [(GEN, "def _generate_sample(namespaces, output_file=None, output_format='yaml',\n                     include_help=True, exclude_deprecated=False):",
       "def _generate_sample(namespaces, output_file=None, output_format='yaml',\n                     include_help=False, exclude_deprecated=False):")], 'C17.CONSTS')
fire('c17-raw-description', 'C17',
     [(GEN, "            text = _format_help_text(default.description) + '\\n' + text", "            text = '# ' + default.description + '\\n' + text")], 'C17.LINES')
fire('c17-deprecated-text-raw', 'C17',
     [(GEN, "            deprecated_text=_format_help_text(deprecated_text)", "            deprecated_text=deprecated_text")], 'C17.LINES')
fire('c17-alias-line-uncommented', 'C17',
     [(GEN, "            text += ('# \"%(old_name)s\": \"rule:%(name)s\"\\n' %", "            text += ('\"%(old_name)s\": \"rule:%(name)s\"\\n' %")], 'C17.LINES')
fire('c17-op-line-uncommented', 'C17',
     [(GEN, "                    op += ('# %(method)s  %(path)s\\n' %", "                    op += ('%(method)s  %(path)s\\n' %")], 'C17.LINES')
fire('c17-rule-line-name-twice', 'C17',
     [(GEN, "             'check_str': _quote_check_str(default.check_str)})\n\n    if include_help:",
       "             'check_str': _quote_check_str(default.name)})\n\n    if include_help:")], 'C17.RULE-LINE')
fire('c17-sections-uncomment', 'C17',
     [(GEN, "                    include_help=include_help,\n                    add_deprecated_rules=not exclude_deprecated)", "                    include_help=include_help, comment_rule=False,\n                    add_deprecated_rules=not exclude_deprecated)")], 'C17.CONSTS')
fire('c17-sanitizer-returns-empty', 'C17',
     [(GEN, "    if not description:\n        return '#'", "    if not description:\n        return ''")], 'C17.SANITIZER')
fire('c17-json-shape', 'C17',
     [(GEN, "    return ('%(name)s: %(check_str)s' %\n            {'name': jsonutils.dumps(default.name),\n             'check_str': jsonutils.dumps(default.check_str)})", "    return ('%(name)s: %(check_str)s' %\n            {'name': jsonutils.dumps(default.name),\n             'check_str': jsonutils.dumps(default.description)})")], 'C17.JSON')
# F16 reverted: the check string pasted between double quotes
fire('c17-revert-f16', 'C17',
     [(GEN, "    return ('%(name)s: %(check_str)s' %\n            {'name': jsonutils.dumps(default.name),\n             'check_str': jsonutils.dumps(default.check_str)})", "    return ('\"%(name)s\": \"%(check_str)s\"' %\n            {'name': default.name,\n             'check_str': default.check_str})")], 'C17.JSON')
# F15 reverted: the extra rule name pasted between double quotes
fire('c18-revert-f15', 'C18',
     [(GEN, "        rule_text = ('%(name)s: %(check_str)s\\n' %\n                     {'name': _quote_check_str(file_rule),", "        rule_text = ('\"%(name)s\": %(check_str)s\\n' %\n                     {'name': file_rule,")], 'C18.QUOTED-HOLE')
# F18 reverted: the name of a file rule pasted between double quotes by the
# shared YAML formatter (the policy generator hands it the file's entries)
fire('c18-revert-f18', 'C18',
     [(GEN, "    text = ('%(name)s: %(check_str)s\\n' %\n            {'name': _quote_check_str(default.name),", "    text = ('\"%(name)s\": %(check_str)s\\n' %\n            {'name': default.name,")], 'C18.QUOTED-HOLE')
fire('c17-rule-line-check-as-name', 'C17',
     [(GEN, "            {'name': _quote_check_str(default.name),\n             'check_str': _quote_check_str(default.check_str)})\n\n    if include_help:", "            {'name': _quote_check_str(default.check_str),\n             'check_str': _quote_check_str(default.check_str)})\n\n    if include_help:")], 'C17.RULE-LINE')
# the re-spelling helper is read character class by character class
fire('c18-respell-keeps-del', 'C18',
     [(GEN, "        c if ' ' <= c <= '~' else", "        c if c < '\\x80' else")], 'C18.SERIALIZED')
fire('c18-respell-short-escape', 'C18',
     [(GEN, "('\\\\u%04x' if ord(c) < 0x10000 else '\\\\U%08x') % ord(c)", "('\\\\u%04x' if ord(c) < 0x100000 else '\\\\U%08x') % ord(c)")], 'C18.SERIALIZED')
fire('c17-respell-keeps-del', 'C17',
     [(GEN, "        c if ' ' <= c <= '~' else", "        c if c < '\\x80' else")], 'C17.RULE-LINE')
silent('c18-respell-same-class', 'C18',
       [(GEN, "        c if ' ' <= c <= '~' else", "        c if '\\x1f' < c < '\\x7f' else")])
silent('c18-respell-keeps-latin', 'C18',
       [(GEN, "        c if ' ' <= c <= '~' else", "        c if ' ' <= c <= '~' or '\\xa1' <= c <= '\\xff' else")])
# a re-spelling helper that drops what it does not like is not a re-spelling
fire('c18-respell-drops', 'C18',
     [(GEN, "        ('\\\\u%04x' if ord(c) < 0x10000 else '\\\\U%08x') % ord(c)", "        ''")], 'C18.SERIALIZED')
silent('c17-no-warn', 'C17',
       [(GEN, """                warnings.warn(
                    'Invalid policy description: literal blocks must be '
                    'preceded by a new line. This will raise an exception in '
                    'a future version of oslo.policy:\\n%s' % description,
                    FutureWarning)
""", "")])
silent('c17-rstrip-variants', 'C17',
       [(GEN, "            paragraph.append(line.rstrip())", "            paragraph.append(line)")])
silent('c17-wrap-width', 'C17',
       [(GEN, "        return textwrap.wrap(' '.join(lines), 70, initial_indent='# ',", "        return textwrap.wrap(' '.join(lines), 72, initial_indent='# ',")])

# ------------------------------------------------------------------ C18
fire('c18-revert-f6-yaml', 'C18',
     [(GEN, "    text = ('%(name)s: %(check_str)s\\n' %\n            {'name': _quote_check_str(default.name),\n             'check_str': _quote_check_str(default.check_str)})",
       "    text = ('\"%(name)s\": \"%(check_str)s\"\\n' %\n            {'name': default.name,\n             'check_str': default.check_str})")], 'C18.QUOTED-HOLE')
fire('c18-revert-f6-extra', 'C18',
     [(GEN, "        rule_text = ('%(name)s: %(check_str)s\\n' %\n                     {'name': _quote_check_str(file_rule),\n                      'check_str': _quote_check_str(check_str)})",
       "        rule_text = ('%(name)s: \"%(check_str)s\"\\n' %\n                     {'name': _quote_check_str(file_rule),\n                      'check_str': check_str})")], 'C18.QUOTED-HOLE')
fire('c18-revert-f7', 'C18',
     [(GEN, "                policies.pop(rule_default.deprecated_rule.name, None)\n                old_value = old_policies[rule_default.deprecated_rule.name]",
       "                old_value = policies.pop(\n                    rule_default.deprecated_rule.name)")], 'C18.POP-GUARD')
fire('c18-convert-override-commented', 'C18',
     [(GEN, "                rule_text = _format_rule_default_yaml(\n                    file_rule, comment_rule=False,\n                    add_deprecated_rules=False)",
       "                rule_text = _format_rule_default_yaml(\n                    file_rule, comment_rule=True,\n                    add_deprecated_rules=False)")], 'C18.KEEP-OVERRIDE')
fire('c18-convert-eq-inverted', 'C18',
     [(GEN, "            if file_rule == default_rule:\n                rule_text = _format_rule_default_yaml(", "            if file_rule != default_rule:\n                rule_text = _format_rule_default_yaml(")], 'C18.KEEP-OVERRIDE')
fire('c18-redundant-all', 'C18',
     [(GEN, "            if file_rule == reg_rule:\n                print(reg_rule)", "            if file_rule:\n                print(reg_rule)")], 'C18.REDUNDANT')
fire('c18-generator-shadow', 'C18',
     [(GEN, "                        for name, default in enforcer.registered_rules.items()\n                        if name not in enforcer.file_rules]",
       "                        for name, default in enforcer.registered_rules.items()]")], 'C18.MERGE')
fire('c18-generator-commented', 'C18',
     [(GEN, "            policies, include_help=False,\n            exclude_deprecated=exclude_deprecated):", "            policies, include_help=True,\n            exclude_deprecated=exclude_deprecated):")], 'C18.MERGE')
fire('c18-convert-pop-unguarded', 'C18',
     [(GEN, "            if default_rule.name not in file_policies:\n                continue\n", "")], 'C18.POP-GUARD')
fire('c18-upgrade-keeps-old', 'C18',
     [(GEN, "                policies.pop(rule_default.deprecated_rule.name, None)\n", "")], 'C18.UPGRADE')
fire('c18-extra-rules-commented', 'C18',
     [(GEN, "        rule_text = ('%(name)s: %(check_str)s\\n' %\n                     {'name': _quote_check_str(file_rule),", "        rule_text = ('#%(name)s: %(check_str)s\\n' %\n                     {'name': _quote_check_str(file_rule),")], 'C18.KEEP-OVERRIDE')
silent('c18-convert-no-exit-log', 'C18',
       [(GEN, "    if file_policies:\n        yaml_format_rules.append(extra_rules_text)\n", "    yaml_format_rules.append(extra_rules_text)\n")])

# ------------------------------------------------------------------ C19
fire('c19-always-passed', 'C19',
     [(SH, "        if result:\n            print(\"passed: %s\" % key)", "        if True:\n            print(\"passed: %s\" % key)")], 'C19.POLARITY')
fire('c19-no-failed-print', 'C19',
     [(SH, "        else:\n            print(\"failed: %s\" % key)\n    except Exception as e:", "        else:\n            pass\n    except Exception as e:")], 'C19.POLARITY')
fire('c19-swapped-verdicts', 'C19',
     [(SH, "        if result:\n            print(\"passed: %s\" % key)\n        else:\n            print(\"failed: %s\" % key)",
       "        if result:\n            print(\"failed: %s\" % key)\n        else:\n            print(\"passed: %s\" % key)")], 'C19.POLARITY')
fire('c19-fake-no-rules', 'C19',
     [(SH, "        self.rules = rules\n        self.conf = None", "        self.conf = None")], 'C19.DUCK')
fire('c19-fake-no-conf', 'C19',
     [(SH, "        self.rules = rules\n        self.conf = None\n\n        if config:", "        self.rules = rules\n\n        if config:")], 'C19.DUCK')
fire('c19-default-name', 'C19',
     [(SH, "    rules = policy.Rules.load(policy_data, \"default\")", "    rules = policy.Rules.load(policy_data, \"defaults\")")], 'C19.DEFAULT')
fire('c19-no-sort', 'C19',
     [(SH, "    for key, rule in sorted(rules.items()):", "    for key, rule in rules.items():")], 'C19.ITER')
fire('c19-no-colon-filter', 'C19',
     [(SH, "        if \":\" in key:\n            _try_rule(key, rule, target_data, access_data, enforcer)", "        if True:\n            _try_rule(key, rule, target_data, access_data, enforcer)")], 'C19.ITER')
fire('c19-requested-ignored', 'C19',
     [(SH, "    if apply_rule:\n        key = apply_rule", "    if False:\n        key = apply_rule")], 'C19.ITER')
fire('c19-swapped-target-creds', 'C19',
     [(SH, "        result = rule(target, access_data, o, current_rule=key)", "        result = rule(access_data, target, o, current_rule=key)")], 'C19.CALL')
fire('c19-tool-swapped', 'C19',
     [(SH, "        if \":\" in key:\n            _try_rule(key, rule, target_data, access_data, enforcer)", "        if \":\" in key:\n            _try_rule(key, rule, access_data, target_data, enforcer)")], 'C19.CALL')
fire('c19-revert-f8', 'C19',
     [(SH, """        try:
            rule = rules[apply_rule]
        except KeyError:
            # No such rule and no usable default rule: the library denies
            print("failed: %s" % key)
            return
""", """        rule = rules[apply_rule]
""")], 'C19.LOOKUP')
fire('c19-negated-result', 'C19',
     [(SH, "        result = rule(target, access_data, o, current_rule=key)\n        if result:", "        result = rule(target, access_data, o, current_rule=key)\n        if not result:")], 'C19.POLARITY')
silent('c19-format-style', 'C19',
       [(SH, "            print(\"passed: %s\" % key)", "            print(\"passed: {}\".format(key))")])
silent('c19-exception-prints', 'C19',
       [(SH, "        print(e)\n        print(\"exception: %s\" % rule)", "        print(\"exception: %s\" % rule)")])

# ---------------------------------------------------- refactor robustness
silent('refactor-load-rules-wrapper', ['C09', 'C10', 'C11', 'C12', 'C03'],
       [(POL, "    def load_rules(self, force_reload=False):\n        \"\"\"Loads policy_path's rules.",
         "    def load_rules(self, force_reload=False):\n        return self._load_rules(force_reload)\n\n    def _load_rules(self, force_reload=False):\n        \"\"\"Loads policy_path's rules.")])
silent('refactor-extract-default-merge', ['C09', 'C10', 'C11', 'C12'],
       [(POL, """            for default in self.registered_rules.values():
                if default.deprecated_for_removal:
                    self._emit_deprecated_for_removal_warning(default)

                if default.name in self.rules:
                    continue

                check = default.check
                if default.deprecated_rule:
                    check = self._handle_deprecated_rule(default)

                self.rules[default.name] = check
""", """            self._apply_registered_defaults()
"""), (POL, """    def check_rules(self, raise_on_violation=False):
        \"\"\"Look for rule definitions that are obviously incorrect.\"\"\"""",
       """    def _apply_registered_defaults(self):
        for default in self.registered_rules.values():
            if default.deprecated_for_removal:
                self._emit_deprecated_for_removal_warning(default)

            if default.name in self.rules:
                continue

            check = default.check
            if default.deprecated_rule:
                check = self._handle_deprecated_rule(default)

            self.rules[default.name] = check

    def check_rules(self, raise_on_violation=False):
        \"\"\"Look for rule definitions that are obviously incorrect.\"\"\"""")])
silent('refactor-expand-match-helper', ['C04', 'C05', 'C14'],
       [(C, """class Check(BaseCheck):
    def __init__(self, kind, match):
        self.kind = kind
        self.match = match
""", """class Check(BaseCheck):
    def __init__(self, kind, match):
        self.kind = kind
        self.match = match

    def _expand_match(self, target):
        try:
            return self.match % target
        except KeyError:
            return None
"""), (C, """        try:
            match = self.match % target
        except KeyError:
            # While doing RoleCheck if key not
            # present in Target return false
            return False
        if 'roles' in creds:""", """        match = self._expand_match(target)
        if match is None:
            return False
        if 'roles' in creds:"""), (C, """        try:
            match = self.match % target
        except KeyError:
            # While doing GenericCheck if key not
            # present in Target return false
            return False
        try:
            # Try to interpret self.kind as a literal""", """        match = self._expand_match(target)
        if match is None:
            return False
        try:
            # Try to interpret self.kind as a literal""")])

# ------------------------------------------------- rounds 10 / 11: new rules
fire('c15-memoised-parser', 'C15',
     [(P, "def _parse_text_rule(rule):", "@functools.lru_cache(maxsize=None)\ndef _parse_text_rule(rule):"),
      (P, "import logging\n", "import functools\nimport logging\n")], 'C15.FRESH')
fire('c20-cache-stamp-before-data', 'C20',
     [(CH, "            raise cfg.ConfigFilesNotFoundError((filename,))\n        cache_info['mtime'] = mtime\n", "            raise cfg.ConfigFilesNotFoundError((filename,))\n"),
      (CH, "        LOG.debug(\"Reloading cached file %s\", filename)\n", "        LOG.debug(\"Reloading cached file %s\", filename)\n        cache_info['mtime'] = mtime\n")], 'C20.CACHE-ORDER')
fire('c16-option-ignore-case', 'C16',
     [(OPTS, "               default='application/x-www-form-urlencoded',\n", "               default='application/x-www-form-urlencoded',\n               ignore_case=True,\n")], 'C16.PAYLOAD')
fire('c19-roles-lowered', 'C19',
     [(SH, "[role['name'] for role in access_data['roles']]", "[role['name'].lower() for role in access_data['roles']]")], 'C19.CREDS')
fire('c10-removal-default-not-merged', 'C10',
     [(POL, "                    self._emit_deprecated_for_removal_warning(default)\n\n                if default.name in self.rules:\n                    continue\n", "                    self._emit_deprecated_for_removal_warning(default)\n                    continue\n\n                if default.name in self.rules:\n                    continue\n")], 'C10.DEFAULTS')
silent('c19-roles-renamed-loop-var', 'C19',
       [(SH, "[role['name'] for role in access_data['roles']]", "[r['name'] for r in access_data['roles']]")])

# ------------------------------------------------------------------ round 12
fire('c03-no-empty-store-branch', 'C03',
     [(POL, "        elif not self.rules:\n            # No rules to reference means we're going to fail closed\n            result = False\n        else:\n            try:\n                to_check = self.rules[rule]",
       "        else:\n            try:\n                to_check = self.rules[rule]")], 'C03.FAIL-CLOSED')
fire('c18-upgrade-live-guard', 'C18',
     [(GEN, "    old_policies = dict(policies)\n    for section in sorted(default_policies.keys()):", "    for section in sorted(default_policies.keys()):"),
      (GEN, "                    rule_default.deprecated_rule.name in old_policies):", "                    rule_default.deprecated_rule.name in policies):"),
      (GEN, "                policies.pop(rule_default.deprecated_rule.name, None)\n                old_value = old_policies[rule_default.deprecated_rule.name]",
       "                old_value = policies.pop(rule_default.deprecated_rule.name)")], 'C18.UPGRADE')
silent('c18-upgrade-live-test-gates-removal-only', 'C18',
       [(GEN, "                policies.pop(rule_default.deprecated_rule.name, None)\n",
         "                if rule_default.deprecated_rule.name in policies:\n                    del policies[rule_default.deprecated_rule.name]\n")])

"""Variant corpus for the self-test (see selftest.py).

FIRE  = the edit breaks the property; the named check must report it.
SILENT = behaviour-preserving edit; the named checks must stay at exit 0.
"""
P = 'oslo_policy/_parser.py'
C = 'oslo_policy/_checks.py'
POL = 'oslo_policy/policy.py'
GEN = 'oslo_policy/generator.py'
SH = 'oslo_policy/shell.py'
OPTS = 'oslo_policy/opts.py'
CH = 'oslo_policy/_cache_handler.py'
EXT = 'oslo_policy/_external.py'

VARIANTS = []


def fire(id, prop, edits, rule=None):
    VARIANTS.append({'id': id, 'props': [prop], 'expect': 'fire',
                     'edits': edits, 'rule': rule})


def silent(id, props, edits):
    if isinstance(props, str):
        props = [props]
    VARIANTS.append({'id': id, 'props': props, 'expect': 'silent',
                     'edits': edits})


# ------------------------------------------------------------------ C01
fire('c01-retarget-pattern', 'C01',
     [(P, "@reducer('and_expr', 'or', 'check')",
       "@reducer('and_expr', 'and', 'check')")], 'C01.TABLE')
fire('c01-delete-pattern', 'C01',
     [(P, "    @reducer('(', 'and_expr', ')')\n", "")], 'C01.TABLE')
fire('c01-mix-wrong', 'C01',
     [(P, """        or_expr, check1 = or_expr.pop_check()
        if isinstance(check1, _checks.AndCheck):
            and_expr = check1
            and_expr.add_check(check)
        else:
            and_expr = _checks.AndCheck([check1, check])
        return [('or_expr', or_expr.add_check(and_expr))]""",
       """        return [('and_expr', _checks.AndCheck([or_expr, check]))]""")],
     'C01.TABLE')
fire('c01-or-in-make-and', 'C01',
     [(P, "return [('and_expr', _checks.AndCheck([check1, check2]))]",
       "return [('and_expr', _checks.OrCheck([check1, check2]))]")],
     'C01.TABLE')
fire('c01-swapped-operands-not', 'C01',
     [(P, "return [('check', _checks.NotCheck(check))]",
       "return [('check', check)]")], 'C01.TABLE')
fire('c01-keyword-case', 'C01',
     [(P, "yield lowered, clean", "yield clean, clean")], 'C01.T1')
fire('c01-keyword-test-raw', 'C01',
     [(P, "if lowered in ('and', 'or', 'not'):",
       "if clean in ('and', 'or', 'not'):")], 'C01.T1')
fire('c01-and-any', 'C01',
     [(C, """        for rule in self.rules:
            if not _check(rule, target, cred, enforcer, current_rule):
                return False

        return True""",
       """        for rule in self.rules:
            if _check(rule, target, cred, enforcer, current_rule):
                return True

        return False""")], 'C01')
fire('c01-not-identity', 'C01',
     [(C, "return not _check(self.rule, target, cred, enforcer, current_rule)",
       "return _check(self.rule, target, cred, enforcer, current_rule)")],
     'C01')
fire('c01-true-false', 'C01',
     [(C, """        \"\"\"Check the policy.\"\"\"

        return True""", """        \"\"\"Check the policy.\"\"\"

        return False""")], 'C01')
fire('c01-list-swapped', 'C01',
     [(P, "or_list.append(_checks.AndCheck(and_list))",
       "or_list.append(_checks.OrCheck(and_list))")], 'C01.LIST')
fire('c01-list-outer-and', 'C01',
     [(P, "return _checks.OrCheck(or_list)",
       "return _checks.AndCheck(or_list)")], 'C01.LIST')
fire('c01-strip-charset', 'C01',
     [(P, "clean = tok.lstrip('(')", "clean = tok.lstrip('([')")], 'C01.T3')
fire('c01-rstrip-charset', 'C01',
     [(P, "clean = tok.rstrip(')')", "clean = tok.rstrip(' )')")], 'C01.T3')
fire('c01-empty-string-deny', 'C01',
     [(P, """    if not rule:
        return _checks.TrueCheck()

    # Parse the token stream""", """    if not rule:
        return _checks.FalseCheck()

    # Parse the token stream""")], 'C01.CONST')
fire('c01-at-is-false', 'C01',
     [(P, """    elif rule == '@':
        return _checks.TrueCheck()""", """    elif rule == '@':
        return _checks.FalseCheck()""")], 'C01.CONST')
fire('c01-values-slot', 'C01',
     [(P, "self.values[-len(reduction):] = [r[1] for r in results]",
       "self.values[-len(reduction):] = [r[0] for r in results]")], 'C01.D2')
fire('c01-no-fixpoint', 'C01',
     [(P, "                return self.reduce()\n", "                return\n")],
     'C01.D5')
fire('c01-shift-no-reduce', 'C01',
     [(P, """        # Do a greedy reduce...
        self.reduce()""", """        # Do a greedy reduce...
        pass""")], 'C01.D6')
fire('c01-split-nonspace', 'C01',
     [(P, "_tokenize_re = re.compile(r'\\s+')",
       "_tokenize_re = re.compile(r'[\\s,]+')")], 'C01.T5')
fire('c01-parens-after', 'C01',
     [(P, """        clean = tok.lstrip('(')
        for i in range(len(tok) - len(clean)):
            yield '(', '('
""", """        clean = tok.lstrip('(')
"""), (P, """        # Yield the trailing parens
        for i in range(trail):
            yield ')', ')'""", """        # Yield the trailing parens
        for i in range(trail):
            yield ')', ')'
        for i in range(len(tok) - len(tok.lstrip('('))):
            yield '(', '('""")], 'C01.T3')

silent('c01-drop-len-guard', ['C01', 'C02', 'C15'],
       [(P, """            if (len(self.tokens) >= len(reduction) and
                    self.tokens[-len(reduction):] == reduction):""",
         """            if self.tokens[-len(reduction):] == reduction:""")])
silent('c01-return-not-reduce', ['C01', 'C02'],
       [(P, "                return self.reduce()\n",
         "                return not self.reduce()\n")])
silent('c01-remove-bang-branch', ['C01', 'C02', 'C15'],
       [(P, """    if rule == '!':
        return _checks.FalseCheck()
    elif rule == '@':""", """    if rule == '@':""")])
silent('c01-any-all', ['C01', 'C06', 'C14'],
       [(C, """        for rule in self.rules:
            if not _check(rule, target, cred, enforcer, current_rule):
                return False

        return True""",
         """        return all(_check(rule, target, cred, enforcer, current_rule)
                   for rule in self.rules)""")])
silent('c01-split-single-ws', ['C01', 'C15'],
       [(P, "_tokenize_re = re.compile(r'\\s+')",
         "_tokenize_re = re.compile(r'\\s')")])
silent('c01-reorder-reducers', ['C01', 'C02', 'C15'],
       [(P, """    @reducer('not', 'check')
    def _make_not_expr(self, _not, check):
        \"\"\"Invert the result of another check.\"\"\"

        return [('check', _checks.NotCheck(check))]
""", ""),
        (P, """    @reducer('(', 'check', ')')
    @reducer('(', 'and_expr', ')')""", """    @reducer('not', 'check')
    def _make_not_expr(self, _not, check):
        \"\"\"Invert the result of another check.\"\"\"

        return [('check', _checks.NotCheck(check))]

    @reducer('(', 'check', ')')
    @reducer('(', 'and_expr', ')')""")])
silent('c01-mix-flip-branches', ['C01', 'C15'],
       [(P, """        if isinstance(check1, _checks.AndCheck):
            and_expr = check1
            and_expr.add_check(check)
        else:
            and_expr = _checks.AndCheck([check1, check])""",
         """        if not isinstance(check1, _checks.AndCheck):
            and_expr = _checks.AndCheck([check1, check])
        else:
            and_expr = check1
            and_expr.add_check(check)""")])
silent('c01-empty-token-skip', ['C01', 'C02', 'C15'],
       [(P, "        if not tok or tok.isspace():", "        if not tok:")])

"""Shared extraction of Enforcer.enforce's paths (C03, C06, C07, C08)."""
import ast

from . import PKG
from .dte import Table, inline_self_methods
from .model import AnalysisError
from .util import U, kwarg

POLICY = PKG + '.policy'
CHECKS = PKG + '._checks'


def scope_gate(prog):
    """The Enforcer method enforce() calls with do_raise: the scope gate."""
    enf = prog.func(POLICY + '.Enforcer.enforce')
    hits = {}
    for call, g in prog.callees(enf):
        if not isinstance(call, ast.Call) or g.cls is None or \
                g.cls.qual != POLICY + '.Enforcer':
            continue
        if g.name in ('load_rules',):
            continue
        passes = [k for k in call.keywords if k.arg == 'do_raise'] or [
            a for a in call.args if isinstance(a, ast.Name)
            and a.id == 'do_raise']
        if passes:
            hits[g.qual] = g
    if len(hits) != 1:
        raise AnalysisError('expected one scope gate called from enforce '
                            'with do_raise, found %s' % sorted(hits))
    return list(hits.values())[0]


def enforce_table(ctx, inline_gate=True):
    key = ('enforce_table', inline_gate)
    cache = ctx.__dict__.setdefault('_cache', {})
    if key in cache:
        return cache[key]
    prog = ctx.prog
    enf = prog.func(POLICY + '.Enforcer.enforce')
    gate = scope_gate(prog)
    inline = inline_self_methods(prog, only={gate.qual}) if inline_gate \
        else None
    t = Table(prog, enf, inline=inline, max_paths=200000)
    t.gate = gate
    t.enf = enf
    cache[key] = t
    return t


def is_check_call(prog, module, call):
    return isinstance(call, ast.Call) and prog.resolve(
        module, call.func) == CHECKS + '._check'


def check_call_args(call):
    """role -> expr for a _checks._check(...) call."""
    roles = ['rule', 'target', 'creds', 'enforcer', 'current_rule']
    out = {}
    for r, a in zip(roles, call.args):
        out[r] = a
    for k in call.keywords:
        if k.arg in roles:
            out[k.arg] = k.value
    return out


def path_features(t, p):
    """Summarise one enforce path."""
    prog = t.prog
    f = {'load': None, 'gate': [], 'check': [], 'lookup_exc': False}
    for i, e in enumerate(p.events):
        if e.kind != 'call':
            continue
        mod = t.module_of(e.frame)
        if isinstance(e.sym, str) and e.sym.startswith('inlined:') and \
                e.sym[8:] == t.gate.qual:
            f['gate'].append((i, e))
            continue
        g = None
        try:
            g = prog.callee_of(prog.functions[e.frame], e.node)
        except Exception:
            g = None
        if g is not None and g.qual == POLICY + '.Enforcer.load_rules' and \
                f['load'] is None:
            f['load'] = i
        if g is not None and g.qual == t.gate.qual:
            f['gate'].append((i, e))
        if is_check_call(prog, mod, e.node):
            f['check'].append((i, e))
    return f

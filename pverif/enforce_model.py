"""Shared extraction of Enforcer.enforce's paths (C03, C06, C07, C08)."""
import ast

from . import PKG
from .dte import Table, inline_self_methods
from .model import AnalysisError
from .util import U, kwarg

POLICY = PKG + '.policy'
CHECKS = PKG + '._checks'


def scope_gate(prog):
    """The scope gate: the Enforcer method in the region of enforce() that
    raises InvalidScope; failing that, the one enforce() calls with
    do_raise."""
    enf = prog.func(POLICY + '.Enforcer.enforce')
    region = prog.region(enf, stop=(POLICY + '.Enforcer.load_rules',))
    raisers = {}
    for q, g in region.items():
        if g is enf or g.cls is None or g.cls.qual != POLICY + '.Enforcer':
            continue
        for n in ast.walk(g.node):
            if isinstance(n, ast.Raise) and n.exc is not None:
                from .util import raised_class_exprs
                for c in raised_class_exprs(g.node, n):
                    if prog.resolve(g.module, c) == POLICY + '.InvalidScope':
                        raisers[g.qual] = g
    if len(raisers) == 1:
        return list(raisers.values())[0]
    hits = {}
    for call, g in prog.callees(enf):
        if not isinstance(call, ast.Call) or g.cls is None or \
                g.cls.qual != POLICY + '.Enforcer':
            continue
        if g.name in ('load_rules',):
            continue
        passes = [k for k in call.keywords if k.arg == 'do_raise'] or [
            a for a in call.args if isinstance(a, ast.Name)
            and a.id == 'do_raise']
        if passes:
            hits[g.qual] = g
    if len(hits) != 1:
        # the method that builds the InvalidScope error (and hands it back
        # for its caller to raise)
        makers = {}
        for q, g in region.items():
            if g is enf or g.cls is None or \
                    g.cls.qual != POLICY + '.Enforcer':
                continue
            if any(isinstance(n, ast.Call) and prog.resolve(
                    g.module, n.func) == POLICY + '.InvalidScope'
                    for n in ast.walk(g.node)):
                makers[g.qual] = g
        if len(makers) == 1:
            return list(makers.values())[0]
    if len(hits) != 1:
        raise AnalysisError('expected one scope gate (the method raising '
                            'InvalidScope, or the one enforce calls with '
                            'do_raise), found %s' % sorted(
                                set(hits) | set(raisers)))
    return list(hits.values())[0]


def context_mapper(prog):
    """The Enforcer method that turns a context object into the
    credentials mapping (found by the to_policy_values() call)."""
    enf = prog.cls(POLICY + '.Enforcer')
    for m in enf.methods.values():
        if m.name == 'enforce':
            continue
        for n in ast.walk(m.node):
            if isinstance(n, ast.Call) and isinstance(
                    n.func, ast.Attribute) and \
                    n.func.attr == 'to_policy_values':
                return m
    return None


def enforce_inline(prog, gate, inline_gate=True):
    """inline policy for enforce: every helper of the class / module it
    calls, except the methods with a role of their own (loading, rule
    checking, the context mapper, the scope gate unless asked for)."""
    enfq = POLICY + '.Enforcer'
    keep = {enfq + '.load_rules', enfq + '.check_rules', enfq + '.enforce',
            enfq + '.authorize', enfq + '.set_rules', enfq + '.clear'}
    m = context_mapper(prog)
    if m is not None:
        keep.add(m.qual)
    if not inline_gate:
        keep.add(gate.qual)

    def cb(call, frame):
        g = prog.callee_of(frame, call)
        if g is None or g.qual in keep or g.name == '__init__':
            return None
        if g.module.name != POLICY:
            return None
        if g.cls is not None and g.cls.qual != enfq:
            return None
        if any(isinstance(x, (ast.Yield, ast.YieldFrom))
               for x in ast.walk(g.node)):
            return None
        return g
    return cb


def gate_cond(t, c):
    """Is the path condition c the verdict of the scope gate?"""
    if c.kind != 'test':
        return False
    e = c.expr
    if isinstance(e, ast.Name) and isinstance(t.en.defs.get(e.id), ast.Call):
        e = t.en.defs[e.id]
    if not isinstance(e, ast.Call):
        return False
    try:
        g = t.prog.callee_of(t.prog.functions.get(c.frame, t.enf), e)
    except Exception:
        g = None
    return g is t.gate


def enforce_table(ctx, inline_gate=True):
    key = ('enforce_table', inline_gate)
    cache = ctx.__dict__.setdefault('_cache', {})
    if key in cache:
        return cache[key]
    prog = ctx.prog
    enf = prog.func(POLICY + '.Enforcer.enforce')
    gate = scope_gate(prog)
    t = Table(prog, enf, inline=enforce_inline(prog, gate, inline_gate),
              max_paths=200000, max_depth=4, closures=True)
    t.gate = gate
    t.enf = enf
    cache[key] = t
    return t


def is_check_call(prog, module, call):
    return isinstance(call, ast.Call) and prog.resolve(
        module, call.func) == CHECKS + '._check'


def check_call_args(call):
    """role -> expr for a _checks._check(...) call."""
    roles = ['rule', 'target', 'creds', 'enforcer', 'current_rule']
    out = {}
    for r, a in zip(roles, call.args):
        out[r] = a
    for k in call.keywords:
        if k.arg in roles:
            out[k.arg] = k.value
    return out


def path_features(t, p):
    """Summarise one enforce path."""
    prog = t.prog
    f = {'load': None, 'gate': [], 'check': [], 'lookup_exc': False}
    for i, e in enumerate(p.events):
        if e.kind != 'call':
            continue
        mod = t.module_of(e.frame)
        if isinstance(e.sym, str) and e.sym.startswith('inlined:') and \
                e.sym[8:] == t.gate.qual:
            f['gate'].append((i, e))
            continue
        g = None
        try:
            g = prog.callee_of(prog.functions[e.frame], e.node)
        except Exception:
            g = None
        if g is not None and g.qual == POLICY + '.Enforcer.load_rules' and \
                f['load'] is None:
            f['load'] = i
        if g is not None and g.qual == t.gate.qual:
            f['gate'].append((i, e))
        if is_check_call(prog, mod, e.node):
            f['check'].append((i, e))
    return f


def decision_region(prog):
    """Functions a decision runs through: enforce and what it reaches,
    without the load / rule-checking side and without constructors."""
    enf = prog.func(POLICY + '.Enforcer.enforce')
    stop = (POLICY + '.Enforcer.load_rules', POLICY + '.Enforcer.check_rules')
    return {q: f for q, f in prog.region(enf, stop=stop).items()
            if f.name not in ('__init__', '__str__', '__repr__')
            and f.module.name in (POLICY, CHECKS)}


def decision_side_effects(prog):
    """[(function, effect, why)] writes of the decision region that outlive
    the call: enforcer / check-object state, and in-place changes of what a
    function was handed (parameters), except the documented mirror of
    system_scope into the credentials mapping."""
    import ast as _ast
    from .effects import effects_of
    out = []
    for q, f in sorted(decision_region(prog).items()):
        params = set(f.params)
        # a parameter rebound at the top level of the body is a local copy
        for st in f.node.body:
            if isinstance(st, _ast.Assign):
                for t in st.targets:
                    if isinstance(t, _ast.Name):
                        params.discard(t.id)
        for e in effects_of(f):
            root = e.path.split('.')[0].split('[')[0]
            if root == 'self' and e.path != 'self':
                out.append((f, e, 'writes %s state (%s)' % (
                    'enforcer' if f.cls is not None and f.cls.qual ==
                    POLICY + '.Enforcer' else 'object', e.path)))
            elif root in params and root != 'self' and e.kind != 'store':
                tg = e.node.targets[0] if isinstance(
                    e.node, _ast.Assign) else None
                if e.kind == 'substore' and e.path == root and isinstance(
                        tg, _ast.Subscript) and isinstance(
                            tg.slice, _ast.Constant) and \
                        tg.slice.value == 'system' and 'system_scope' in \
                        _ast.unparse(e.node.value):
                    continue            # creds['system'] mirror (C08.MIRROR)
                out.append((f, e, 'changes its argument `%s` in place (%s)'
                            % (root, e.kind)))
            elif e.kind == 'global':
                out.append((f, e, 'rebinds the module-level `%s`' % e.path))
    return out

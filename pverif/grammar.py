"""Grammar-table model of the rule language.

Extracted from the AST as data:
  * check-class semantics (ALL / ANY / NOT folds, constants) from __call__,
    the append / pop helper methods and the printer formats;
  * the ordered reducer table (pattern -> method) from the @reducer
    decorators;
  * the effect term of every reducer method in a closed term language.

The table is then compared with a recursive-descent reference for the
documented language over all token strings up to a bound.  The repository's
own reduce/shift code is not executed; its structure is checked separately.
"""
import ast
import itertools

from . import PKG
from .model import AnalysisError
from .paths import Enumerator

CHECKS = PKG + '._checks'
PARSER = PKG + '._parser'


def U(node):
    return ast.unparse(node)


# --------------------------------------------------------------------------
# check-class semantics
# --------------------------------------------------------------------------
class CheckClass:
    def __init__(self, qual):
        self.qual = qual
        self.sem = None        # 'and' | 'or' | 'not' | 'true' | 'false' | 'leaf'
        self.child_attr = None
        self.init_params = []  # constructor parameter names (without self)
        self.init_attrs = {}   # param -> attribute name
        self.append_methods = {}  # method name -> attr
        self.pop_methods = {}     # method name -> attr
        self.call_detail = None
        self.call_info = None
        self.merges = False    # the append helper merges a same-kind operand

    def __repr__(self):
        return '<CheckClass %s %s>' % (self.qual, self.sem)


def _is_check_call(prog, finfo, call):
    r = prog.resolve(finfo.module, call.func)
    return r == CHECKS + '._check'


def _self_attr(expr):
    """self.<attr> -> attr"""
    if isinstance(expr, ast.Attribute) and isinstance(expr.value, ast.Name) \
            and expr.value.id == 'self':
        return expr.attr
    return None


def _const(expr):
    if isinstance(expr, ast.Constant):
        return True, expr.value
    return False, None


def _strip_not(expr):
    n = 0
    while isinstance(expr, ast.UnaryOp) and isinstance(expr.op, ast.Not):
        expr = expr.operand
        n += 1
    # bool(x) wrappers do not change truthiness
    while isinstance(expr, ast.Call) and isinstance(expr.func, ast.Name) \
            and expr.func.id == 'bool' and len(expr.args) == 1:
        expr = expr.args[0]
        while isinstance(expr, ast.UnaryOp) and isinstance(expr.op, ast.Not):
            expr = expr.operand
            n += 1
    return expr, n


def classify_call(prog, finfo, self_cls=None):
    """Classify a check class' __call__.

    Returns dict(sem=..., attr=..., calls=[_check call nodes (expanded)]).
    sem in and/or/not/true/false/leaf/unknown.  Helpers of the module are
    inlined (not the adapter `_check` itself); class-level constants are
    those of the concrete class; results are reduced to their truth.
    """
    from .dte import inline_helpers
    en = Enumerator(prog, finfo, handler_paths=True, self_cls=self_cls,
                    split_returns=True, max_depth=4,
                    inline=inline_helpers(prog, modules={CHECKS},
                                          exclude={CHECKS + '._check'}))
    paths = en.run()
    info = {'sem': 'unknown', 'attr': None, 'calls': [], 'paths': len(paths),
            'why': ''}
    # collect every _check call in the function
    check_calls = [n for n in ast.walk(finfo.node) if isinstance(n, ast.Call)
                   and _is_check_call(prog, finfo, n)]
    for p in paths:
        for ev in p.events:
            if ev.kind in ('call', 'maycall') and _is_check_call(
                    prog, finfo, ev.node):
                check_calls.append(ev.node)
        for c in p.conds:
            for n in ast.walk(c.expr) if isinstance(c.expr, ast.AST) else ():
                if isinstance(n, ast.Call) and _is_check_call(prog, finfo,
                                                              n):
                    check_calls.append(n)
    info['calls'] = check_calls
    if not check_calls:
        outs = set()
        for p in paths:
            if p.outcome.kind != 'return':
                outs.add(('other', p.outcome.kind))
                continue
            ok, v = _const(p.outcome.expr) if p.outcome.expr is not None \
                else (True, None)
            outs.add(('const', v) if ok else ('expr', None))
        if outs == {('const', True)}:
            info['sem'] = 'true'
        elif outs == {('const', False)}:
            info['sem'] = 'false'
        else:
            info['sem'] = 'leaf'
        return info

    def check_of(expr):
        """expr (maybe symbol, maybe negated) -> (_check call, negations)"""
        e, n = _strip_not(expr)
        e = en.expand(e)
        e, n2 = _strip_not(e)
        if isinstance(e, ast.Call) and _is_check_call(prog, finfo, e):
            return e, n + n2
        return None, 0

    def subject_of(call):
        """first argument (the rule evaluated) of a _check call"""
        if call.args:
            return call.args[0]
        for k in call.keywords:
            if k.arg == 'rule':
                return k.value
        return None

    # --- NOT form: every path returns  not _check(self.attr, ...)
    rets = [p for p in paths if p.outcome.kind == 'return']
    if rets and len(rets) == len(paths) and all(
            p.outcome.expr is not None for p in rets) and not any(
                c.kind == 'loop' for p in paths for c in p.conds):
        forms = []
        for p in rets:
            c, n = check_of(p.outcome.expr)
            if c is None:
                # if _check(..): return False / return True
                forms = None
                break
            forms.append((_self_attr(subject_of(c)), n % 2))
        if forms and len(set(forms)) == 1 and forms[0][0]:
            attr, odd = forms[0]
            info['attr'] = attr
            info['sem'] = 'not' if odd else 'ident'
            return info
        # branching spelling: if _check(self.rule...): return False
        #                     return True
        table = {}
        attr = None
        ok = True
        for p in rets:
            conds = [(check_of(c.expr), c.pol) for c in p.conds
                     if c.kind == 'test']
            conds = [(cc[0], (pol != bool(cc[1] % 2)))
                     for cc, pol in conds if cc[0] is not None]
            isc, v = _const(p.outcome.expr)
            if len(conds) != 1 or not isc:
                ok = False
                break
            attr = _self_attr(subject_of(conds[0][0]))
            table[conds[0][1]] = bool(v)
        if ok and attr and table == {True: False, False: True}:
            info['attr'] = attr
            info['sem'] = 'not'
            return info
        if ok and attr and table == {True: True, False: False}:
            info['attr'] = attr
            info['sem'] = 'ident'
            return info

    # --- any()/all() form
    if len(paths) == 1 and paths[0].outcome.kind == 'return':
        e = en.expand(paths[0].outcome.expr)
        e, n = _strip_not(e)
        if isinstance(e, ast.Call) and isinstance(e.func, ast.Name) and \
                e.func.id in ('any', 'all') and len(e.args) == 1 and \
                isinstance(e.args[0], (ast.GeneratorExp, ast.ListComp)) and \
                n == 0:
            g = e.args[0]
            if len(g.generators) == 1 and not g.generators[0].ifs:
                it = g.generators[0].iter
                tgt = g.generators[0].target
                elt, m = _strip_not(g.elt)
                if isinstance(elt, ast.Call) and _is_check_call(
                        prog, finfo, elt) and m == 0 and isinstance(
                            tgt, ast.Name):
                    subj = subject_of(elt)
                    if isinstance(subj, ast.Name) and subj.id == tgt.id \
                            and _self_attr(it):
                        info['attr'] = _self_attr(it)
                        info['sem'] = 'and' if e.func.id == 'all' else 'or'
                        return info

    # --- loop form
    if any(c.kind == 'loop' for p in paths for c in p.conds):
        table = {}
        attr = None
        bad = None
        for p in paths:
            lc = [c for c in p.conds if c.kind == 'loop']
            if len(lc) != 1:
                bad = 'path without the loop'
                break
            a = _self_attr(en.expand(lc[0].expr))
            if a is None:
                bad = 'loop does not iterate self.<attr>'
                break
            attr = attr or a
            if a != attr:
                bad = 'two iterables'
                break
            if p.outcome.kind != 'return':
                bad = 'non-return exit'
                break
            isc, v = _const(p.outcome.expr)
            if not isc or not isinstance(v, bool):
                bad = 'non-constant return'
                break
            # decided by this element (the scan stops) or after the scan
            inside = not any(e.kind == 'loopdone' for e in p.events)
            if not lc[0].pol:
                key = ('empty',)
            else:
                tests = []
                for c in p.conds:
                    if c.kind != 'test':
                        continue
                    cc, n = check_of(c.expr)
                    if cc is None:
                        bad = 'condition other than _check in fold'
                        break
                    subj = subject_of(cc)
                    subj = en.expand(subj) if subj is not None else None
                    # subject must be the loop element
                    sd = None
                    if isinstance(subj, ast.Name) and subj.id in en.defs:
                        sd = en.defs[subj.id]
                    tests.append(c.pol != bool(n % 2))
                if bad:
                    break
                if len(tests) != 1:
                    bad = 'fold body tests %d conditions' % len(tests)
                    break
                key = ('elem', tests[0], inside)
            table[key] = v
        if not bad:
            keys = set(table)
            if table.get(('empty',)) is True and \
                    table.get(('elem', False, True)) is False and \
                    table.get(('elem', True, False)) is True and \
                    len(keys) == 3:
                info['sem'], info['attr'] = 'and', attr
                return info
            if table.get(('empty',)) is False and \
                    table.get(('elem', True, True)) is True and \
                    table.get(('elem', False, False)) is False and \
                    len(keys) == 3:
                info['sem'], info['attr'] = 'or', attr
                return info
            info['why'] = 'fold table %r' % (table,)
        else:
            info['why'] = bad
    return info


def classify_helper(finfo):
    """append-and-return-self / pop-and-return-both helpers."""
    body = [s for s in finfo.node.body
            if not (isinstance(s, ast.Expr)
                    and isinstance(s.value, ast.Constant))]
    params = finfo.params[1:]
    if len(body) == 2 and isinstance(body[0], ast.Expr) and isinstance(
            body[0].value, ast.Call) and isinstance(body[1], ast.Return):
        c = body[0].value
        if isinstance(c.func, ast.Attribute) and c.func.attr == 'append' \
                and _self_attr(c.func.value) and len(c.args) == 1 and \
                isinstance(c.args[0], ast.Name) and len(params) == 1 and \
                c.args[0].id == params[0] and isinstance(
                    body[1].value, ast.Name) and body[1].value.id == 'self':
            return ('append', _self_attr(c.func.value))
    if len(body) == 2 and isinstance(body[0], ast.If) and isinstance(
            body[1], ast.Return) and isinstance(body[1].value, ast.Name) \
            and body[1].value.id == 'self' and len(params) == 1:
        # if isinstance(p, <own class>): self.A.extend(p.A)
        # else: self.A.append(p)            (either branch order)
        node = body[0]
        t = node.test
        neg = False
        if isinstance(t, ast.UnaryOp) and isinstance(t.op, ast.Not):
            t, neg = t.operand, True
        if isinstance(t, ast.Call) and isinstance(t.func, ast.Name) and \
                t.func.id == 'isinstance' and len(t.args) == 2 and \
                isinstance(t.args[0], ast.Name) and \
                t.args[0].id == params[0] and len(node.body) == 1 and \
                len(node.orelse) == 1:
            own = ast.unparse(t.args[1]) in (
                finfo.cls.name if finfo.cls else '', 'type(self)',
                'self.__class__')
            yes, no = (node.orelse[0], node.body[0]) if neg else (
                node.body[0], node.orelse[0])

            def mc(st, meth):
                if isinstance(st, ast.Expr) and isinstance(st.value,
                                                           ast.Call):
                    c = st.value
                    if isinstance(c.func, ast.Attribute) and \
                            c.func.attr == meth and _self_attr(
                                c.func.value) and len(c.args) == 1:
                        return _self_attr(c.func.value), c.args[0]
                return None, None
            a1, x1 = mc(yes, 'extend')
            a2, x2 = mc(no, 'append')
            if own and a1 and a1 == a2 and isinstance(
                    x1, ast.Attribute) and isinstance(
                        x1.value, ast.Name) and x1.value.id == params[0] \
                    and x1.attr == a1 and isinstance(x2, ast.Name) and \
                    x2.id == params[0]:
                return ('append-merge', a1)
    if len(body) == 2 and isinstance(body[0], ast.Assign) and isinstance(
            body[1], ast.Return) and not params:
        a = body[0]
        if len(a.targets) == 1 and isinstance(a.targets[0], ast.Name) and \
                isinstance(a.value, ast.Call) and isinstance(
                    a.value.func, ast.Attribute) and \
                a.value.func.attr == 'pop' and not a.value.args and \
                _self_attr(a.value.func.value):
            r = body[1].value
            if isinstance(r, ast.Tuple) and len(r.elts) == 2 and isinstance(
                    r.elts[0], ast.Name) and r.elts[0].id == 'self' and \
                    isinstance(r.elts[1], ast.Name) and \
                    r.elts[1].id == a.targets[0].id:
                return ('pop', _self_attr(a.value.func.value))
    if len(body) == 1 and isinstance(body[0], ast.Return) and not params:
        r = body[0].value
        if isinstance(r, ast.Tuple) and len(r.elts) == 2 and isinstance(
                r.elts[0], ast.Name) and r.elts[0].id == 'self' and \
                isinstance(r.elts[1], ast.Call) and isinstance(
                    r.elts[1].func, ast.Attribute) and \
                r.elts[1].func.attr == 'pop' and not r.elts[1].args and \
                _self_attr(r.elts[1].func.value):
            return ('pop', _self_attr(r.elts[1].func.value))
    return None


def check_classes(prog):
    """qual -> CheckClass for every BaseCheck subclass in the package."""
    base = CHECKS + '.BaseCheck'
    prog.cls(base)
    out = {}
    for q in prog.subclasses(base):
        if q == base:
            continue
        ci = prog.classes[q]
        cc = CheckClass(q)
        call = prog.find_method(q, '__call__')
        if call is None or call.cls.qual == base:
            cc.sem = 'abstract'
            out[q] = cc
            continue
        info = classify_call(prog, call, self_cls=q)
        cc.sem = info['sem']
        cc.child_attr = info['attr']
        cc.call_info = info
        init = prog.find_method(q, '__init__')
        if init is not None and init.cls.qual != base:
            cc.init_params = init.params[1:]
            for n in ast.walk(init.node):
                if isinstance(n, ast.Assign) and len(n.targets) == 1 and \
                        _self_attr(n.targets[0]) and isinstance(
                            n.value, ast.Name) and \
                        n.value.id in cc.init_params:
                    cc.init_attrs[n.value.id] = _self_attr(n.targets[0])
        for mname in ci.methods:
            if mname.startswith('__'):
                continue
            h = classify_helper(ci.methods[mname])
            if h and h[0] in ('append', 'append-merge'):
                cc.append_methods[mname] = h[1]
                if h[0] == 'append-merge':
                    cc.merges = True
            elif h and h[0] == 'pop':
                cc.pop_methods[mname] = h[1]
        out[q] = cc
    return out


def fold_builders(prog, module, e, classes=None):
    """`Cls([a]).add(b)` -> `Cls([a, b])` where `add` is an append-and-
    return-self helper of combinator class Cls and the constructor is called
    on a list display right there (a fresh object over a fresh list): the
    tree built step by step, written as built at once."""
    import copy
    classes = classes if classes is not None else check_classes(prog)

    class T(ast.NodeTransformer):
        def visit_Call(self, n):
            self.generic_visit(n)
            if isinstance(n.func, ast.Attribute) and isinstance(
                    n.func.value, ast.Call) and len(n.args) == 1 and \
                    not n.keywords:
                ctor = n.func.value
                cc = classes.get(prog.resolve(module, ctor.func))
                if cc is not None and cc.append_methods.get(
                        n.func.attr) == cc.child_attr and \
                        not cc.merges and len(ctor.args) == 1 and \
                        not ctor.keywords and isinstance(
                            ctor.args[0], ast.List) and len(
                                cc.init_params) == 1 and cc.init_attrs.get(
                                    cc.init_params[0]) == cc.child_attr:
                    return ast.Call(func=ctor.func, args=[ast.List(
                        elts=list(ctor.args[0].elts) + [n.args[0]],
                        ctx=ast.Load())], keywords=[])
            return n
    return T().visit(copy.deepcopy(e))


def fresh_tree_local(prog, f, recv, classes=None):
    """`recv` (receiver of an in-place helper call in function f) is a
    combinator constructed in f itself over a list display: a constructor
    call, or a local name bound exactly once, to such a call."""
    classes = classes if classes is not None else check_classes(prog)

    def ctor(x):
        return isinstance(x, ast.Call) and classes.get(
            prog.resolve(f.module, x.func)) is not None and len(
                x.args) == 1 and isinstance(x.args[0], ast.List)
    if ctor(recv):
        return True
    if isinstance(recv, ast.Call) and isinstance(recv.func, ast.Attribute):
        # a chain: Cls([..]).add(x).add(y)
        return fresh_tree_local(prog, f, recv.func.value, classes)
    if isinstance(recv, ast.Name):
        binds = [n for n in ast.walk(f.node) if isinstance(n, ast.Name)
                 and n.id == recv.id and isinstance(n.ctx, ast.Store)]
        if len(binds) != 1 or recv.id in f.params:
            return False
        for n in ast.walk(f.node):
            if isinstance(n, ast.Assign) and len(n.targets) == 1 and \
                    n.targets[0] is binds[0]:
                return ctor(n.value)
    return False


# --------------------------------------------------------------------------
# reducer table + effect terms
# --------------------------------------------------------------------------
class Reducer:
    def __init__(self, pattern, method, line):
        self.pattern = tuple(pattern)
        self.method = method
        self.line = line

    def __repr__(self):
        return '<Reducer %s -> %s>' % (' '.join(self.pattern),
                                       self.method.name)


def find_parse_state(prog):
    """The class whose methods carry @reducer decorators."""
    hits = []
    for c in prog.classes.values():
        for f in c.methods.values():
            for d in f.decorators:
                if isinstance(d, ast.Call) and prog.resolve(
                        c.module, d.func) == PARSER + '.reducer':
                    hits.append(c)
                    break
            else:
                continue
            break
    if len(hits) != 1:
        raise AnalysisError('expected exactly one class with @reducer '
                            'methods, found %d' % len(hits))
    return hits[0]


def reducer_table(prog, cls):
    """Ordered (pattern, method) list: class-body order, inner decorator
    first - the order ParseStateMeta.__new__ builds."""
    table = []
    for name, f in cls.methods.items():     # dict preserves body order
        rs = []
        for d in f.decorators:
            if isinstance(d, ast.Call) and prog.resolve(
                    cls.module, d.func) == PARSER + '.reducer':
                if not all(isinstance(a, ast.Constant)
                           and isinstance(a.value, str) for a in d.args) \
                        or d.keywords:
                    raise AnalysisError(
                        'non-literal @reducer pattern at %s:%d' % (
                            cls.module.path, d.lineno))
                rs.append(Reducer([a.value for a in d.args], f, d.lineno))
        for r in reversed(rs):
            table.append(r)
    return table


# Terms: ('P', i) ('new', sem, [terms]) ('add', t, t) ('poprest', t)
#        ('poplast', t) ('ifinst', t, sem, then, else)
def term_text(t):
    k = t[0]
    if k == 'P':
        return 'P%d' % t[1]
    if k == 'new':
        return '%s[%s]' % (t[1].capitalize(), ', '.join(
            term_text(x) for x in t[2]))
    if k == 'add':
        return 'Add(%s, %s)' % (term_text(t[1]), term_text(t[2]))
    if k in ('poprest', 'poplast'):
        return '%s(%s)' % ('PopRest' if k == 'poprest' else 'PopLast',
                           term_text(t[1]))
    if k == 'ifinst':
        return 'IfInst(%s, %s, %s, %s)' % (term_text(t[1]), t[2],
                                           term_text(t[3]), term_text(t[4]))
    return repr(t)


class EffectError(AnalysisError):
    pass


def _sems_with_attr(prog, classes, attr, where):
    """Kinds of the check classes whose instances have the attribute (a
    method anywhere in the class, or an attribute set by __init__)."""
    sems = []
    for cc in classes.values():
        ci = prog.classes.get(cc.qual)
        if ci is None:
            continue
        has = prog.find_method(cc.qual, attr) is not None
        init = prog.find_method(cc.qual, '__init__')
        if not has and init is not None:
            has = any(isinstance(n, ast.Attribute) and isinstance(
                n.ctx, ast.Store) and n.attr == attr and isinstance(
                    n.value, ast.Name) and n.value.id == 'self'
                for n in ast.walk(init.node))
        if not has:
            continue
        if cc.sem not in ('and', 'or', 'not'):
            raise EffectError('hasattr(%r) also holds for %s operands in %s'
                              % (attr, cc.qual, where))
        if cc.sem not in sems:
            sems.append(cc.sem)
    if not sems:
        raise EffectError('hasattr(%r) holds for no check class in %s'
                          % (attr, where))
    return sorted(sems)


def effect_of(prog, classes, finfo):
    """Effect term of a reducer method: list of (kind, term)."""
    params = finfo.params[1:]
    from .dte import inline_helpers
    base_inline = inline_helpers(prog, modules={PARSER}, classes=False)
    own_inline = inline_helpers(prog, modules={PARSER}, classes=True)

    def inline(call, frame):
        g = base_inline(call, frame)
        if g is not None:
            return g
        # a reducer that hands its result to a sibling method of the parse
        # state (the check classes' own helpers stay primitives)
        g = own_inline(call, frame)
        if g is not None and finfo.cls is not None and g.cls is finfo.cls \
                and g is not finfo:
            return g
        return None
    inline.gen = getattr(base_inline, 'gen', None)
    en = Enumerator(prog, finfo, handler_paths=False, max_depth=4,
                    inline=inline)
    paths = en.run()
    where = '%s:%d %s' % (finfo.module.path, finfo.node.lineno, finfo.qual)

    def class_of(expr):
        r = prog.resolve(finfo.module, expr)
        return classes.get(r)

    results = []
    for p in paths:
        if p.outcome.kind != 'return' or p.outcome.expr is None:
            raise EffectError('unrecognised reducer effect (no return) in %s'
                              % where)
        symval = {}
        mut = {}

        def res(t):
            seen = 0
            while t in mut and seen < 10:
                t = mut[t]
                seen += 1
            return t

        def freeze(t):
            if isinstance(t, list):
                return tuple(freeze(x) for x in t)
            if isinstance(t, tuple):
                return tuple(freeze(x) for x in t)
            return t

        def term(expr):
            if isinstance(expr, ast.Name):
                if expr.id in params:
                    return res(('P', params.index(expr.id)))
                if expr.id in symval:
                    v = symval[expr.id]
                    if isinstance(v, tuple) and v and v[0] == 'pair':
                        return v
                    return res(v)
                if expr.id in en.defs and isinstance(en.defs[expr.id],
                                                     ast.AST):
                    return term(en.defs[expr.id])
                raise EffectError('unrecognised reducer effect: name %s in '
                                  '%s' % (expr.id, where))
            if isinstance(expr, ast.Subscript) and isinstance(
                    expr.slice, ast.Constant):
                b = term(expr.value)
                if isinstance(b, tuple) and b and b[0] == 'pair':
                    return res(b[1 + expr.slice.value])
                raise EffectError('unrecognised reducer effect: subscript in '
                                  '%s' % where)
            if isinstance(expr, ast.Call):
                return call_term(expr)
            raise EffectError('unrecognised reducer effect: %s in %s' % (
                U(expr), where))

        def call_term(c):
            cc = class_of(c.func)
            if cc is not None:
                if cc.sem in ('and', 'or') and len(c.args) == 1 and \
                        isinstance(c.args[0], (ast.List, ast.Tuple)) and \
                        not c.keywords:
                    return freeze(('new', cc.sem,
                                   [term(x) for x in c.args[0].elts]))
                if cc.sem in ('not', 'ident') and len(c.args) == 1 and \
                        not c.keywords:
                    return freeze(('new', cc.sem, [term(c.args[0])]))
                if cc.sem in ('true', 'false') and not c.args:
                    return ('new', cc.sem, ())
                raise EffectError('unrecognised constructor call %s in %s'
                                  % (U(c), where))
            if isinstance(c.func, ast.Attribute):
                m = c.func.attr
                appenders = {n for k in classes.values()
                             for n in k.append_methods}
                poppers = {n for k in classes.values()
                           for n in k.pop_methods}
                if m in appenders and len(c.args) == 1 and not c.keywords:
                    r = term(c.func.value)
                    a = term(c.args[0])
                    t = freeze(('add', r, a))
                    mut[r] = t
                    return t
                if m in poppers and not c.args and not c.keywords:
                    r = term(c.func.value)
                    rest = freeze(('poprest', r))
                    last = freeze(('poplast', r))
                    mut[r] = rest
                    return ('pair', rest, last)
            raise EffectError('unrecognised reducer effect: call %s in %s'
                              % (U(c), where))

        # process call events in order (symbols carry results)
        for ev in p.events:
            if ev.kind != 'call':
                if ev.kind in ('store', 'aug', 'del'):
                    raise EffectError('reducer %s writes state: %s' % (
                        where, ev.text()))
                continue
            if ev.sym and ev.sym.startswith('SYM_'):
                d = en.defs.get(ev.sym)
                if isinstance(d, ast.AST):
                    try:
                        symval[ev.sym] = term(d)
                    except EffectError:
                        # value may be unused by the result (e.g. logging)
                        symval[ev.sym] = ('opaque', ev.sym)
        ret = p.outcome.expr
        if isinstance(ret, ast.Name) and ret.id in en.defs and isinstance(
                en.defs[ret.id], ast.AST) and ret.id not in symval:
            ret = en.defs[ret.id]
        if isinstance(ret, ast.Name) and ret.id in en.defs:
            ret = en.defs[ret.id]
        if not isinstance(ret, (ast.List, ast.Tuple)):
            raise EffectError('reducer %s does not return a literal list'
                              % where)
        out = []
        for e in ret.elts:
            if not (isinstance(e, ast.Tuple) and len(e.elts) == 2 and
                    isinstance(e.elts[0], ast.Constant)):
                raise EffectError('reducer %s result element is not '
                                  '(kind, value)' % where)
            v = e.elts[1]
            if isinstance(v, ast.Name) and v.id in symval:
                t = symval[v.id]
                if t[0] == 'pair':
                    raise EffectError('pair used as value in %s' % where)
                t = res(t) if t[0] != 'add' else t
            else:
                t = term(v)
            if t[0] == 'opaque':
                raise EffectError('unrecognised reducer effect in %s' %
                                  where)
            out.append((e.elts[0].value, t))
        # path condition -> isinstance tests
        alts = [[]]

        def raw_term(subj):
            # subject evaluated *before* later mutations: use raw term
            saved = dict(mut)
            mut.clear()
            try:
                return term(subj)
            finally:
                mut.update(saved)
        for c in p.conds:
            e = c.expr
            if c.kind != 'test':
                raise EffectError('loop/exception in reducer %s' % where)
            if isinstance(e, ast.Call) and isinstance(e.func, ast.Name) \
                    and e.func.id == 'isinstance' and len(e.args) == 2:
                cc = class_of(e.args[1])
                if cc is None or cc.sem not in ('and', 'or', 'not'):
                    raise EffectError('isinstance against non-check class '
                                      'in %s' % where)
                st = raw_term(e.args[0])
                for a in alts:
                    a.append((st, cc.sem, c.pol))
            elif isinstance(e, ast.Call) and isinstance(e.func, ast.Name) \
                    and e.func.id == 'hasattr' and len(e.args) == 2 and \
                    isinstance(_const(e.args[1])[1], str):
                # duck typing: true for every check class with the attribute
                sems = _sems_with_attr(prog, classes, _const(e.args[1])[1],
                                       where)
                st = raw_term(e.args[0])
                if not c.pol:
                    for a in alts:
                        a.extend((st, s, False) for s in sems)
                else:
                    alts = [a + [(st, t, False) for t in sems[:i]] +
                            [(st, s, True)]
                            for a in alts for i, s in enumerate(sems)]
            else:
                raise EffectError('unrecognised condition %s in reducer %s'
                                  % (U(e), where))
        for a in alts:
            # drop contradictory alternatives, and repeated tests
            seen = {}
            ok = True
            for st, sem, pol in a:
                if seen.setdefault((st, sem), pol) != pol:
                    ok = False
                # an operand is of one kind only
                if pol and any(k[0] == st and k[1] != sem and v
                               for k, v in seen.items()):
                    ok = False
            if ok:
                results.append(([(k[0], k[1], v) for k, v in seen.items()],
                                out))
    # fold the paths into one term per result slot
    if len(results) == 1 and not results[0][0]:
        return results[0][1]
    # all paths must produce same shape
    shapes = {tuple(k for k, _ in out) for _, out in results}
    if len(shapes) != 1:
        raise EffectError('reducer %s returns different kinds on different '
                          'paths' % where)

    def build(rs, slot):
        if len(rs) == 1:
            return rs[0][1][slot][1]
        # split on first condition of first result
        for conds, _ in rs:
            if conds:
                subj, sem, _pol = conds[0]
                break
        else:
            raise EffectError('ambiguous paths in reducer %s' % where)
        yes, no = [], []
        for conds, out in rs:
            hit = [c for c in conds if c[0] == subj and c[1] == sem]
            rest = [c for c in conds if not (c[0] == subj and c[1] == sem)]
            if not hit:
                yes.append((rest, out))
                no.append((rest, out))
            elif hit[0][2]:
                yes.append((rest, out))
            else:
                no.append((rest, out))
        if not yes or not no:
            raise EffectError('incomplete isinstance split in %s' % where)
        return ('ifinst', subj, sem, build(yes, slot), build(no, slot))

    kinds = list(shapes)[0]
    return [(kinds[i], build(results, i)) for i in range(len(kinds))]


# --------------------------------------------------------------------------
# concrete trees and term application
# --------------------------------------------------------------------------
# tree: ('leaf', i) | ('and', (children)) | ('or', (...)) | ('not', child)
#       | ('true',) | ('false',)  | ('str', s)  (a raw string value)
class Stuck(Exception):
    """The effect cannot be applied to these operand shapes (the real code
    would raise AttributeError/TypeError at parse time)."""


def apply_term(t, args, modes=None):
    k = t[0]
    if k == 'P':
        return args[t[1]]
    if k == 'new':
        if t[1] == 'not':
            return ('not', apply_term(t[2][0], args, modes))
        if t[1] == 'ident':
            return apply_term(t[2][0], args, modes)
        if t[1] in ('true', 'false'):
            return (t[1],)
        return (t[1], tuple(apply_term(x, args, modes) for x in t[2]))
    if k == 'add':
        base = apply_term(t[1], args, modes)
        if base[0] not in ('and', 'or'):
            raise Stuck('add on %s' % (base[0],))
        x = apply_term(t[2], args, modes)
        if modes and modes.get(base[0]) and x[0] == base[0]:
            # the append helper merges an operand of its own kind
            return (base[0], base[1] + x[1])
        return (base[0], base[1] + (x,))
    if k == 'poprest':
        base = apply_term(t[1], args, modes)
        if base[0] not in ('and', 'or') or not base[1]:
            raise Stuck('pop on %s' % (base[0],))
        return (base[0], base[1][:-1])
    if k == 'poplast':
        base = apply_term(t[1], args, modes)
        if base[0] not in ('and', 'or') or not base[1]:
            raise Stuck('pop on %s' % (base[0],))
        return base[1][-1]
    if k == 'ifinst':
        subj = apply_term(t[1], args, modes)
        return apply_term(t[3] if subj[0] == t[2] else t[4], args, modes)
    raise Stuck('bad term %r' % (t,))


class TableModel:
    """Greedy shift-reduce automaton parameterised by the extracted table."""

    def __init__(self, table, effects, modes=None):
        self.table = [(r.pattern, r) for r in table]
        self.effects = effects       # method name -> [(kind, term)]
        self.modes = modes or {}
        self.maxlen = max(len(p) for p, _ in self.table)

    def reduce(self, toks, vals, trace=None):
        """toks / vals are tuples; returns reduced (toks, vals)."""
        guard = 0
        while True:
            guard += 1
            if guard > 200:
                raise Stuck('reduction does not terminate')
            for pat, r in self.table:
                n = len(pat)
                if n and len(toks) >= n and toks[-n:] == pat:
                    eff = self.effects[r.method.name]
                    args = vals[-n:]
                    new = [(k, apply_term(t, args, self.modes)) for k, t in eff]
                    toks = toks[:-n] + tuple(k for k, _ in new)
                    vals = vals[:-n] + tuple(v for _, v in new)
                    if trace is not None:
                        trace.append(r)
                    break
            else:
                return toks, vals

    def shift(self, state, tok, val, trace=None):
        toks, vals = state
        return self.reduce(toks + (tok,), vals + (val,), trace)


# --------------------------------------------------------------------------
# reference grammar (documented language), recursive descent
# --------------------------------------------------------------------------
class Reject(Exception):
    pass


def ref_parse(toks, vals):
    """or_expr := and_expr ('or' and_expr)* ; and_expr := not_expr ('and'
    not_expr)* ; not_expr := 'not' not_expr | atom ; atom := check |
    '(' or_expr ')'.  Returns a tree with n-ary and/or."""
    pos = [0]
    n = len(toks)

    def peek():
        return toks[pos[0]] if pos[0] < n else None

    def atom():
        t = peek()
        if t == 'check':
            v = vals[pos[0]]
            pos[0] += 1
            return v
        if t == '(':
            pos[0] += 1
            e = or_expr()
            if peek() != ')':
                raise Reject()
            pos[0] += 1
            return e
        raise Reject()

    def not_expr():
        if peek() == 'not':
            pos[0] += 1
            return ('not', not_expr())
        return atom()

    def and_expr():
        items = [not_expr()]
        while peek() == 'and':
            pos[0] += 1
            items.append(not_expr())
        return items[0] if len(items) == 1 else ('and', tuple(items))

    def or_expr():
        items = [and_expr()]
        while peek() == 'or':
            pos[0] += 1
            items.append(and_expr())
        return items[0] if len(items) == 1 else ('or', tuple(items))

    e = or_expr()
    if pos[0] != n:
        raise Reject()
    return e


def flatten(t):
    k = t[0]
    if k in ('and', 'or'):
        out = []
        for c in t[1]:
            c = flatten(c)
            if c[0] == k:
                out.extend(c[1])
            else:
                out.append(c)
        return (k, tuple(out))
    if k == 'not':
        return ('not', flatten(t[1]))
    return t


def evaluate(t, env):
    k = t[0]
    if k == 'leaf':
        return env[t[1]]
    if k == 'and':
        return all(evaluate(c, env) for c in t[1])
    if k == 'or':
        return any(evaluate(c, env) for c in t[1])
    if k == 'not':
        return not evaluate(t[1], env)
    if k == 'true':
        return True
    if k == 'false':
        return False
    raise Stuck('cannot evaluate %r' % (t,))


def leaves(t, acc=None):
    acc = acc if acc is not None else []
    if t[0] == 'leaf':
        acc.append(t[1])
    elif t[0] in ('and', 'or'):
        for c in t[1]:
            leaves(c, acc)
    elif t[0] == 'not':
        leaves(t[1], acc)
    return acc


def same_decisions(a, b, nleaves):
    for bits in itertools.product((False, True), repeat=nleaves):
        if evaluate(a, bits) != evaluate(b, bits):
            return False, bits
    return True, None


def tree_text(t):
    k = t[0]
    if k == 'leaf':
        return 'c%d' % t[1]
    if k in ('and', 'or'):
        return '(' + (' %s ' % k).join(tree_text(c) for c in t[1]) + ')'
    if k == 'not':
        return 'not ' + tree_text(t[1])
    if k == 'str':
        return repr(t[1])
    return {'true': '@', 'false': '!'}.get(k, repr(t))


TERMINALS = ('(', ')', 'and', 'or', 'not', 'check', 'string')


def token_value(tok, idx):
    if tok == 'check':
        return ('leaf', idx)
    return ('str', tok)


def accepts(state, accept_pred):
    toks, vals = state
    return accept_pred(toks, vals)


def compare_string(model, toks, accept_pred):
    """Compare the table model with the reference on one token string.

    Returns (verdict, detail) with verdict in
      'agree-accept', 'agree-reject', 'truth-equal', or a disagreement:
      'model-accepts-invalid', 'model-rejects-valid', 'different-decisions',
      'model-stuck', 'non-check-result'.
    """
    vals = []
    li = 0
    for t in toks:
        if t == 'check':
            vals.append(('leaf', li))
            li += 1
        else:
            vals.append(('str', t))
    try:
        ref = ref_parse(toks, vals)
        ref_ok = True
    except Reject:
        ref = None
        ref_ok = False
    state = ((), ())
    trace = []
    try:
        for t, v in zip(toks, vals):
            state = model.shift(state, t, v, trace)
    except Stuck as e:
        return ('model-stuck', {'error': str(e), 'ref_accepts': ref_ok,
                                'last_reducer': repr(trace[-1])
                                if trace else None})
    ok = accept_pred(state[0], state[1])
    last = repr(trace[-1]) if trace else None
    if ok and not ref_ok:
        v = state[1][0] if state[1] else None
        return ('model-accepts-invalid', {
            'result': tree_text(v) if v else None, 'stack': list(state[0]),
            'last_reducer': last})
    if not ok and ref_ok:
        return ('model-rejects-valid', {
            'stack': list(state[0]), 'reference': tree_text(ref),
            'last_reducer': last})
    if not ok:
        return ('agree-reject', None)
    got = state[1][0]
    if got[0] == 'str':
        return ('non-check-result', {'result': repr(got[1]),
                                     'last_reducer': last})
    if flatten(got) == flatten(ref):
        return ('agree-accept', None)
    same, bits = same_decisions(got, ref, li)
    if same:
        return ('truth-equal', None)
    return ('different-decisions', {
        'model': tree_text(got), 'reference': tree_text(ref),
        'assignment': list(bits), 'last_reducer': last})


def all_strings(n, alphabet):
    for k in range(0, n + 1):
        yield from itertools.product(alphabet, repeat=k)


def sentences(maxlen):
    """All token strings of the reference grammar up to maxlen tokens."""
    # memoised generation by length:  E(n) or-expr, A(n) and-level, N(n) unary
    from functools import lru_cache

    @lru_cache(None)
    def N(n):   # not_expr of exactly n tokens
        out = []
        if n == 1:
            out.append(('check',))
        if n >= 2:
            out.extend(('not',) + s for s in N(n - 1))
        if n >= 3:
            out.extend(('(',) + s + (')',) for s in E(n - 2))
        return tuple(out)

    @lru_cache(None)
    def A(n):   # and_expr of exactly n tokens
        out = list(N(n))
        for k in range(1, n - 1):
            for left in N(k):
                for right in A(n - k - 1):
                    out.append(left + ('and',) + right)
        return tuple(out)

    @lru_cache(None)
    def E(n):
        out = list(A(n))
        for k in range(1, n - 1):
            for left in A(k):
                for right in E(n - k - 1):
                    out.append(left + ('or',) + right)
        return tuple(out)

    for n in range(1, maxlen + 1):
        yield from E(n)

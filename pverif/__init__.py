"""pverif - repository-specific static analysis of openstack/oslo.policy.

Every verdict is computed from the source text of /repo's working tree parsed
with the standard ``ast`` module.  The library under analysis is never
imported or executed by any check.
"""

REPO = '/repo'
PKG = 'oslo_policy'
VERIF = '/verif'

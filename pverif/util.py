"""Small matchers over ast nodes shared by the property checks."""
import ast

from .model import AnalysisError, dotted


def U(node):
    try:
        return ast.unparse(node)
    except Exception:
        return ast.dump(node)


def is_const(node, *values):
    if not isinstance(node, ast.Constant):
        return False
    if not values:
        return True
    return any(type(node.value) is type(v) and node.value == v
               for v in values)


def const_of(node, default=None):
    return node.value if isinstance(node, ast.Constant) else default


def self_attr(expr, recv='self'):
    if isinstance(expr, ast.Attribute) and isinstance(expr.value, ast.Name) \
            and expr.value.id == recv:
        return expr.attr
    return None


def strip_not(expr):
    n = 0
    while isinstance(expr, ast.UnaryOp) and isinstance(expr.op, ast.Not):
        expr = expr.operand
        n += 1
    return expr, n


def calls_in(node):
    return [n for n in ast.walk(node) if isinstance(n, ast.Call)]


def call_name(prog, module, call):
    """Resolved callee name of a call ('ext:os.path.join', qualified package
    name, 'builtin:len') or for method calls on unknown receivers
    '.method'."""
    if not isinstance(call, ast.Call):
        return None
    r = prog.resolve(module, call.func)
    if r is not None:
        return r
    if isinstance(call.func, ast.Attribute):
        return '.' + call.func.attr
    return None


def method_call(call, name=None):
    """(receiver, method) for x.m(...) calls."""
    if isinstance(call, ast.Call) and isinstance(call.func, ast.Attribute):
        if name is None or call.func.attr == name:
            return call.func.value, call.func.attr
    return None


def kwarg(call, name, pos=None):
    for k in call.keywords:
        if k.arg == name:
            return k.value
    if pos is not None and len(call.args) > pos:
        a = call.args[pos]
        if not isinstance(a, ast.Starred):
            return a
    return None


def parent_map(root):
    pm = {}
    for n in ast.walk(root):
        for c in ast.iter_child_nodes(n):
            pm[c] = n
    return pm


def enclosing(pm, node, types):
    n = pm.get(node)
    while n is not None:
        if isinstance(n, types):
            return n
        n = pm.get(n)
    return None


def ancestors(pm, node):
    n = pm.get(node)
    while n is not None:
        yield n
        n = pm.get(n)


def returns_of(func_node):
    """Return statements of a function, not descending into nested defs."""
    out = []

    def walk(n):
        for c in ast.iter_child_nodes(n):
            if isinstance(c, (ast.FunctionDef, ast.AsyncFunctionDef,
                              ast.Lambda, ast.ClassDef)):
                continue
            if isinstance(c, ast.Return):
                out.append(c)
            walk(c)
    walk(func_node)
    return out


def walk_no_nested(node):
    """ast.walk that does not descend into nested function/class defs."""
    todo = [node]
    first = True
    while todo:
        n = todo.pop()
        if not first and isinstance(n, (ast.FunctionDef, ast.AsyncFunctionDef,
                                        ast.ClassDef, ast.Lambda)):
            continue
        first = False
        yield n
        todo.extend(ast.iter_child_nodes(n))


def handlers_enclosing(pm, node, func_node):
    """Try statements whose *body* contains node (innermost first)."""
    out = []
    child = node
    n = pm.get(node)
    while n is not None and n is not func_node:
        if isinstance(n, ast.Try) and any(child is b or _contains(b, child)
                                          for b in n.body):
            out.append(n)
        child = n
        n = pm.get(n)
    return out


def _contains(root, node):
    for x in ast.walk(root):
        if x is node:
            return True
    return False


def handler_type_exprs(prog, module, h, cls=None):
    """The class expressions a handler names, a constant holding the tuple
    (module level, or class level through self./cls./Class.) resolved."""
    t = h.type
    if isinstance(t, (ast.Name, ast.Attribute)):
        c = prog.const_expr(module, t, cls, names_ok=True)
        if c is None and isinstance(t, ast.Attribute) and isinstance(
                t.value, ast.Name) and t.value.id in ('self', 'cls'):
            for ci in module.classes.values():
                c = prog.class_constants(ci.qual, names_ok=True).get(t.attr)
                if c is not None:
                    break
        if isinstance(c, ast.Tuple):
            return list(c.elts)
    return t.elts if isinstance(t, ast.Tuple) else [t]


def handler_names(prog, module, h, cls=None):
    if h.type is None:
        return ['builtin:BaseException']
    return [prog.resolve(module, t) or U(t)
            for t in handler_type_exprs(prog, module, h, cls)]


def need(cond, msg):
    if not cond:
        raise AnalysisError(msg)


def str_elems(node):
    """Literal list/tuple/set of string constants -> list of str, else None."""
    if isinstance(node, (ast.List, ast.Tuple, ast.Set)) and all(
            isinstance(e, ast.Constant) and isinstance(e.value, str)
            for e in node.elts):
        return [e.value for e in node.elts]
    return None


def dotted_text(expr):
    d = dotted(expr)
    return '.'.join(d) if d else None


def raised_class_exprs(func_node, raise_node):
    """Expressions naming the class(es) a `raise X` statement raises: the
    called class of `raise C(...)`, `C` itself, or - for `raise name` where
    `name` is a local bound to exception objects built in the same function
    (`err = KeyError(key)` ... `raise err`) - the classes of those calls."""
    e = raise_node.exc
    if e is None:
        return []
    if isinstance(e, ast.Call):
        return [e.func]
    if isinstance(e, ast.Name):
        built = []
        other = False
        for n in walk_no_nested(func_node):
            if isinstance(n, ast.Assign) and any(
                    isinstance(t, ast.Name) and t.id == e.id
                    for t in n.targets):
                if isinstance(n.value, ast.Call):
                    built.append(n.value.func)
                else:
                    other = True
            elif isinstance(n, (ast.AnnAssign, ast.AugAssign, ast.NamedExpr)) \
                    and isinstance(n.target, ast.Name) and \
                    n.target.id == e.id:
                other = True
            elif isinstance(n, ast.ExceptHandler) and n.name == e.id:
                other = True
        if built and not other:
            return built
    return [e]


def inert_stmt(b):
    """A statement that computes nothing a caller can see: a docstring or a
    call of a logger (`LOG.debug(...)`, `logging.info(...)`)."""
    if isinstance(b, ast.Expr) and isinstance(b.value, ast.Constant):
        return True
    if isinstance(b, ast.Expr) and isinstance(b.value, ast.Call):
        f = b.value.func
        if isinstance(f, ast.Attribute) and isinstance(
                f.value, ast.Name) and f.value.id in ('LOG', 'logging',
                                                      'logger', '_LOG'):
            return True
    return False

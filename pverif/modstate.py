"""Uses of module-level mutable state inside a region of functions."""
import ast

from .effects import effects_of
from .util import U, walk_no_nested


def mutable_globals(module):
    """Module-level names bound to a mutable container."""
    out = {}
    for name, v in module.assigns.items():
        if isinstance(v, (ast.Dict, ast.List, ast.Set, ast.DictComp,
                          ast.ListComp, ast.SetComp)):
            out[name] = v
        elif isinstance(v, ast.Call) and U(v.func) in (
                'dict', 'list', 'set', 'collections.OrderedDict',
                'collections.defaultdict', 'OrderedDict', 'defaultdict',
                'threading.local', 'weakref.WeakKeyDictionary',
                'weakref.WeakValueDictionary'):
            out[name] = v
        elif isinstance(v, ast.Constant) and v.value is None:
            # `cache = None` filled in lazily through `global`
            out[name] = v
    return out


def state_uses(prog, region):
    """[(finfo, node, name, how)] for every write to / hand-out of a
    module-level mutable inside the region's functions."""
    out = []
    for q, f in sorted(region.items()):
        mod = f.module
        muts = mutable_globals(mod)
        if not muts:
            continue
        locals_ = set(f.params)
        globs = set()
        for x in walk_no_nested(f.node):
            if isinstance(x, ast.Global):
                globs |= set(x.names)
        for x in walk_no_nested(f.node):
            if isinstance(x, ast.Name) and isinstance(x.ctx, ast.Store) \
                    and x.id not in globs:
                locals_.add(x.id)

        def is_glob(name):
            return name in muts and (name not in locals_ or name in globs)
        for e in effects_of(f):
            root = e.path.split('.')[0].split('[')[0]
            if e.kind == 'global' and e.path in muts:
                out.append((f, e.node, e.path, 'rebinds'))
            elif is_glob(root) and not isinstance(muts[root], ast.Constant):
                out.append((f, e.node, root, 'mutates (%s)' % e.kind))
        for c in walk_no_nested(f.node):
            if isinstance(c, (ast.Assign, ast.Return)) and isinstance(
                    c.value, ast.Name) and is_glob(c.value.id) and \
                    not isinstance(muts[c.value.id], ast.Constant):
                out.append((f, c, c.value.id, 'keeps a reference to'
                            if isinstance(c, ast.Assign) else 'returns'))
            if isinstance(c, ast.Call):
                for a in list(c.args) + [k.value for k in c.keywords]:
                    if isinstance(a, ast.Name) and is_glob(a.id) and \
                            not isinstance(muts[a.id], ast.Constant):
                        out.append((f, c, a.id, 'hands to %s' % U(c.func)))
    return out

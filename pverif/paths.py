"""Structured path enumeration with a symbolic environment.

The analysed code base is goto-free, so the control-flow graph is realised as
a walk over the statement tree carrying a symbolic state.  Loops contribute 0
and 1 iterations; every ``try`` contributes its normal path plus one path per
handler.  Local variables are inlined into later conditions / outcomes;
results of calls are named by fresh symbols (``SYM_vN``) whose definitions are
kept in ``Enumerator.defs``.  Conditions are split into primitive short-circuit
branches; repeated primitive conditions on one path are kept consistent.

Nothing is executed: conditions stay uninterpreted terms unless they fold to
a constant.
"""
import ast
import copy

from .model import AnalysisError
from .util import method_call, walk_no_nested
from .util import U as U_


# methods of the built-in containers and strings that only read their
# receiver
READER_METHODS = frozenset((
    'get', 'keys', 'values', 'items', 'copy', 'index', 'count', 'lower',
    'upper', 'casefold', 'strip', 'lstrip', 'rstrip', 'split', 'rsplit',
    'splitlines', 'partition', 'rpartition', 'startswith', 'endswith',
    'join', 'format', 'find', 'rfind', 'replace', 'isascii', 'isprintable',
    'isdigit', 'isalpha', 'isalnum', 'isidentifier', 'isspace', 'encode',
    'decode', 'title', 'capitalize', 'expandtabs', 'zfill', 'issubset',
    'issuperset', 'isdisjoint', 'union', 'intersection', 'difference'))


class Cond:
    __slots__ = ('expr', 'pol', 'line', 'kind', 'frame')

    def __init__(self, expr, pol, line, kind='test', frame=None):
        self.expr = expr
        self.pol = pol
        self.line = line
        self.kind = kind
        self.frame = frame

    def text(self):
        t = ast.unparse(self.expr) if isinstance(self.expr, ast.AST) \
            else str(self.expr)
        return ('' if self.pol else 'not ') + '(' + t + ')'

    def __repr__(self):
        return '<Cond %s @%s>' % (self.text(), self.line)


class Event:
    __slots__ = ('kind', 'node', 'value', 'line', 'frame', 'sym', 'nconds',
                 'raw')

    def __init__(self, kind, node, line, frame, value=None, sym=None,
                 nconds=0, raw=None):
        self.kind = kind      # call | store | aug | del | with | yield | iter
        self.node = node      # call expr / store target (locals substituted)
        self.value = value    # stored value
        self.line = line
        self.frame = frame    # qualified function name
        self.sym = sym
        self.nconds = nconds  # number of path conditions established before
        self.raw = raw        # original (unsubstituted) node

    def text(self):
        t = ast.unparse(self.node)
        if self.kind in ('store', 'aug') and self.value is not None:
            t += ' = ' + ast.unparse(self.value)
        return '%s %s' % (self.kind, t)

    def __repr__(self):
        return '<Ev %s @%s>' % (self.text(), self.line)


class Outcome:
    __slots__ = ('kind', 'expr', 'line', 'frame')

    def __init__(self, kind, expr, line, frame=None):
        self.kind = kind      # return | raise | end
        self.expr = expr
        self.line = line
        self.frame = frame

    def text(self):
        if self.kind == 'end':
            return 'end'
        return '%s %s' % (self.kind, ast.unparse(self.expr)
                          if self.expr is not None else 'None')

    def __repr__(self):
        return '<Out %s @%s>' % (self.text(), self.line)


class Path:
    def __init__(self, conds, events, outcome, env):
        self.conds = conds
        self.events = events
        self.outcome = outcome
        self.env = env

    def cond_text(self):
        return ' and '.join(c.text() for c in self.conds) or 'True'

    def __repr__(self):
        return '<Path [%s] -> %s>' % (self.cond_text(), self.outcome.text())


class State:
    __slots__ = ('env', 'attrs', 'facts', 'conds', 'events', 'kstack')

    def __init__(self, env=None, attrs=None, facts=None, conds=None,
                 events=None, kstack=None):
        # environments of the frames whose loop bodies run at the yields of
        # a generator being walked (see Enumerator._fuse)
        self.kstack = kstack if kstack is not None else []
        self.env = env if env is not None else {}
        self.attrs = attrs if attrs is not None else {}
        self.facts = facts if facts is not None else {}
        self.conds = conds if conds is not None else []
        self.events = events if events is not None else []

    def fork(self):
        return State(dict(self.env), dict(self.attrs), dict(self.facts),
                     list(self.conds), list(self.events), list(self.kstack))


def _dict_zip_as_comp(v):
    """dict(zip(X.keys(), map(f, X.values()))) and dict(zip(X, map(f,
    X.values()))) as {k: f(x) for k, x in X.items()}; the plain
    dict(zip(X.keys(), X.values())) likewise."""
    if not (isinstance(v, ast.Call) and isinstance(v.func, ast.Name)
            and v.func.id == 'dict' and len(v.args) == 1 and not v.keywords):
        return None
    z = v.args[0]
    if not (isinstance(z, ast.Call) and isinstance(z.func, ast.Name)
            and z.func.id == 'zip' and len(z.args) == 2 and not z.keywords):
        return None
    ks, vs = z.args
    fn = None
    if isinstance(vs, ast.Call) and isinstance(vs.func, ast.Name) and \
            vs.func.id == 'map' and len(vs.args) == 2 and not vs.keywords:
        fn, vs = vs.args
    mk = method_call(ks, 'keys') if isinstance(ks, ast.Call) else None
    mv = method_call(vs, 'values') if isinstance(vs, ast.Call) else None
    if mv is None or vs.args:
        return None
    base = mv[0]
    kbase = mk[0] if mk is not None and not ks.args else ks
    if ast.dump(kbase) != ast.dump(base):
        return None
    k = ast.Name(id='_dz_k', ctx=ast.Load())
    x = ast.Name(id='_dz_v', ctx=ast.Load())
    val = x if fn is None else ast.Call(func=fn, args=[x], keywords=[])
    comp = ast.DictComp(
        key=k, value=val,
        generators=[ast.comprehension(
            target=ast.Tuple(elts=[ast.Name(id='_dz_k', ctx=ast.Store()),
                                   ast.Name(id='_dz_v', ctx=ast.Store())],
                             ctx=ast.Store()),
            iter=ast.Call(func=ast.Attribute(value=base, attr='items',
                                             ctx=ast.Load()),
                          args=[], keywords=[]),
            ifs=[], is_async=0)])
    ast.copy_location(comp, v)
    ast.fix_missing_locations(comp)
    return comp


def node_target_copy(t):
    return t


def is_sym(node):
    return isinstance(node, ast.Name) and node.id.startswith('SYM_')


def const_truth(node):
    """Truthiness of a constant-like expression, else None."""
    if isinstance(node, ast.Constant):
        return bool(node.value)
    if isinstance(node, (ast.List, ast.Tuple, ast.Set)) and not any(
            isinstance(e, ast.Starred) for e in node.elts):
        return bool(node.elts)
    if isinstance(node, ast.Dict):
        return bool(node.keys)
    if isinstance(node, ast.JoinedStr) and not node.values:
        return False
    return None


_HOOK = {'enum': None}


def _property_value(en, name):
    """The expression a read-only property `name` of the current frame's
    class returns, when its body is one call-free `return` over self."""
    fr = en._stack[-1]
    cls = fr.cls
    if cls is None:
        return None
    cache = en.__dict__.setdefault('_props', {})
    k = (cls.qual, name)
    if k in cache:
        return copy.deepcopy(cache[k]) if cache[k] is not None else None
    out = None
    try:
        m = en.prog.find_method(cls.qual, name)
    except Exception:
        m = None
    def is_prop(d):
        return (isinstance(d, ast.Name) and d.id in (
            'property', 'cached_property')) or (
                isinstance(d, ast.Attribute) and d.attr == 'cached_property'
                and isinstance(d.value, ast.Name)
                and d.value.id == 'functools')
    if m is not None and len(m.node.decorator_list) == 1 and is_prop(
            m.node.decorator_list[0]):
        from .util import inert_stmt
        body = [b for b in m.node.body if not inert_stmt(b)]
        if len(body) == 1 and isinstance(body[0], ast.Return) and \
                body[0].value is not None and not has_call(body[0].value):
            v = body[0].value
            private_field = isinstance(v, ast.Attribute) and isinstance(
                v.value, ast.Name) and v.value.id == 'self' and \
                v.attr.startswith('_')
            names = {n.id for n in ast.walk(v) if isinstance(n, ast.Name)}
            setter = any(
                isinstance(d, ast.Attribute) and d.attr in ('setter',
                                                            'deleter')
                and isinstance(d.value, ast.Name) and d.value.id == name
                for c in en.prog.classes.values()
                for f2 in c.methods.values()
                for d in f2.node.decorator_list)
            if not private_field and names <= {'self'} and not setter:
                out = v
        if out is None and len(m.params) == 1 and not any(
                isinstance(n, (ast.Yield, ast.YieldFrom))
                for n in ast.walk(m.node)) and not (
                    len(body) == 1 and isinstance(body[0], ast.Return)):
            # a computed property with a body of its own: reading it runs
            # that body - the call it stands for
            out = ast.Call(func=ast.Attribute(
                value=ast.Name(id='self', ctx=ast.Load()), attr=name,
                ctx=ast.Load()), args=[], keywords=[])
    cache[k] = out
    return copy.deepcopy(out) if out is not None else None


def _fold_lookup(node):
    """Fold lookups whose container is spelled out: a field of a namedtuple
    built right there, an entry of a dict display."""
    en = _HOOK['enum']
    # getattr(o, 'name') is o.name; <option object>.dest is the option's
    # name (an oslo.config option kept in a module-level name)
    if isinstance(node, ast.Call) and isinstance(node.func, ast.Name) and \
            node.func.id == 'getattr' and len(node.args) == 2 and \
            not node.keywords and isinstance(node.args[1], ast.Constant) \
            and isinstance(node.args[1].value, str) and \
            node.args[1].value.isidentifier():
        return ast.copy_location(ast.Attribute(
            value=node.args[0], attr=node.args[1].value, ctx=ast.Load()),
            node)
    if isinstance(node, ast.Call) and en is not None and en._stack and \
            len(node.args) == 1 and not node.keywords and isinstance(
                node.func, (ast.Name, ast.Attribute)):
        # a helper that only re-spells its argument character by character
        try:
            g = en.prog.callee_of(en._stack[-1], node)
        except Exception:
            g = None
        if g is not None and en.prog.is_respelling(g, node.args[0]):
            return node.args[0]
        if g is not None and len(g.params) == 1 and not any(
                isinstance(y, (ast.Yield, ast.YieldFrom))
                for y in ast.walk(g.node)):
            # an identity function: `def f(x): return x`
            from .util import inert_stmt as _inert
            body = [b for b in g.node.body if not _inert(b)]
            if len(body) == 1 and isinstance(body[0], ast.Return) and \
                    isinstance(body[0].value, ast.Name) and \
                    body[0].value.id == g.params[0] and \
                    not g.node.decorator_list:
                return node.args[0]
    ctor = node.func if isinstance(node, ast.Call) else None
    if isinstance(ctor, ast.Name) and ctor.id.startswith('SYM_v') and \
            en is not None and isinstance(en.defs.get(ctor.id), ast.Call):
        ctor = en.defs[ctor.id]
    if isinstance(node, ast.Call) and isinstance(ctor, ast.Call) and \
            not ctor.args and not ctor.keywords and \
            en is not None and en._stack:
        # C()(...) where C.__call__ answers with a constant whatever it is
        # given (a null object built right there)
        try:
            q = en.prog.resolve(en._stack[-1].module, ctor.func)
            m = en.prog.find_method(q, '__call__') if q in \
                en.prog.classes else None
            init = en.prog.find_method(q, '__init__') if q in \
                en.prog.classes else None
        except Exception:
            m = init = None
        if m is not None and (init is None or len(init.params) <= 1):
            from .util import inert_stmt
            body = [b for b in m.node.body if not inert_stmt(b)]
            if len(body) == 1 and isinstance(body[0], ast.Return) and \
                    isinstance(body[0].value, ast.Constant):
                return ast.copy_location(ast.Constant(
                    value=body[0].value.value), node)
    if isinstance(node, ast.Call) and len(node.args) == 2 and \
            not node.keywords and U_(node.func) in (
                'operator.getitem', 'getitem') and (
                    en is None or not en._stack or (en.prog.resolve(
                        en._stack[-1].module, node.func) or '').endswith(
                            'operator.getitem')):
        # operator.getitem(a, b) is a[b]
        return ast.copy_location(ast.Subscript(
            value=node.args[0], slice=node.args[1], ctx=ast.Load()), node)
    if isinstance(node, ast.Attribute) and node.attr == 'dest' and \
            isinstance(node.ctx, ast.Load) and en is not None and isinstance(
                node.value, (ast.Name, ast.Attribute)):
        try:
            q = en.prog.resolve(en._stack[-1].module, node.value)
        except Exception:
            q = None
        if isinstance(q, str) and '.' in q:
            mq, nm = q.rsplit('.', 1)
            mod = en.prog.modules.get(mq) if hasattr(
                en.prog, 'modules') else None
            d = mod.assigns.get(nm) if mod is not None else None
            if isinstance(d, ast.Call) and U_(d.func).endswith('Opt') and \
                    d.args and isinstance(d.args[0], ast.Constant) and \
                    isinstance(d.args[0].value, str):
                return ast.copy_location(ast.Constant(
                    value=d.args[0].value.replace('-', '_')), node)
    if isinstance(node, ast.Attribute) and isinstance(node.ctx, ast.Load) \
            and isinstance(node.value, ast.Name) and node.value.id == 'self' \
            and en is not None and en._stack:
        # self.<computed property>: what the property returns (a getter of
        # a private field keeps its name: it is that field's public alias)
        x = _property_value(en, node.attr)
        if x is not None:
            return x
    if isinstance(node, ast.Attribute) and isinstance(node.ctx, ast.Load) \
            and isinstance(node.value, ast.Call) and en is not None:
        ra = en.prog.record_args(en._stack[-1].module, node.value)
        if ra and node.attr in ra:
            return ra[node.attr]
    if isinstance(node, ast.Subscript) and isinstance(node.ctx, ast.Load):
        v, k = node.value, node.slice
        if isinstance(v, ast.Call) and en is not None and isinstance(
                k, ast.Constant) and isinstance(k.value, int):
            ra = en.prog.record_args(en._stack[-1].module, v)
            if ra and 0 <= k.value < len(ra):
                return list(ra.values())[k.value]
        if isinstance(v, ast.Dict) and v.keys and all(
                isinstance(x, ast.Constant) for x in v.keys):
            if isinstance(k, ast.Constant):
                for kk, vv in zip(v.keys, v.values):
                    if kk.value == k.value and type(kk.value) is type(
                            k.value):
                        return vv
            elif {type(x.value) for x in v.keys} == {bool} and len(
                    v.keys) == 2:
                # {True: a, False: b}[cond]
                d = {x.value: y for x, y in zip(v.keys, v.values)}
                return ast.IfExp(test=k, body=d[True], orelse=d[False])
    if isinstance(node, ast.Call) and isinstance(
            node.func, ast.Attribute) and node.func.attr == 'get' and \
            isinstance(node.func.value, ast.Dict) and node.func.value.keys \
            and all(isinstance(x, ast.Constant)
                    for x in node.func.value.keys) and 1 <= len(
                        node.args) <= 2 and not node.keywords:
        d = node.func.value
        k = node.args[0]
        dflt = node.args[1] if len(node.args) == 2 else ast.Constant(
            value=None)
        if isinstance(k, ast.Constant):
            for kk, vv in zip(d.keys, d.values):
                if kk.value == k.value and type(kk.value) is type(k.value):
                    return vv
            return dflt
        if len(d.keys) <= 4:
            # table.get(key, default): one equality per entry
            out = dflt
            for kk, vv in reversed(list(zip(d.keys, d.values))):
                out = ast.IfExp(test=ast.Compare(
                    left=k, ops=[ast.Eq()], comparators=[kk]), body=vv,
                    orelse=out)
            return out
    return None


def _unroll_display_comp(node):
    """A comprehension over a display written out right there is the display
    of its instances: {k: f(v) for k, v in {'a': x, 'b': y}.items()} is
    {'a': f(x), 'b': f(y)}; [f(x) for x in (a, b)] is [f(a), f(b)]."""
    if not isinstance(node, (ast.DictComp, ast.ListComp,
                             ast.GeneratorExp)) or len(
            node.generators) != 1:
        return node
    if isinstance(node, ast.GeneratorExp) and not (
            isinstance(node.generators[0].iter, (ast.Tuple, ast.List))
            and all(isinstance(e, ast.Constant)
                    for e in node.generators[0].iter.elts)):
        return node     # (only over a table of constants)
    g = node.generators[0]
    if g.ifs or g.is_async:
        return node
    it = g.iter
    rows = None
    if isinstance(it, ast.Call) and isinstance(it.func, ast.Attribute) and \
            it.func.attr in ('items', 'keys', 'values') and not it.args \
            and not it.keywords and isinstance(it.func.value, ast.Dict) \
            and 0 < len(it.func.value.keys) <= 6 and all(
                isinstance(k, ast.Constant) for k in it.func.value.keys):
        d = it.func.value
        if it.func.attr == 'items':
            rows = [ast.Tuple(elts=[k, v], ctx=ast.Load())
                    for k, v in zip(d.keys, d.values)]
        elif it.func.attr == 'keys':
            rows = list(d.keys)
        else:
            rows = list(d.values)
    elif isinstance(it, (ast.Tuple, ast.List)) and not any(
            isinstance(e, ast.Starred) for e in it.elts) and (
                0 < len(it.elts) <= 6 or (0 < len(it.elts) <= 16 and all(
                    isinstance(e, ast.Constant) for e in it.elts))):
        rows = list(it.elts)
    if rows is None:
        return node
    tg = g.target
    out = []
    for r in rows:
        if isinstance(tg, ast.Name):
            env = {tg.id: r}
        elif isinstance(tg, (ast.Tuple, ast.List)) and isinstance(
                r, (ast.Tuple, ast.List)) and len(tg.elts) == len(
                    r.elts) and all(isinstance(x, ast.Name)
                                    for x in tg.elts):
            env = {x.id: y for x, y in zip(tg.elts, r.elts)}
        else:
            return node
        sub = _Subst(env)
        if isinstance(node, ast.DictComp):
            out.append((sub.visit(copy.deepcopy(node.key)),
                        sub.visit(copy.deepcopy(node.value))))
        else:
            out.append(sub.visit(copy.deepcopy(node.elt)))
    if isinstance(node, ast.DictComp):
        return ast.copy_location(ast.Dict(keys=[k for k, _ in out],
                                          values=[v for _, v in out]), node)
    return ast.copy_location(ast.List(elts=out, ctx=ast.Load()), node)


def _strip_count(e, x_txt, side):
    """e is len(X) - len(X.<side>(C)) -> C (ast) else None"""
    if isinstance(e, ast.BinOp) and isinstance(e.op, ast.Sub):
        a, b = e.left, e.right

        def is_len(z):
            return isinstance(z, ast.Call) and isinstance(
                z.func, ast.Name) and z.func.id == 'len' and len(
                    z.args) == 1 and not z.keywords
        if is_len(a) and ast.unparse(a.args[0]) == x_txt and is_len(b):
            c = b.args[0]
            if isinstance(c, ast.Call) and isinstance(
                    c.func, ast.Attribute) and c.func.attr == side and \
                    ast.unparse(c.func.value) == x_txt and len(
                        c.args) == 1 and not c.keywords:
                return c.args[0]
    return None


def _fold_strip_slice(node):
    """X[len(X) - len(X.lstrip(C)) : len(X) - (len(X) - len(X.rstrip(D)))]
    is X.lstrip(C).rstrip(D): the leading run is cut off in front, the
    trailing run behind, and when the two would overlap both are empty."""
    k = node.slice
    if not (isinstance(node.ctx, ast.Load) and isinstance(k, ast.Slice)
            and k.step is None):
        return None
    x_txt = ast.unparse(node.value)
    out = node.value
    if k.lower is not None:
        c = _strip_count(k.lower, x_txt, 'lstrip')
        if c is None:
            return None
        out = ast.Call(func=ast.Attribute(value=out, attr='lstrip',
                                          ctx=ast.Load()), args=[c],
                       keywords=[])
    if k.upper is not None:
        u = k.upper
        if not (isinstance(u, ast.BinOp) and isinstance(u.op, ast.Sub)
                and ast.unparse(u.left) == 'len(%s)' % x_txt):
            return None
        d = _strip_count(u.right, x_txt, 'rstrip')
        if d is None:
            return None
        out = ast.Call(func=ast.Attribute(value=out, attr='rstrip',
                                          ctx=ast.Load()), args=[d],
                       keywords=[])
    if out is node.value:
        return None
    return ast.copy_location(out, node)


class _Subst(ast.NodeTransformer):
    def __init__(self, env, attrs=None):
        self.env = env
        self.attrs = attrs
        self.shadow = []
        self.dotted = any('.' in k for k in env)

    def _shadowed(self, name):
        return any(name in s for s in self.shadow)

    def visit_Name(self, node):
        if isinstance(node.ctx, ast.Load) and node.id in self.env \
                and not self._shadowed(node.id):
            return copy.deepcopy(self.env[node.id])
        return node

    def visit_Attribute(self, node):
        if isinstance(node.ctx, ast.Load) and self.dotted and \
                isinstance(node.value, ast.Name) and not self._shadowed(
                    node.value.id):
            k = node.value.id + '.' + node.attr
            if k in self.env:
                return copy.deepcopy(self.env[k])
        if self.attrs and isinstance(node.ctx, ast.Load):
            try:
                t = ast.unparse(node)
            except Exception:
                t = None
            if t in self.attrs:
                return copy.deepcopy(self.attrs[t])
        node = self.generic_visit(node)
        f = _fold_lookup(node)
        return f if f is not None else node

    def visit_Subscript(self, node):
        node = self.generic_visit(node)
        f = _fold_lookup(node)
        if f is not None:
            return f
        st = _fold_strip_slice(node)
        if st is not None:
            return st
        # (a, b, c, d)[:3] / [1:] / [0] of a display written out right there
        v, k = node.value, node.slice
        if isinstance(node.ctx, ast.Load) and isinstance(
                v, (ast.Tuple, ast.List)) and isinstance(
                    k, ast.Constant) and type(k.value) is int and not any(
                        isinstance(e, ast.Starred) for e in v.elts) and \
                -len(v.elts) <= k.value < len(v.elts):
            return v.elts[k.value]
        if isinstance(node.ctx, ast.Load) and isinstance(
                v, (ast.Tuple, ast.List)) and isinstance(k, ast.Slice) and \
                k.step is None and not any(isinstance(e, ast.Starred)
                                           for e in v.elts) and all(
                    b is None or (isinstance(b, ast.Constant)
                                  and isinstance(b.value, int))
                    for b in (k.lower, k.upper)):
            lo = k.lower.value if k.lower is not None else None
            hi = k.upper.value if k.upper is not None else None
            return ast.copy_location(type(v)(elts=v.elts[lo:hi],
                                             ctx=ast.Load()), node)
        return node

    def visit_BinOp(self, node):
        node = self.generic_visit(node)
        a, b = node.left, node.right
        if isinstance(a, ast.Constant) and isinstance(b, ast.Constant) and \
                type(a.value) is int and type(b.value) is int and isinstance(
                    node.op, (ast.Add, ast.Sub, ast.Mult)) and abs(
                        a.value) < 10 ** 6 and abs(b.value) < 10 ** 6:
            r = {ast.Add: a.value + b.value, ast.Sub: a.value - b.value,
                 ast.Mult: a.value * b.value}[type(node.op)]
            return ast.copy_location(ast.Constant(value=r), node)
        return node

    def visit_Call(self, node):
        node = self.generic_visit(node)
        f = _fold_lookup(node)
        if f is not None:
            return f
        # len of a display written out right there
        if isinstance(node.func, ast.Name) and node.func.id == 'len' and \
                len(node.args) == 1 and not node.keywords and isinstance(
                    node.args[0], (ast.Tuple, ast.List)) and not any(
                        isinstance(e, ast.Starred)
                        for e in node.args[0].elts) and not self._shadowed(
                            'len'):
            return ast.copy_location(ast.Constant(
                value=len(node.args[0].elts)), node)
        if isinstance(node.func, ast.IfExp):
            # (f if c else g)(args) is f(args) if c else g(args)
            return ast.IfExp(
                test=node.func.test,
                body=self.visit_Call(ast.Call(
                    func=node.func.body, args=node.args,
                    keywords=node.keywords)),
                orelse=self.visit_Call(ast.Call(
                    func=node.func.orelse, args=copy.deepcopy(node.args),
                    keywords=copy.deepcopy(node.keywords))))
        # f(*(<a>, <b>), **{'k': <v>}) is f(<a>, <b>, k=<v>)
        if any(isinstance(a, ast.Starred) and isinstance(
                a.value, (ast.Tuple, ast.List)) for a in node.args):
            args = []
            for a in node.args:
                if isinstance(a, ast.Starred) and isinstance(
                        a.value, (ast.Tuple, ast.List)) and not any(
                            isinstance(x, ast.Starred)
                            for x in a.value.elts):
                    args.extend(a.value.elts)
                else:
                    args.append(a)
            node.args = args
        if any(k.arg is None and isinstance(k.value, ast.Dict)
               for k in node.keywords):
            kws = []
            for k in node.keywords:
                if k.arg is None and isinstance(k.value, ast.Dict) and all(
                        isinstance(x, ast.Constant) and isinstance(
                            x.value, str) for x in k.value.keys):
                    for kk, vv in zip(k.value.keys, k.value.values):
                        kws.append(ast.keyword(arg=kk.value, value=vv))
                else:
                    kws.append(k)
            node.keywords = kws
        return node

    def _comp(self, node):
        bound = set()
        for g in node.generators:
            for n in ast.walk(g.target):
                if isinstance(n, ast.Name):
                    bound.add(n.id)
        # first iterable is evaluated in the enclosing scope
        first = node.generators[0]
        first.iter = self.visit(first.iter)
        self.shadow.append(bound)
        try:
            for i, g in enumerate(node.generators):
                if i:
                    g.iter = self.visit(g.iter)
                g.ifs = [self.visit(x) for x in g.ifs]
            if isinstance(node, ast.DictComp):
                node.key = self.visit(node.key)
                node.value = self.visit(node.value)
            else:
                node.elt = self.visit(node.elt)
        finally:
            self.shadow.pop()
        return _unroll_display_comp(node)

    visit_ListComp = visit_SetComp = visit_GeneratorExp = _comp
    visit_DictComp = _comp

    def visit_Lambda(self, node):
        a = node.args
        bound = {x.arg for x in a.posonlyargs + a.args + a.kwonlyargs}
        if a.vararg:
            bound.add(a.vararg.arg)
        if a.kwarg:
            bound.add(a.kwarg.arg)
        self.shadow.append(bound)
        try:
            node.body = self.visit(node.body)
        finally:
            self.shadow.pop()
        return node


def _replace_node(root, old, new):
    """Copy of root with the node `old` (by identity) replaced by `new`."""
    # deepcopy keeps no identity: mark the node first
    old._pv_mark = True
    try:
        cp = copy.deepcopy(root)
    finally:
        del old._pv_mark

    class R2(ast.NodeTransformer):
        def visit(self, node):
            if getattr(node, '_pv_mark', False):
                return new
            return self.generic_visit(node)
    return R2().visit(cp)


def subst(expr, env, attrs=None):
    if expr is None:
        return None
    if not env and not attrs and _HOOK['enum'] is None:
        return expr
    return _Subst(env, attrs).visit(copy.deepcopy(expr))


def has_call(expr):
    for n in ast.walk(expr):
        if isinstance(n, (ast.Call, ast.Yield, ast.YieldFrom, ast.Await,
                          ast.ListComp, ast.SetComp, ast.DictComp,
                          ast.GeneratorExp, ast.NamedExpr)):
            return True
    return False


def key_of(expr):
    return ast.dump(expr, annotate_fields=False)


def _mentions(text, path):
    return path in text


class Enumerator:
    """Enumerate acyclic paths of one function (optionally inlining callees).

    inline(call_expr, frame_finfo) -> FunctionInfo or None decides which
    package-internal calls are expanded in place.
    writes(finfo) -> set of 'self.attr' texts a callee may write (or None for
    "unknown, assume everything rooted at self").
    """

    def __init__(self, prog, finfo, env0=None, inline=None, writes=None,
                 max_paths=60000, max_depth=3, loop_iters=(0, 1),
                 handler_paths=True, track_attrs=True, quantifiers=True,
                 comps=False, split_returns=False, unroll=True,
                 closures=False, self_cls=None):
        self.prog = prog
        self.finfo = finfo
        self.inline = inline
        self.writes = writes
        self.max_paths = max_paths
        self.max_depth = max_depth
        self.loop_iters = loop_iters
        self.handler_paths = handler_paths
        self.track_attrs = track_attrs
        self.quantifiers = quantifiers
        self.comps = comps
        self.split_returns = split_returns
        self.unroll = unroll
        self.closures = closures
        self.self_cls = self_cls
        self.defs = {}
        self._n = 0
        self._stack = []
        self.env0 = env0 or {}
        self._count = 0

    # -------------------------------------------------------------- symbols
    def fresh(self, definition, hint='v'):
        self._n += 1
        s = 'SYM_%s%d' % (hint, self._n)
        self.defs[s] = definition
        return ast.Name(id=s, ctx=ast.Load())

    def expand(self, expr, depth=6):
        """Replace symbols by their defining expressions (for matching)."""
        if depth <= 0 or expr is None:
            return expr
        enum = self

        touched = self.__dict__.get('_touched', ())

        class X(ast.NodeTransformer):
            def visit_Name(self, node):
                if node.id in enum.defs:
                    d = enum.defs[node.id]
                    if isinstance(d, ast.AST):
                        return enum.expand(d, depth - 1)
                return node

            def _comp(self, node):
                # a comprehension over a display nothing was done to
                g = node.generators[0] if len(node.generators) == 1 else None
                base = None
                if g is not None:
                    it = g.iter
                    if isinstance(it, ast.Call) and isinstance(
                            it.func, ast.Attribute):
                        it = it.func.value
                    if isinstance(it, ast.Name) and it.id.startswith(
                            'SYM_m') and it.id not in touched:
                        base = it.id
                node = self.generic_visit(node)
                return _unroll_display_comp(node) if base else node
            visit_DictComp = visit_ListComp = _comp

            def visit_Call(self, node):
                # f(**d) where d names a display {'k': v} nothing was done
                # to is f(k=v)
                syms = [k.value.id for k in node.keywords
                        if k.arg is None and isinstance(k.value, ast.Name)]
                node = self.generic_visit(node)
                kws = []
                i = 0
                for k in node.keywords:
                    if k.arg is None:
                        sym = syms[i] if i < len(syms) else None
                        i += 1 if isinstance(k.value, ast.Dict) or True else 0
                        if isinstance(k.value, ast.Dict) and k.value.keys \
                                and all(isinstance(x, ast.Constant)
                                        and isinstance(x.value, str)
                                        for x in k.value.keys) and (
                                    sym is None or sym not in touched):
                            for kk, vv in zip(k.value.keys, k.value.values):
                                kws.append(ast.keyword(arg=kk.value,
                                                       value=vv))
                            continue
                    kws.append(k)
                node.keywords = kws
                return node
        return X().visit(copy.deepcopy(expr))

    # ----------------------------------------------------------------- run
    def const_env(self, finfo):
        """Module- and class-level immutable constants visible in finfo,
        as an initial environment (hoisted keyword tuples, prefixes...)."""
        cache = self.__dict__.setdefault('_cenv', {})
        if finfo.qual in cache:
            return dict(cache[finfo.qual])
        local = set()
        a = finfo.node.args
        for x in a.posonlyargs + a.args + a.kwonlyargs:
            local.add(x.arg)
        if a.vararg:
            local.add(a.vararg.arg)
        if a.kwarg:
            local.add(a.kwarg.arg)
        for n in ast.walk(finfo.node):
            if isinstance(n, ast.Name) and isinstance(n.ctx, (ast.Store,
                                                              ast.Del)):
                local.add(n.id)
        out = {}
        for nm, lit in self.prog.module_constants(
                finfo.module, names_ok=True).items():
            fn_table = isinstance(lit, (ast.Tuple, ast.List)) and lit.elts \
                and all(isinstance(x, ast.Name) and '%s.%s' % (
                    finfo.module.name, x.id) in self.prog.functions
                    for x in lit.elts)
            if nm not in local and (isinstance(lit, (ast.Dict, ast.Call))
                                    or fn_table or not any(
                    isinstance(x, (ast.Name, ast.Attribute))
                    for x in ast.walk(lit))):
                # plain constants, and lookup tables (whose values may name
                # functions of this module)
                out[nm] = lit
        # plain constants of other modules of the program, reached through
        # the importing name (`opts._DEFAULT`)
        for alias, target in getattr(finfo.module, 'imports', {}).items():
            om = self.prog.modules.get(target) if isinstance(
                target, str) else None
            if om is None or alias in local or om is finfo.module:
                continue
            for nm, lit in self.prog.module_constants(om).items():
                if isinstance(lit, ast.Constant):
                    out['%s.%s' % (alias, nm)] = lit
        if finfo.cls is not None and finfo.params and not finfo.is_static:
            recv = finfo.params[0]
            cq = finfo.cls.qual
            if self.self_cls and cq in self.prog.mro(self.self_cls):
                cq = self.self_cls        # the concrete class under analysis
            for nm, lit in self.prog.class_constants(
                    cq, names_ok=True).items():
                out['%s.%s' % (recv, nm)] = lit
                if finfo.cls.name not in local:
                    out['%s.%s' % (finfo.cls.name, nm)] = lit
        cache[finfo.qual] = out
        return dict(out)

    def run(self):
        old_hook = _HOOK['enum']
        old_hint = getattr(self.prog, '_self_cls_hint', None)
        _HOOK['enum'] = self
        self.prog._self_cls_hint = self.self_cls
        try:
            return self._run()
        finally:
            _HOOK['enum'] = old_hook
            self.prog._self_cls_hint = old_hint

    def _wrapper_of(self, finfo):
        return self.prog.wrapper_of(finfo)

    def _run(self):
        self._stack = [self.finfo]
        env = self.const_env(self.finfo)
        env.update(self.env0)
        st = State(env=env)
        out = []
        body = self.finfo.node.body
        wrapped = self._wrapper_of(self.finfo)
        if wrapped is not None:
            # @decorator whose result is a nested wrapper calling the
            # function: what runs is the wrapper, with the function bound
            # to the decorator's parameter
            wnode, pname = wrapped[0], wrapped[1]
            if len(wrapped) > 2:
                st.env.update(wrapped[2])
            fsym = self.fresh(self.finfo.node, 'f')
            self.__dict__.setdefault('_decor_syms', set()).add(fsym.id)
            st.env[pname] = fsym
            body = wnode.body
        for s, status in self.block(body, st, []):
            if status[0] in ('next', 'break', 'continue'):
                oc = Outcome('end', None, getattr(self.finfo.node,
                                                  'end_lineno', 0),
                             self.finfo.qual)
            else:
                oc = Outcome(status[0], status[1], status[2], status[3])
            out.append(Path(s.conds, s.events, oc, s.env))
            self._count += 1
            if self._count > self.max_paths:
                raise AnalysisError('path explosion in %s' % self.finfo.qual)
        return out

    @property
    def frame(self):
        return self._stack[-1].qual

    # ------------------------------------------------------------ branching
    def _norm_test(self, test):
        """(expr, flip): normalise negative comparison spellings."""
        if isinstance(test, ast.Compare) and len(test.ops) == 1:
            op = test.ops[0]
            neg = {ast.NotEq: ast.Eq, ast.NotIn: ast.In, ast.IsNot: ast.Is}
            for k, v in neg.items():
                if isinstance(op, k):
                    t = ast.Compare(left=test.left, ops=[v()],
                                    comparators=test.comparators)
                    return ast.copy_location(t, test), True
        return test, False

    def _fold(self, test):
        t = const_truth(test)
        if t is not None:
            return t
        if isinstance(test, ast.Compare) and len(test.ops) == 1:
            a, b = test.left, test.comparators[0]
            op = test.ops[0]
            if isinstance(a, ast.Constant) and isinstance(b, ast.Constant):
                if isinstance(op, ast.Eq):
                    return a.value == b.value
                if isinstance(op, ast.Is):
                    if a.value is None or b.value is None or isinstance(
                            a.value, bool) or isinstance(b.value, bool):
                        return a.value is b.value
            if isinstance(op, ast.Is) and isinstance(b, ast.Name) and \
                    not b.id.startswith('SYM_'):
                # identity with a sentinel object
                if isinstance(a, ast.Name) and a.id == b.id:
                    return True
                if (key_of(a), b.id) in self.__dict__.get('_notsent', ()):
                    return False
                # a private module-level `object()` is only ever what the
                # code itself hands around under that name: a value whose
                # whole derivation never mentions the name is not it
                try:
                    sent = self._is_sentinel(self._stack[-1].module, b.id) \
                        and self._sentinel_private(self._stack[-1].module,
                                                   b.id)
                except Exception:
                    sent = False
                if sent and isinstance(a, ast.Name) and not a.id.startswith(
                        'SYM_') and a.id in self._stack[-1].params and \
                        self._sentinel_private(self._stack[-1].module, b.id,
                                               strict=True):
                    # what a caller hands in is not an object that never
                    # leaves this module (it is neither returned nor passed
                    # on anywhere)
                    return False
                if sent and not isinstance(a, ast.Name) or (
                        sent and isinstance(a, ast.Name)
                        and a.id.startswith('SYM_')):
                    full = self.expand(a)
                    if not any(isinstance(n, ast.Name) and n.id == b.id
                               for n in ast.walk(full)) and not any(
                            isinstance(n, ast.Name) and n.id.startswith(
                                ('SYM_u', 'SYM_e', 'SYM_x'))
                            for n in ast.walk(full)):
                        return False
            if isinstance(op, ast.Is) and isinstance(b, ast.Attribute) \
                    and self._class_sentinel(b):
                # the same for a private class-level `object()` read as
                # self.X / cls.X / Class.X
                if isinstance(a, ast.Attribute) and a.attr == b.attr and \
                        self._class_sentinel(a):
                    return True
                if (key_of(a), U_(b)) in self.__dict__.get('_notsent', ()):
                    return False
                full = self.expand(a)
                if not any(isinstance(n, ast.Attribute) and n.attr == b.attr
                           for n in ast.walk(full)) and not any(
                        isinstance(n, ast.Name) and n.id.startswith(
                            ('SYM_u', 'SYM_e', 'SYM_x'))
                        for n in ast.walk(full)):
                    return False
            if isinstance(op, ast.Is) and isinstance(b, ast.Constant) \
                    and b.value is None:
                if isinstance(a, (ast.List, ast.Tuple, ast.Dict, ast.Set,
                                  ast.JoinedStr, ast.BinOp, ast.Compare,
                                  ast.ListComp, ast.SetComp, ast.DictComp,
                                  ast.GeneratorExp, ast.Lambda)):
                    # the value of such an expression is never None
                    return False
                if key_of(a) in self.__dict__.get('_notnone', ()):
                    return False
                if self._is_record_ctor(a):
                    return False
                d = self.defs.get(a.id) if isinstance(a, ast.Name) else a
                if isinstance(d, ast.Call) and isinstance(
                        d.func, ast.Attribute) and d.func.attr in (
                            'split', 'rsplit', 'splitlines', 'partition',
                            'rpartition', 'strip', 'lstrip', 'rstrip',
                            'lower', 'upper', 'casefold', 'title', 'join',
                            'format', 'replace', 'encode', 'decode',
                            'items', 'keys', 'values', 'copy'):
                    # the str / dict methods of these names answer with an
                    # object
                    return False
                if isinstance(d, ast.Call) and isinstance(
                        d.func, ast.Name) and d.func.id in self.NEVER_NONE \
                        and self.prog.resolve(
                            self._stack[-1].module, d.func) == \
                        'builtin:' + d.func.id:
                    return False
                if isinstance(d, (ast.List, ast.Tuple, ast.Dict, ast.Set,
                                  ast.JoinedStr, ast.ListComp, ast.SetComp,
                                  ast.DictComp, ast.GeneratorExp)):
                    return False
            if isinstance(op, ast.In) and isinstance(a, ast.Constant) \
                    and isinstance(b, (ast.List, ast.Tuple, ast.Set)) \
                    and all(isinstance(e, ast.Constant) for e in b.elts):
                return a.value in [e.value for e in b.elts]
        return None

    def branch(self, test, st, line=None, substituted=False):
        """Yield (state, truth) for each primitive short-circuit outcome.

        truth is a bool, or a ('raise', ...) status tuple when evaluating the
        test raises on that path (inlined callee).  With substituted=True
        the test has already been substituted with the environment."""
        if line is None:
            line = getattr(test, 'lineno', 0)
        if isinstance(test, ast.UnaryOp) and isinstance(test.op, ast.Not):
            for s, t in self.branch(test.operand, st, line, substituted):
                yield s, (t if isinstance(t, tuple) else (not t))
            return
        if isinstance(test, ast.BoolOp):
            first, rest = test.values[0], test.values[1:]
            is_and = isinstance(test.op, ast.And)
            for s, t in self.branch(first, st, line, substituted):
                if isinstance(t, tuple) or is_and != t or not rest:
                    # raise, short circuit (and/False, or/True), last operand
                    yield s, t
                else:
                    nxt = rest[0] if len(rest) == 1 else ast.BoolOp(
                        op=test.op, values=rest)
                    yield from self.branch(nxt, s, line, substituted)
            return
        if isinstance(test, ast.IfExp):
            for s, t in self.branch(test.test, st, line, substituted):
                if isinstance(t, tuple):
                    yield s, t
                else:
                    yield from self.branch(test.body if t else test.orelse,
                                           s, line, substituted)
            return
        # primitive: substitute locals (and tracked attributes)
        prim = test if substituted else subst(test, st.env)
        prim = self._unpartial(prim)
        if self._first_walrus(prim) is not None:
            for s, v2, rs in self._hoist_walrus(prim, st, [], test):
                if rs is not None:
                    yield s, rs
                else:
                    yield from self.branch(v2, s, line, True)
            return
        special = None
        if self._next_call(prim) is not None or self._is_record_ctor(prim):
            special = prim
        elif isinstance(prim, ast.Compare) and len(prim.ops) == 1:
            for side in (prim.left, prim.comparators[0]):
                if self._next_call(side) is not None:
                    special = side
        if special is not None:
            for s, val, rs in self._eval_substituted(special, st, [], test):
                if rs is not None:
                    yield s, rs
                    continue
                new = val if special is prim else _replace_node(
                    prim, special, val)
                if self._is_record_ctor(new):
                    yield s, True          # a namedtuple with fields
                else:
                    yield from self.branch(new, s, line, True)
            return
        norm = self._truth_equivalent(prim)
        if norm is not None:
            yield from self.branch(norm, st, line, True)
            return
        if isinstance(prim, (ast.BoolOp, ast.IfExp)) or (
                isinstance(prim, ast.UnaryOp)
                and isinstance(prim.op, ast.Not)):
            # a local bound to a boolean expression: split it too
            yield from self.branch(prim, st, line, True)
            return
        if is_sym(prim) and isinstance(self.defs.get(prim.id), (
                ast.Compare, ast.BoolOp, ast.IfExp)) or (
                is_sym(prim) and isinstance(self.defs.get(prim.id),
                                            ast.UnaryOp)
                and isinstance(self.defs[prim.id].op, ast.Not)) or (
                is_sym(prim) and self._quantifier(self.defs.get(prim.id))):
            # a value computed earlier (local, inlined helper result) whose
            # structure decides the branch
            yield from self.branch(self.defs[prim.id], st, line, True)
            return
        q = self._quantifier(prim)
        if q is not None:
            yield from self._branch_quant(q, prim, st, line)
            return
        mq = self._membership(prim)
        if mq is not None:
            neg, anyq = mq
            for s, t in self._branch_quant(('any', anyq.args[0]), anyq, st,
                                           line):
                yield s, (t if isinstance(t, tuple) else (t != neg))
            return
        if (self.inline is not None or self.closures) and len(
                self._stack) <= self.max_depth:
            done = False
            for s, e2, rs in self._inline_in_test(prim, st, line):
                done = True
                if rs is not None:
                    yield s, rs
                elif e2 is prim:
                    yield from self._branch_prim(prim, s, line)
                else:
                    yield from self.branch(e2, s, line, True)
            if done:
                return
        yield from self._branch_prim(prim, st, line)

    def _truth_equivalent(self, prim):
        """bool(x), len(x), len(x) > 0, len(x) == 0 ... as the truth test
        of x they stand for."""
        def is_builtin(call, name):
            return isinstance(call, ast.Call) and isinstance(
                call.func, ast.Name) and call.func.id == name and len(
                    call.args) == 1 and not call.keywords and \
                self.prog.resolve(self._stack[-1].module, call.func) == \
                'builtin:' + name
        if is_builtin(prim, 'bool') or is_builtin(prim, 'len'):
            return prim.args[0]
        # x[k:] is non-empty exactly when len(x) > k   (k >= 0)
        if isinstance(prim, ast.Subscript) and isinstance(
                prim.slice, ast.Slice) and prim.slice.upper is None and \
                prim.slice.step is None and isinstance(
                    prim.slice.lower, ast.Constant) and isinstance(
                        prim.slice.lower.value, int) and \
                prim.slice.lower.value >= 1:
            return ast.Compare(
                left=ast.Call(func=ast.Name(id='len', ctx=ast.Load()),
                              args=[prim.value], keywords=[]),
                ops=[ast.Gt()],
                comparators=[ast.Constant(value=prim.slice.lower.value)])
        if isinstance(prim, ast.Compare) and len(prim.ops) == 1:
            a, b, op = prim.left, prim.comparators[0], prim.ops[0]
            name = type(op).__name__
            # bool(x) == True / is False ...
            for x, y in ((a, b), (b, a)):
                if is_builtin(x, 'bool') and isinstance(
                        y, ast.Constant) and isinstance(y.value, bool) and \
                        name in ('Eq', 'Is', 'NotEq', 'IsNot'):
                    pos = y.value == (name in ('Eq', 'Is'))
                    return x.args[0] if pos else ast.UnaryOp(
                        op=ast.Not(), operand=x.args[0])
            if isinstance(a, ast.Constant) and is_builtin(b, 'len'):
                a, b = b, a
                name = {'Lt': 'Gt', 'Gt': 'Lt', 'LtE': 'GtE',
                        'GtE': 'LtE'}.get(name, name)
            if is_builtin(a, 'len') and isinstance(b, ast.Constant) and \
                    isinstance(b.value, int) and not isinstance(b.value,
                                                                bool):
                x = a.args[0]
                neg = ast.UnaryOp(op=ast.Not(), operand=x)
                k = b.value
                if (name, k) in (('Gt', 0), ('GtE', 1), ('NotEq', 0)):
                    return x
                if (name, k) in (('Eq', 0), ('Lt', 1), ('LtE', 0)):
                    return neg
        return None

    def _is_sentinel(self, module, name):
        """a module-level name bound once to object()"""
        v = module.assigns.get(name)
        return name in self.prog._module_const_names(module) and \
            isinstance(v, ast.Call) and isinstance(v.func, ast.Name) and \
            v.func.id == 'object' and not v.args

    def _class_sentinel(self, e):
        """`e` reads a class attribute bound to object() in a class body
        that nothing stores to and that only occurs as an operand of `is`,
        as a call argument, or as the value of a plain local assignment or
        return."""
        if not (isinstance(e, ast.Attribute) and isinstance(e.value,
                                                            ast.Name)):
            return False
        cache = self.__dict__.setdefault('_cls_sent', {})
        name = e.attr
        if name not in cache:
            from .util import parent_map
            defs = [c for c in self.prog.classes.values()
                    if name in c.class_attrs]
            ok = len(defs) == 1
            if ok:
                v = defs[0].class_attrs[name]
                ok = isinstance(v, ast.Call) and isinstance(
                    v.func, ast.Name) and v.func.id == 'object' and \
                    not v.args
            if ok:
                for m in self.prog.units:
                    pm = None
                    for n in ast.walk(m.tree):
                        if isinstance(n, ast.Attribute) and n.attr == name:
                            if not isinstance(n.ctx, ast.Load):
                                ok = False
                                continue
                            pm = pm or parent_map(m.tree)
                            par = pm.get(n)
                            if isinstance(par, ast.Compare) or (
                                    isinstance(par, ast.Call)
                                    and n in par.args) or isinstance(
                                        par, ast.Return) or (
                                    isinstance(par, ast.IfExp)
                                    and n is not par.test) or (
                                    isinstance(par, ast.Assign)
                                    and par.value is n and all(
                                        isinstance(t, ast.Name)
                                        for t in par.targets)):
                                continue
                            ok = False
                        elif isinstance(n, ast.Constant) and n.value == name:
                            ok = False      # getattr / setattr by name
            cache[name] = defs[0].qual if ok else None
        q = cache[name]
        if q is None:
            return False
        if e.value.id in ('self', 'cls'):
            f = self._stack[-1]
            return f.cls is not None and q in self.prog.mro(f.cls.qual)
        return self.prog.resolve(self._stack[-1].module, e.value) == q

    def _sentinel_private(self, module, name, strict=False):
        """The sentinel never gets into a container or an attribute: the
        name only occurs as an operand of `is` / `is not`, as a call argument
        (a default handed to .get / getattr / next) or as the value of a
        plain local assignment."""
        cache = self.__dict__.setdefault('_sent_private', {})
        k = (module.name, name, strict)
        if k in cache:
            return cache[k]
        from .util import parent_map
        ok = True
        pm = parent_map(module.tree)
        for n in ast.walk(module.tree):
            if not (isinstance(n, ast.Name) and n.id == name
                    and isinstance(n.ctx, ast.Load)):
                continue
            par = pm.get(n)
            if isinstance(par, ast.Compare):
                continue
            if isinstance(par, ast.Call) and n in par.args and not strict:
                continue
            if isinstance(par, ast.Assign) and par.value is n and all(
                    isinstance(t, ast.Name) for t in par.targets):
                continue
            if isinstance(par, ast.Return) and not strict:
                continue
            ok = False
        # ... and nothing outside the module imports it
        for m in self.prog.units:
            if m is module:
                continue
            if any(isinstance(x, ast.Attribute) and x.attr == name
                   for x in ast.walk(m.tree)) or any(
                    isinstance(x, ast.alias) and x.name == name
                    for x in ast.walk(m.tree)):
                ok = False
        cache[k] = ok
        return ok

    def _inline_target(self, call, gen=False):
        if not isinstance(call, ast.Call):
            return None
        if gen and self.inline is not None and hasattr(self.inline, 'gen'):
            callee = self.inline.gen(call, self._stack[-1])
            if callee is None or callee in self._stack:
                return None
            return callee
        if (self.closures or (isinstance(call.func, ast.Name) and
                              call.func.id in self.__dict__.get(
                                  '_decor_syms', ()))) and isinstance(
                call.func, ast.Name) and call.func.id.startswith('SYM_f'):
            d = self.defs.get(call.func.id)
            if isinstance(d, ast.FunctionDef) and not any(
                    isinstance(x, (ast.Yield, ast.YieldFrom))
                    for x in ast.walk(d)):
                cache = self.__dict__.setdefault('_closures', {})
                fi = cache.get(id(d))
                if fi is None:
                    from .model import FunctionInfo
                    fi = FunctionInfo(self._stack[-1].module, d)
                    fi.qual = '%s.<locals>.%s' % (self._stack[-1].qual,
                                                  d.name)
                    fi.closure = True
                    cache[id(d)] = fi
                return None if fi in self._stack else fi
        if self.inline is None:
            return None
        callee = self.inline(call, self._stack[-1])
        if callee is None or callee in self._stack:
            return None
        return callee

    def _inline_in_test(self, prim, st, line):
        """Inline a helper called as the test itself or as one operand of a
        comparison.  Yields (state, new test, raise status); nothing when
        there is nothing to inline."""
        if isinstance(prim, ast.Call):
            callee = self._inline_target(prim)
            if callee is not None:
                for s, rv, rs in self._inline(prim, callee, st, []):
                    yield s, rv, rs
            return
        if isinstance(prim, ast.Compare) and len(prim.ops) == 1:
            for side in ('left', 'right'):
                operand = prim.left if side == 'left' else \
                    prim.comparators[0]
                callee = self._inline_target(operand)
                if callee is None:
                    continue
                for s, rv, rs in self._inline(operand, callee, st, []):
                    if rs is not None:
                        yield s, None, rs
                        continue
                    new = ast.Compare(
                        left=rv if side == 'left' else prim.left,
                        ops=prim.ops,
                        comparators=[rv] if side == 'right'
                        else prim.comparators)
                    yield s, ast.copy_location(new, prim), None
                return

    def _quantifier(self, prim):
        """('any'|'all', comprehension) for any(<one-generator comp>)."""
        if isinstance(prim, ast.Call) and isinstance(prim.func, ast.Name) \
                and prim.func.id in ('any', 'all') and len(prim.args) == 1 \
                and not prim.keywords and self.quantifiers:
            comp = self._as_comprehension(prim.args[0])
            if comp is not None and self.prog.resolve(
                    self._stack[-1].module, prim.func) == \
                    'builtin:' + prim.func.id:
                return prim.func.id, comp
        return None

    def _as_comprehension(self, e, depth=4):
        """A one-generator comprehension denoting the elements of e:
        e itself, a symbol defined as one, set()/list()/tuple()/frozenset()/
        sorted()/iter() of one, or map(f, S)."""
        if depth <= 0:
            return None
        if isinstance(e, ast.Name) and e.id in self.defs and isinstance(
                self.defs[e.id], ast.AST):
            return self._as_comprehension(self.defs[e.id], depth - 1)
        if isinstance(e, (ast.ListComp, ast.SetComp, ast.GeneratorExp)):
            if len(e.generators) == 1 and not e.generators[0].is_async:
                return e
            return None
        if isinstance(e, ast.Call):
            g = None
            try:
                g = self.prog.callee_of(self._stack[-1], e)
            except Exception:
                g = None
            if g is not None and g not in self._stack:
                body = [b for b in g.node.body if not (
                    isinstance(b, ast.Expr) and isinstance(b.value,
                                                           ast.Constant))]
                if len(body) == 1 and isinstance(body[0], ast.Return) and \
                        isinstance(body[0].value, (
                            ast.GeneratorExp, ast.ListComp, ast.SetComp)) \
                        and len(body[0].value.generators) == 1:
                    # a function that just hands back a comprehension
                    env = self._bind_args(e, g)
                    if env is not None:
                        return subst(body[0].value, env)
                if len(body) == 1 and isinstance(body[0], ast.Expr) and \
                        isinstance(body[0].value, ast.YieldFrom):
                    body = self._desugar_yield_from(body[0].value.value,
                                                    g.node.lineno) or body
                if len(body) == 1 and isinstance(body[0], ast.For) and \
                        not body[0].orelse:
                    lp = body[0]
                    inner = lp.body
                    ifs = []
                    while len(inner) == 1 and isinstance(inner[0], ast.If) \
                            and not inner[0].orelse:
                        ifs.append(inner[0].test)
                        inner = inner[0].body
                    if len(inner) == 1 and isinstance(inner[0], ast.Expr) \
                            and isinstance(inner[0].value, ast.Yield) and \
                            inner[0].value.value is not None:
                        env = self._bind_args(e, g)
                        if env is not None:
                            bound = {n.id for n in ast.walk(lp.target)
                                     if isinstance(n, ast.Name)}
                            env = {k: v for k, v in env.items()
                                   if k not in bound}
                            return ast.GeneratorExp(
                                elt=subst(inner[0].value.value, env),
                                generators=[ast.comprehension(
                                    target=lp.target,
                                    iter=subst(lp.iter, env),
                                    ifs=[subst(c, env) for c in ifs],
                                    is_async=0)])
        if isinstance(e, ast.Call) and isinstance(e.func, ast.Name) and \
                not e.keywords:
            if e.func.id in ('set', 'list', 'tuple', 'frozenset', 'sorted',
                             'iter') and len(e.args) == 1:
                return self._as_comprehension(e.args[0], depth - 1)
            if e.func.id == 'map' and len(e.args) == 2:
                v = ast.Name(id='_mx', ctx=ast.Load())
                return ast.GeneratorExp(
                    elt=ast.Call(func=e.args[0], args=[v], keywords=[]),
                    generators=[ast.comprehension(
                        target=ast.Name(id='_mx', ctx=ast.Store()),
                        iter=e.args[1], ifs=[], is_async=0)])
        return None

    def _membership(self, prim):
        """`x in <comprehension>` as any(x == elt for ...)."""
        if not self.quantifiers or not isinstance(prim, ast.Compare) or \
                len(prim.ops) != 1 or not isinstance(prim.ops[0],
                                                     (ast.In, ast.NotIn)):
            return None
        comp = self._as_comprehension(prim.comparators[0])
        if comp is None:
            return None
        g = comp.generators[0]
        bound = {n.id for n in ast.walk(g.target) if isinstance(n, ast.Name)}
        if any(isinstance(n, ast.Name) and n.id in bound
               for n in ast.walk(prim.left)):
            return None
        eq = ast.Compare(left=prim.left, ops=[ast.Eq()],
                         comparators=[comp.elt])
        gen = ast.GeneratorExp(elt=eq, generators=comp.generators)
        call = ast.Call(func=ast.Name(id='any', ctx=ast.Load()), args=[gen],
                        keywords=[])
        ast.copy_location(call, prim)
        ast.fix_missing_locations(call)
        return isinstance(prim.ops[0], ast.NotIn), call

    def _coll_truth(self, prim, st):
        """Truth of a collection symbol: non-empty once something was
        appended on this path, else that of its untouched literal."""
        if isinstance(prim, ast.BinOp) and isinstance(prim.op, ast.Add):
            # concatenation of collections
            ta = self._coll_truth(prim.left, st)
            tb = self._coll_truth(prim.right, st)
            if ta is True or tb is True:
                return True
            if ta is False and tb is False:
                return False
            return None
        if isinstance(prim, (ast.List, ast.Tuple)):
            return const_truth(prim)
        if isinstance(prim, ast.Name) and prim.id not in self.__dict__.get(
                '_comp_accs', ()) and isinstance(self.defs.get(prim.id), (
                    ast.ListComp, ast.SetComp, ast.DictComp)):
            # a filter-free comprehension is empty exactly when its source is
            d = self.defs[prim.id]
            if len(d.generators) == 1 and not d.generators[0].ifs:
                return self._iter_truth(d.generators[0].iter, st)
            return None
        if isinstance(prim, ast.Call) and isinstance(
                prim.func, ast.Name) and prim.func.id in (
                    'list', 'tuple', 'sorted', 'set', 'frozenset') and len(
                        prim.args) == 1 and not prim.keywords:
            return self._iter_truth(prim.args[0], st)
        if not (isinstance(prim, ast.Name) and prim.id.startswith('SYM_m')):
            return None
        grown = False
        for e in st.events:
            if e.kind not in ('call', 'maycall', 'store', 'aug', 'del'):
                continue
            if e.kind == 'call':
                fn = e.node.func
                if isinstance(fn, ast.Attribute) and isinstance(
                        fn.value, ast.Name) and fn.value.id == prim.id:
                    if fn.attr in ('append', 'add', 'insert'):
                        grown = True
                    elif fn.attr not in ('copy', 'index', 'count', 'get',
                                         'keys', 'values', 'items'):
                        return None
                    continue
            if e.kind == 'store' and isinstance(e.node, ast.Subscript) and \
                    isinstance(e.node.value, ast.Name) and \
                    e.node.value.id == prim.id and not isinstance(
                        e.node.slice, ast.Slice):
                grown = True
                continue
            if e.kind != 'call' and any(
                    isinstance(n, ast.Name) and n.id == prim.id
                    for n in ast.walk(e.node)):
                return None
        if grown:
            return True
        if prim.id in self.__dict__.get('_comp_accs', ()):
            return False          # an unfolded comprehension nothing joined
        d = self.defs.get(prim.id)
        if isinstance(d, (ast.List, ast.Tuple, ast.Set, ast.Dict)):
            # passed to another call it may have been filled there
            for e in st.events:
                if e.kind == 'call' and any(
                        isinstance(a, ast.Name) and a.id == prim.id
                        for a in list(e.node.args) + [k.value for k in
                                                      e.node.keywords]):
                    return None
            return const_truth(d)
        return None

    def _single_item(self, it, st, depth=3):
        """When the iterable is a collection built on this path that holds
        exactly one known item (one append, nothing else done to it) - also
        seen through list()/sorted()/tuple() or a filter-free comprehension
        over such a collection - the item; else None."""
        if depth <= 0:
            return None
        e = it
        while isinstance(e, ast.Call) and isinstance(e.func, ast.Name) and \
                e.func.id in ('list', 'tuple', 'sorted', 'iter',
                              'reversed') and len(e.args) == 1 and \
                not e.keywords:
            e = e.args[0]
        if isinstance(e, ast.Name) and e.id.startswith('SYM_m'):
            d = self.defs.get(e.id)
            if isinstance(d, (ast.List, ast.Tuple, ast.Set)) and not d.elts \
                    or e.id in self.__dict__.get('_comp_accs', ()):
                items = []
                for ev in st.events:
                    if ev.kind == 'call' and isinstance(
                            ev.node.func, ast.Attribute) and isinstance(
                                ev.node.func.value, ast.Name) and \
                            ev.node.func.value.id == e.id:
                        if ev.node.func.attr in ('append', 'add') and len(
                                ev.node.args) == 1:
                            items.append(ev.node.args[0])
                        else:
                            return None
                    elif ev.kind in ('maycall', 'store', 'aug', 'del') and \
                            any(isinstance(n, ast.Name) and n.id == e.id
                                for n in ast.walk(ev.node)):
                        return None
                if len(items) == 1:
                    return items[0]
                return None
        comp = None
        if isinstance(e, ast.Name) and isinstance(self.defs.get(e.id), (
                ast.ListComp, ast.GeneratorExp, ast.SetComp)):
            comp = self.defs[e.id]
        elif isinstance(e, (ast.ListComp, ast.GeneratorExp, ast.SetComp)):
            comp = e
        if comp is not None and len(comp.generators) == 1 and \
                not comp.generators[0].ifs and e.id not in self.__dict__.get(
                    '_comp_accs', ()) if isinstance(e, ast.Name) else (
                        comp is not None and len(comp.generators) == 1
                        and not comp.generators[0].ifs):
            g = comp.generators[0]
            inner = self._single_item(g.iter, st, depth - 1)
            if inner is not None and not has_call(comp.elt):
                env = {}
                tmp = State(env=env)
                self._assign_target(g.target, inner, tmp, 0)
                if not tmp.events:
                    return subst(comp.elt, env)
        return None

    def _iter_truth(self, it, st):
        """Emptiness of an iterable known from its spelling: a literal, or
        a symbol naming a literal display and what was done to it."""
        ct = const_truth(it)
        if ct is not None:
            return ct
        if isinstance(it, ast.Call) and isinstance(it.func, ast.Name) and \
                it.func.id in ('tuple', 'list', 'sorted', 'reversed', 'iter',
                               'set', 'frozenset') and len(it.args) == 1 \
                and not [k for k in it.keywords if k.arg != 'key' and
                         k.arg != 'reverse'] and self.prog.resolve(
                    self._stack[-1].module, it.func) == \
                'builtin:' + it.func.id:
            # a copy / reordering of a collection is as empty as it is
            inner = it.args[0]
            r = self._iter_truth(inner, st)
            if r is not None:
                return r
            k = key_of(subst(inner, {}, st.attrs) if (
                self.track_attrs and st.attrs) else inner)
            if k in st.facts:
                return st.facts[k]
            return None
        if isinstance(it, ast.Call) and not it.args and not it.keywords:
            mc = method_call(it)
            if mc and mc[1] in ('items', 'keys', 'values') and isinstance(
                    mc[0], ast.Name) and mc[0].id.startswith('SYM_m'):
                # the views of a dict built on this path are as empty as it
                return self._coll_truth(mc[0], st)
        return self._coll_truth(it, st)

    def _branch_quant(self, q, prim, st, line):
        """any()/all() over a generator as the loop it abbreviates (0 and 1
        iterations, like every other loop)."""
        fn, comp = q
        g = comp.generators[0]
        s0 = st.fork()
        it = g.iter
        if has_call(it):
            for c in reversed([n for n in ast.walk(it)
                               if isinstance(n, ast.Call)]):
                self._ev(s0, 'call', c, line)
                self._invalidate_call(s0, c)
        self._ev(s0, 'iter', it, line)
        itk = key_of(subst(it, {}, s0.attrs) if (self.track_attrs
                                                  and s0.attrs) else it)
        known = s0.facts.get(itk)
        ct = self._iter_truth(it, s0)
        if ct is not None:
            known = ct
        if 0 in self.loop_iters and known is not True:
            sz = s0.fork()
            sz.conds.append(Cond(it, False, line, 'loop', self.frame))
            sz.facts[itk] = False
            yield sz, fn == 'all'
        if 1 in self.loop_iters and known is not False:
            s1 = s0.fork()
            s1.conds.append(Cond(it, True, line, 'loop', self.frame))
            s1.facts[itk] = True
            one = self._single_item(it, s1)
            elem = one if one is not None else self.fresh(('elem', it), 'e')
            bound = [n.id for n in ast.walk(g.target)
                     if isinstance(n, ast.Name)]
            saved = {b: s1.env.get(b) for b in bound}
            self._assign_target(g.target, elem, s1, line)
            if g.ifs:
                guard = g.ifs[0] if len(g.ifs) == 1 else ast.BoolOp(
                    op=ast.And(), values=list(g.ifs))
                if fn == 'any':
                    body = ast.BoolOp(op=ast.And(), values=[guard, comp.elt])
                else:
                    body = ast.BoolOp(op=ast.Or(), values=[
                        ast.UnaryOp(op=ast.Not(), operand=guard), comp.elt])
            else:
                body = comp.elt
            for s2, t in self.branch(body, s1, line):
                for b, old in saved.items():
                    if old is None:
                        s2.env.pop(b, None)
                    else:
                        s2.env[b] = old
                if not isinstance(t, tuple) and t == (fn == 'all'):
                    # not decided by this element: the scan goes on
                    if s2 is s1:
                        s2 = s1.fork()
                    self._ev(s2, 'loopdone', it, line)
                yield s2, t

    def _branch_prim(self, prim, st, line):
        prim, flip = self._norm_test(prim)
        # tracked attribute values are used for folding and for keying the
        # fact, the recorded condition keeps the attribute spelling
        full = subst(prim, {}, st.attrs) if (self.track_attrs
                                              and st.attrs) else prim
        if isinstance(full, (ast.BoolOp, ast.UnaryOp)):
            full = prim
        eq = self._equalities(st)
        if eq and any(isinstance(n, ast.Name) and n.id in eq
                      for n in ast.walk(full)):
            # x == 'a' was established: x == 'b', x in TABLE ... fold
            f = self._fold(subst(full, eq))
            if f is not None:
                yield st, (f != flip)
                return
        f = self._fold(full)
        if f is None:
            f = self._coll_truth(prim, st)
        if f is None and isinstance(full, ast.Compare) and len(
                full.ops) == 1 and isinstance(full.ops[0], ast.Is) and \
                isinstance(full.comparators[0], ast.Constant) and \
                full.comparators[0].value is None:
            # an object that passed an isinstance() test is not None
            lk = key_of(full.left)
            for c in st.conds:
                if c.kind == 'test' and c.pol and isinstance(
                        c.expr, ast.Call) and isinstance(
                            c.expr.func, ast.Name) and \
                        c.expr.func.id == 'isinstance' and len(
                            c.expr.args) == 2 and key_of(
                                c.expr.args[0]) == lk and 'NoneType' not in \
                        ast.unparse(c.expr.args[1]):
                    f = False
        if f is not None:
            yield st, (f != flip)
            return
        k = key_of(full)
        if k in st.facts:
            yield st, (st.facts[k] != flip)
            return
        calls = [n for n in ast.walk(prim) if isinstance(n, ast.Call)] \
            if has_call(prim) else []
        for truth in (True, False):
            s = st.fork()
            for c in reversed(calls):
                self._ev(s, 'call', c, line)
                self._invalidate_call(s, c)
            s.facts[k] = truth
            s.conds.append(Cond(prim, truth, line, 'test', self.frame))
            yield s, (truth != flip)

    # --------------------------------------------------------- invalidation
    def _invalidate(self, st, path_text):
        """A store to path_text: drop attribute bindings / facts about it."""
        for k in [k for k in st.attrs
                  if k == path_text or k.startswith(path_text + '.')
                  or path_text.startswith(k + '.')]:
            del st.attrs[k]
        # facts are keyed by dump; keep a parallel text index lazily
        dead = []
        for k in st.facts:
            if path_text.split('.')[-1] in k:
                dead.append(k)
        for k in dead:
            del st.facts[k]

    def _invalidate_call(self, st, call):
        """A call may write attributes of its receiver / arguments."""
        fn = call.func
        callee = None
        try:
            callee = self.prog.callee_of(self._stack[-1], call)
        except Exception:
            callee = None
        written = None
        if callee is not None and self.writes is not None:
            written = self.writes(callee)
        if callee is None:
            # external / unknown callee: assume it may mutate the receiver
            # object itself but not rebind attributes of `self`
            if isinstance(fn, ast.Attribute) and fn.attr in READER_METHODS:
                return          # reads its receiver, writes nothing
            if isinstance(fn, ast.Attribute):
                try:
                    recv = ast.unparse(fn.value)
                except Exception:
                    recv = None
                if recv and recv != 'self':
                    self._invalidate(st, recv)
            return
        if written is None:
            for k in list(st.attrs):
                del st.attrs[k]
            st.facts.clear()
            return
        for w in written:
            self._invalidate(st, w)

    # ------------------------------------------------------------ statements
    def block(self, stmts, st, handlers):
        """Execute a statement list.  Yields (state, status)."""
        if not stmts:
            yield st, ('next',)
            return
        head, rest = stmts[0], stmts[1:]
        for s, status in self.stmt(head, st, handlers):
            if status[0] == 'next':
                yield from self.block(rest, s, handlers)
            else:
                yield s, status

    def _ev(self, st, kind, node, line, value=None, sym=None, raw=None):
        e = Event(kind, node, line, self.frame, value=value, sym=sym,
                  nconds=len(st.conds), raw=raw)
        st.events.append(e)
        # displays that something is done to after they were written
        tgt = None
        if kind in ('store', 'aug', 'del') and isinstance(
                node, (ast.Subscript, ast.Attribute)):
            tgt = node.value
        elif kind in ('call', 'maycall') and isinstance(node, ast.Call):
            if isinstance(node.func, ast.Attribute) and node.func.attr not in (
                    'items', 'keys', 'values', 'get', 'copy', 'index',
                    'count', '__contains__', '__getitem__'):
                tgt = node.func.value
        if isinstance(tgt, ast.Name) and tgt.id.startswith('SYM_m'):
            self.__dict__.setdefault('_touched', set()).add(tgt.id)
        return e

    def _unpartial(self, expr):
        """p(x, k=v) where p names functools.partial(f, a, j=w) is
        f(a, x, j=w, k=v)."""
        if not any(isinstance(n, ast.Call) and isinstance(n.func, ast.Name)
                   and n.func.id.startswith('SYM_') for n in ast.walk(expr)):
            return expr
        en = self

        class T(ast.NodeTransformer):
            def visit_Call(self, node):
                self.generic_visit(node)
                if isinstance(node.func, ast.Name) and \
                        node.func.id.startswith('SYM_'):
                    d = en.defs.get(node.func.id)
                    if isinstance(d, ast.Call) and d.args and en.prog.resolve(
                            en._stack[-1].module, d.func) == \
                            'ext:functools.partial' and not any(
                                isinstance(a, ast.Starred) for a in d.args) \
                            and not any(k.arg is None for k in d.keywords):
                        later = {k.arg for k in node.keywords}
                        new = ast.Call(
                            func=d.args[0],
                            args=list(d.args[1:]) + list(node.args),
                            keywords=[k for k in d.keywords
                                      if k.arg not in later] +
                            list(node.keywords))
                        return ast.copy_location(new, node)
                return node
        return ast.fix_missing_locations(T().visit(copy.deepcopy(expr)))

    def _equalities(self, st):
        """{name: constant} for the tests `name == <constant>` this path
        has taken as true (names in recorded conditions denote the values
        the analysed function was entered with, or immutable symbols)."""
        out = {}
        for c in st.conds:
            e = c.expr
            if c.kind == 'test' and c.pol and isinstance(e, ast.Compare) \
                    and len(e.ops) == 1 and isinstance(e.ops[0], ast.Eq):
                l, r = e.left, e.comparators[0]
                if isinstance(r, ast.Name) and isinstance(l, ast.Constant):
                    l, r = r, l
                if isinstance(l, ast.Name) and isinstance(
                        r, ast.Constant) and isinstance(
                            r.value, (str, int)) and not isinstance(
                                r.value, bool):
                    out[l.id] = r
        return out

    def eval_value(self, value, st, handlers):
        """Evaluate an expression used as a value.

        Yields (state, expr, raise_status_or_None).  Calls become events and
        (unless inlined) fresh symbols.
        """
        v = self._unpartial(subst(value, st.env))
        eq = self._equalities(st)
        if eq and any(isinstance(n, ast.Subscript) and isinstance(
                n.slice, ast.Name) and n.slice.id in eq and isinstance(
                    n.value, ast.Dict) for n in ast.walk(v)):
            # TABLE[x] on a path that has established x == 'key'
            v = subst(v, eq)
        if isinstance(v, ast.IfExp):
            # a conditional expression is the branch it abbreviates
            for s, t in self.branch(v.test, st, getattr(value, 'lineno', 0),
                                    True):
                if isinstance(t, tuple):
                    yield s, None, t
                    continue
                yield from self._eval_substituted(v.body if t else v.orelse,
                                                  s, handlers, value)
            return
        yield from self._eval_substituted(v, st, handlers, value)

    def _arg_ifexp(self, v):
        """A conditional expression among the arguments of a call that has
        no other call to evaluate: the call can be split on its test."""
        if not isinstance(v, ast.Call) or has_call(v.func):
            return None
        found = None
        calls = 0

        def walk(n, top):
            nonlocal found, calls
            if isinstance(n, (ast.Lambda, ast.ListComp, ast.SetComp,
                              ast.DictComp, ast.GeneratorExp)):
                calls += 1          # opaque: do not split around it
                return
            if isinstance(n, ast.Call) and not top and \
                    not self._pure_expr(n):
                calls += 1
            if isinstance(n, ast.IfExp) and found is None:
                found = n
                # its arms are evaluated only when chosen; its test decides
                if any(isinstance(x, ast.Call) and not self._pure_expr(x)
                       for x in ast.walk(n.test)):
                    calls += 1
                return
            for c in ast.iter_child_nodes(n):
                walk(c, False)
        for a in list(v.args) + [k.value for k in v.keywords]:
            walk(a, False)
        if found is None or calls:
            return None
        return found

    def _eval_substituted(self, v, st, handlers, value):
        if isinstance(v, ast.IfExp):
            for s, t in self.branch(v.test, st, getattr(value, 'lineno', 0),
                                    True):
                if isinstance(t, tuple):
                    yield s, None, t
                    continue
                yield from self._eval_substituted(v.body if t else v.orelse,
                                                  s, handlers, value)
            return
        ie = self._arg_ifexp(v)
        if ie is not None:
            # f(a if c else b) is f(a) when c, else f(b)
            for s, t in self.branch(ie.test, st, getattr(value, 'lineno', 0),
                                    True):
                if isinstance(t, tuple):
                    yield s, None, t
                    continue
                v2 = _replace_node(v, ie, ie.body if t else ie.orelse)
                yield from self._eval_substituted(v2, s, handlers, value)
            return
        if self._first_walrus(v) is not None:
            for s, v2, rs in self._hoist_walrus(v, st, handlers, value):
                if rs is not None:
                    yield s, None, rs
                else:
                    yield from self._eval_substituted(v2, s, handlers, value)
            return
        nx = self._next_call(v)
        if nx is not None:
            yield from self._eval_next(nx[0], nx[1], st, handlers, value)
            return
        if isinstance(v, ast.Tuple) and has_call(v) and not any(
                isinstance(e, ast.Starred) for e in v.elts):
            # a tuple display keeps its structure; its elements are
            # evaluated left to right
            fake = ast.Call(func=ast.Name(id='tuple', ctx=ast.Load()),
                            args=list(v.elts), keywords=[])
            for s, c2, rs in self._eval_call_args(fake, st, handlers, value):
                if rs is not None:
                    yield s, None, rs
                else:
                    yield s, ast.Tuple(elts=list(c2.args),
                                       ctx=ast.Load()), None
            return
        if self._is_record_ctor(v):
            # a namedtuple built here keeps its structure: field reads and
            # unpacking see the arguments
            for s, c2, rs in self._eval_call_args(v, st, handlers, value):
                yield s, c2, rs
            return
        if isinstance(v, ast.Call) and isinstance(v.func, ast.Name) and \
                v.func.id in self.PURE_BUILTINS and not v.keywords and \
                any(has_call(a) for a in v.args) and not self._pure_expr(v) \
                and self.prog.resolve(self._stack[-1].module, v.func) == \
                'builtin:' + v.func.id:
            # bool(f(x)), str(f(x)) ...: the argument is evaluated, the
            # wrapper keeps its structure
            for s, c2, rs in self._eval_call_args(v, st, handlers, value):
                if rs is None:
                    self._ev(s, 'call', c2, getattr(value, 'lineno', 0),
                             raw=value)
                yield s, c2, rs
            return
        neg = False
        inner = v
        while isinstance(inner, ast.UnaryOp) and isinstance(inner.op,
                                                            ast.Not):
            neg = not neg
            inner = inner.operand
        q = self._quantifier(inner)
        if q is not None:
            for s, t in self._branch_quant(q, inner, st,
                                           getattr(value, 'lineno', 0)):
                if isinstance(t, tuple):
                    yield s, None, t
                else:
                    yield s, ast.Constant(value=(t != neg)), None
            return
        if isinstance(v, ast.Call) and isinstance(v.func, ast.Name) and \
                v.func.id in ('list', 'tuple') and len(v.args) == 1 and \
                not v.keywords and isinstance(v.args[0], ast.Call):
            # list(gen(...)) over a generator function of the program: the
            # accumulating loop it abbreviates
            acc = ast.Name(id='_lg_acc', ctx=ast.Load())
            x = ast.Name(id='_lg_x', ctx=ast.Load())
            loop = ast.For(
                target=ast.Name(id='_lg_x', ctx=ast.Store()),
                iter=v.args[0],
                body=[ast.Expr(value=ast.Call(func=ast.Attribute(
                    value=acc, attr='append', ctx=ast.Load()), args=[x],
                    keywords=[]))], orelse=[])
            for b in ast.walk(loop):
                if isinstance(b, (ast.stmt, ast.expr)) and not hasattr(
                        b, 'lineno'):
                    b.lineno = b.end_lineno = getattr(value, 'lineno', 0)
                    b.col_offset = b.end_col_offset = 0
            if self._fusable(loop, v.args[0]) is not None:
                sym = self.fresh(ast.List(elts=[], ctx=ast.Load()), 'm')
                s0 = st.fork()
                s0.env['_lg_acc'] = sym
                for s, status in self._for(loop, s0, handlers):
                    s.env.pop('_lg_acc', None)
                    s.env.pop('_lg_x', None)
                    if status[0] == 'raise':
                        yield s, None, status
                    else:
                        yield s, sym, None
                return
        if isinstance(v, ast.Call) and not getattr(v, '_pv_hoisted', False):
            # an argument that is itself list(gen(..)) / dict(gen(..)) over
            # a generator function of the program is built first
            for a in v.args:
                if isinstance(a, ast.Call) and isinstance(
                        a.func, ast.Name) and a.func.id in (
                            'list', 'tuple', 'dict') and len(
                                a.args) == 1 and not a.keywords and \
                        isinstance(a.args[0], ast.Call) and \
                        self._inline_target(a.args[0], gen=True) is not None:
                    done = False
                    for s, acc, rs in self.eval_value(a, st, handlers):
                        done = True
                        if rs is not None:
                            yield s, None, rs
                            continue
                        v2 = _replace_node(v, a, acc)
                        v2._pv_hoisted = True
                        yield from self._eval_substituted(v2, s, handlers,
                                                          value)
                    if done:
                        return
                    break
        if isinstance(v, ast.Call) and isinstance(v.func, ast.Name) and \
                v.func.id == 'dict' and len(v.args) == 1 and \
                not v.keywords and isinstance(v.args[0], ast.Call):
            # dict(gen(...)) over a generator function of pairs: the loop
            # `for k, v in gen(...): acc[k] = v` it abbreviates
            acc = ast.Name(id='_dg_acc', ctx=ast.Load())
            loop = ast.For(
                target=ast.Tuple(elts=[
                    ast.Name(id='_dg_k', ctx=ast.Store()),
                    ast.Name(id='_dg_v', ctx=ast.Store())], ctx=ast.Store()),
                iter=v.args[0],
                body=[ast.Assign(targets=[ast.Subscript(
                    value=acc, slice=ast.Name(id='_dg_k', ctx=ast.Load()),
                    ctx=ast.Store())],
                    value=ast.Name(id='_dg_v', ctx=ast.Load()))],
                orelse=[])
            for b in ast.walk(loop):
                if isinstance(b, (ast.stmt, ast.expr)) and not hasattr(
                        b, 'lineno'):
                    b.lineno = b.end_lineno = getattr(value, 'lineno', 0)
                    b.col_offset = b.end_col_offset = 0
            if self._fusable(loop, v.args[0]) is not None:
                sym = self.fresh(ast.Dict(keys=[], values=[]), 'm')
                s0 = st.fork()
                s0.env['_dg_acc'] = sym
                for s, status in self._for(loop, s0, handlers):
                    for nm in ('_dg_acc', '_dg_k', '_dg_v'):
                        s.env.pop(nm, None)
                    if status[0] == 'raise':
                        yield s, None, status
                    else:
                        yield s, sym, None
                return
        if self.comps:
            dz = _dict_zip_as_comp(v)
            if dz is not None:
                v = dz
            # list(map(f, xs)) / tuple(map(f, xs)) is [f(x) for x in xs]
            if isinstance(v, ast.Call) and isinstance(v.func, ast.Name) \
                    and v.func.id in ('list', 'tuple') and len(
                        v.args) == 1 and not v.keywords and isinstance(
                            v.args[0], ast.Call) and isinstance(
                                v.args[0].func, ast.Name) and \
                    v.args[0].func.id == 'map' and len(
                        v.args[0].args) == 2 and not v.args[0].keywords:
                mx = ast.Name(id='_mx', ctx=ast.Load())
                v = ast.copy_location(ast.ListComp(
                    elt=ast.Call(func=v.args[0].args[0], args=[mx],
                                 keywords=[]),
                    generators=[ast.comprehension(
                        target=ast.Name(id='_mx', ctx=ast.Store()),
                        iter=v.args[0].args[1], ifs=[], is_async=0)]), v)
                ast.fix_missing_locations(v)
        if self.comps and isinstance(v, (ast.ListComp, ast.GeneratorExp,
                                         ast.SetComp, ast.DictComp)) and \
                1 <= len(v.generators) <= 3 and not any(
                    g.is_async for g in v.generators):
            yield from self._eval_comp(v, st, handlers, value)
            return
        if self.comps and isinstance(v, (ast.Dict, ast.List, ast.Tuple)):
            # a comprehension that is a value / an element of a display is
            # built first
            kids = list(v.values) if isinstance(v, ast.Dict) else list(v.elts)
            nested = [k for k in kids if isinstance(k, (
                ast.ListComp, ast.SetComp, ast.DictComp)) and 1 <= len(
                    k.generators) <= 3 and not any(
                        g.is_async for g in k.generators)]
            if nested:
                for s, acc, rs in self._eval_comp(nested[0], st, handlers,
                                                  value):
                    if rs is not None:
                        yield s, None, rs
                        continue
                    v2 = _replace_node(v, nested[0], acc)
                    yield from self._eval_substituted(v2, s, handlers, value)
                return
        if (self.inline is not None or self.closures) and len(
                self._stack) <= self.max_depth and has_call(v):
            hit = self._nested_inlinable(v)
            if hit is not None:
                node, callee = hit
                for s, rv, rs in self._inline(node, callee, st, handlers):
                    if rs is not None:
                        yield s, None, rs
                        continue
                    v2 = _replace_node(v, node, rv)
                    yield from self._eval_substituted(v2, s, handlers, value)
                return
        if not has_call(v):
            if isinstance(v, (ast.List, ast.Dict, ast.Set)):
                # a mutable literal may be mutated later through its name:
                # name it by a symbol instead of inlining the literal
                yield st, self.fresh(v, 'm'), None
                return
            yield st, v, None
            return
        if isinstance(v, ast.Call) and (self.inline is not None
                                        or self.closures) and \
                len(self._stack) <= self.max_depth:
            callee = self._inline_target(v)
            if callee is not None:
                yield from self._inline(v, callee, st, handlers)
                return
        s = st.fork()
        # record every call in evaluation order (inner first)
        calls = [n for n in ast.walk(v) if isinstance(n, ast.Call)]
        for c in reversed(calls):
            self._ev(s, 'call', c, getattr(value, 'lineno', 0), raw=value)
            self._invalidate_call(s, c)
        if self._pure_expr(v):
            # calls of pure builtins on immutable results keep their
            # structure (`size = len(pattern)` stays `len(pattern)`)
            yield s, v, None
            return
        sym = self.fresh(v)
        if calls and s.events:
            s.events[-1].sym = sym.id
        yield s, sym, None

    def _nested_inlinable(self, v):
        """The first (innermost, leftmost) call nested inside v - not v
        itself - that the inline policy wants expanded."""
        found = []

        def visit(n, top):
            if isinstance(n, (ast.Lambda, ast.ListComp, ast.SetComp,
                              ast.DictComp, ast.GeneratorExp, ast.IfExp,
                              ast.BoolOp)):
                return              # not evaluated unconditionally / here
            for c in ast.iter_child_nodes(n):
                visit(c, False)
                if found:
                    return
            if not top and isinstance(n, ast.Call):
                callee = self._inline_target(n)
                if callee is not None:
                    found.append((n, callee))
        visit(v, True)
        return found[0] if found else None

    def _first_walrus(self, v):
        """The first `name := value` evaluated unconditionally in v."""
        found = []

        def visit(n):
            if found or isinstance(n, (ast.Lambda, ast.ListComp, ast.SetComp,
                                       ast.DictComp, ast.GeneratorExp)):
                return
            if isinstance(n, ast.BoolOp):
                visit(n.values[0])          # later operands are conditional
                return
            if isinstance(n, ast.IfExp):
                visit(n.test)
                return
            for c in ast.iter_child_nodes(n):
                visit(c)
                if found:
                    return
            if isinstance(n, ast.NamedExpr):
                found.append(n)
        visit(v)
        return found[0] if found else None

    def _hoist_walrus(self, v, st, handlers, value):
        """Evaluate the first walrus of v, bind its name, and hand back v
        with the walrus replaced by the value.  Yields (state, v', raise)."""
        w = self._first_walrus(v)
        if w is None:
            yield st, v, None
            return
        for s, val, rs in self._eval_substituted(w.value, st, handlers,
                                                 value):
            if rs is not None:
                yield s, None, rs
                continue
            if s is st:
                s = st.fork()
            s.env[w.target.id] = val
            v2 = _replace_node(v, w, val)
            yield from self._hoist_walrus(v2, s, handlers, value)

    def _is_record_ctor(self, v):
        return isinstance(v, ast.Call) and self.prog.record_fields(
            self._stack[-1].module, v.func) is not None

    def _eval_call_args(self, call, st, handlers, value, i=0):
        """Evaluate the arguments of a constructor call one by one (left
        to right) so that the call keeps its structure."""
        slots = [('a', k) for k in range(len(call.args))] + [
            ('k', k) for k in range(len(call.keywords))]
        if i >= len(slots):
            yield st, call, None
            return
        kind, k = slots[i]
        arg = call.args[k] if kind == 'a' else call.keywords[k].value
        if not has_call(arg) or isinstance(arg, ast.Starred):
            yield from self._eval_call_args(call, st, handlers, value, i + 1)
            return
        for s, val, rs in self._eval_substituted(arg, st, handlers, value):
            if rs is not None:
                yield s, None, rs
                continue
            c2 = copy.deepcopy(call)
            if kind == 'a':
                c2.args[k] = val
            else:
                c2.keywords[k].value = val
            yield from self._eval_call_args(c2, s, handlers, value, i + 1)

    def _next_call(self, v):
        """(comprehension, default or None) for next(<gen>[, default])."""
        if isinstance(v, ast.Call) and isinstance(v.func, ast.Name) and \
                v.func.id == 'next' and 1 <= len(v.args) <= 2 and \
                not v.keywords and self.prog.resolve(
                    self._stack[-1].module, v.func) == 'builtin:next':
            comp = self._as_comprehension(v.args[0])
            if comp is not None:
                return comp, (v.args[1] if len(v.args) == 2 else None)
        return None

    def _eval_next(self, comp, default, st, handlers, value, elts=None,
                   i=0):
        """next((E for t in IT if C), default): the first element passing
        the filter decides.  A literal IT is walked exactly, otherwise zero
        and one element are explored."""
        line = getattr(value, 'lineno', 0)
        g = comp.generators[0]
        it = g.iter
        if elts is None:
            lit = it
            if isinstance(lit, ast.Name) and isinstance(
                    self.defs.get(lit.id), (ast.Tuple, ast.List)):
                lit = self.defs[lit.id]
            if isinstance(lit, (ast.Tuple, ast.List)) and len(
                    lit.elts) <= 6 and not any(isinstance(
                        e, ast.Starred) for e in lit.elts):
                elts = list(lit.elts)

        def done(s):
            if default is None:
                yield s, None, ('raise', ast.Call(func=ast.Name(
                    id='StopIteration', ctx=ast.Load()), args=[],
                    keywords=[]), line, self.frame)
            else:
                yield from self._eval_substituted(default, s, handlers,
                                                  value)
        bound = [n.id for n in ast.walk(g.target) if isinstance(n, ast.Name)]

        def with_elem(s1, elem, after):
            saved = {b: s1.env.get(b) for b in bound}
            self._assign_target(g.target, elem, s1, line)
            cond = None
            if g.ifs:
                cond = g.ifs[0] if len(g.ifs) == 1 else ast.BoolOp(
                    op=ast.And(), values=list(g.ifs))

            def restore(s2):
                for b, old in saved.items():
                    if old is None:
                        s2.env.pop(b, None)
                    else:
                        s2.env[b] = old
            branches = [(s1, True)] if cond is None else self.branch(
                cond, s1, line)
            for s2, t in branches:
                if isinstance(t, tuple):
                    restore(s2)
                    yield s2, None, t
                elif t:
                    for s3, val, rs in self.eval_value(comp.elt, s2,
                                                       handlers):
                        restore(s3)
                        yield s3, val, rs
                else:
                    restore(s2)
                    yield from after(s2)
        if elts is not None:
            if i >= len(elts):
                yield from done(st)
                return
            for s, ev, rs in self.eval_value(elts[i], st, handlers):
                if rs is not None:
                    yield s, None, rs
                    continue
                if s is st:
                    s = st.fork()
                yield from with_elem(
                    s, ev, lambda s2: self._eval_next(
                        comp, default, s2, handlers, value, elts, i + 1))
            return
        s0 = st.fork()
        if has_call(it):
            for c in reversed([n for n in ast.walk(it)
                               if isinstance(n, ast.Call)]):
                self._ev(s0, 'call', c, line)
                self._invalidate_call(s0, c)
        self._ev(s0, 'iter', it, line)
        known = self._iter_truth(it, s0)
        if known is not True:
            sz = s0.fork()
            sz.conds.append(Cond(it, False, line, 'loop', self.frame))
            yield from done(sz)
        if known is not False:
            s1 = s0.fork()
            s1.conds.append(Cond(it, True, line, 'loop', self.frame))
            elem = self.fresh(('elem', it), 'e')

            def after(s2):
                self._ev(s2, 'loopdone', it, line)
                yield from done(s2)
            yield from with_elem(s1, elem, after)

    def _eval_comp(self, v, st, handlers, value):
        """A one-generator comprehension as the accumulating loop it
        abbreviates; the result symbol is still defined as the
        comprehension (expand() gives it back)."""
        line = getattr(value, 'lineno', 0)
        g = v.generators[0]
        acc = self.fresh(v, 'm')
        self.__dict__.setdefault('_comp_accs', set()).add(acc.id)
        if isinstance(v, ast.DictComp):
            app = ast.Assign(targets=[ast.Subscript(
                value=ast.Name(id=acc.id, ctx=ast.Load()), slice=v.key,
                ctx=ast.Store())], value=v.value)
        else:
            app = ast.Expr(value=ast.Call(
                func=ast.Attribute(value=ast.Name(id=acc.id, ctx=ast.Load()),
                                   attr='add' if isinstance(v, ast.SetComp)
                                   else 'append', ctx=ast.Load()),
                args=[v.elt], keywords=[]))
        body = [app]
        # innermost generator first: each one wraps the body in its loop
        for gi in reversed(v.generators):
            for c in reversed(gi.ifs):
                body = [ast.If(test=c, body=body, orelse=[])]
            lp = ast.For(target=gi.target, iter=gi.iter, body=body,
                         orelse=[])
            body = [lp]
        loop = body[0]
        for b in ast.walk(loop):
            if isinstance(b, (ast.stmt, ast.expr)) and not hasattr(
                    b, 'lineno'):
                b.lineno = b.end_lineno = line
                b.col_offset = b.end_col_offset = 0
        loop.lineno = loop.end_lineno = line
        loop.col_offset = loop.end_col_offset = 0
        ast.fix_missing_locations(loop)
        bound = [n.id for gi in v.generators for n in ast.walk(gi.target)
                 if isinstance(n, ast.Name)]
        saved = {b: st.env.get(b) for b in bound}
        for s, status in self._for(loop, st, handlers):
            for b, old in saved.items():
                if old is None:
                    s.env.pop(b, None)
                else:
                    s.env[b] = old
            if status[0] == 'raise':
                yield s, None, status
            else:
                yield s, acc, None

    NEVER_NONE = ('str', 'int', 'float', 'bool', 'len', 'repr', 'tuple',
                  'list', 'dict', 'set', 'frozenset', 'sorted', 'isinstance',
                  'type', 'abs', 'sum', 'any', 'all', 'bytes', 'range',
                  'enumerate', 'zip', 'map', 'filter', 'reversed', 'iter')

    PURE_BUILTINS = ('len', 'isinstance', 'bool', 'str', 'int', 'float',
                     'tuple', 'frozenset', 'abs', 'repr', 'callable',
                     'issubclass', 'hasattr', 'type')

    def _pure_expr(self, v):
        """Only pure builtins are called and nothing else has an effect."""
        for n in ast.walk(v):
            if isinstance(n, (ast.Yield, ast.YieldFrom, ast.Await,
                              ast.ListComp, ast.SetComp, ast.DictComp,
                              ast.GeneratorExp, ast.NamedExpr, ast.Lambda)):
                return False
            if isinstance(n, ast.Call):
                if not (isinstance(n.func, ast.Name)
                        and n.func.id in self.PURE_BUILTINS
                        and not n.keywords):
                    return False
                if self.prog.resolve(self._stack[-1].module, n.func) != \
                        'builtin:' + n.func.id:
                    return False
        return True

    def _bind_args(self, call, callee):
        a = callee.node.args
        params = [x.arg for x in a.posonlyargs + a.args]
        env = {}
        args = list(call.args)
        star = None
        dstar = None
        # f(a, b, *rest, **kw) forwarding the caller's own var-args
        if args and isinstance(args[-1], ast.Starred) and \
                a.vararg is not None and not any(
                    isinstance(x, ast.Starred) for x in args[:-1]):
            n_pos = len(params) - (1 if (callee.cls is not None and not
                                          callee.is_static) else 0)
            if len(args) - 1 >= n_pos:
                star = args[-1].value
                args = args[:-1]
        kws = list(call.keywords)
        if kws and kws[-1].arg is None and a.kwarg is not None and not any(
                k.arg is None for k in kws[:-1]):
            dstar = kws[-1].value
            kws = kws[:-1]
        if any(isinstance(x, ast.Starred) for x in args) or any(
                k.arg is None for k in kws):
            return None
        call = ast.Call(func=call.func, args=args, keywords=kws)
        bound_self = None
        if callee.cls is not None and not callee.is_static:
            if isinstance(call.func, ast.Attribute):
                bound_self = call.func.value
            elif isinstance(call.func, ast.Name) and args and isinstance(
                    args[0], ast.Name) and args[0].id in ('self', 'cls'):
                # Class.function(self, ...) spelled through a bare name
                bound_self = args[0]
                args = args[1:]
                call = ast.Call(func=call.func, args=args, keywords=kws)
            if callee.name == '__init__':
                return None
            if bound_self is None:
                return None
            if not (isinstance(bound_self, ast.Name)
                    and bound_self.id in ('self', 'cls')):
                return None
            env[params[0]] = bound_self
            params = params[1:]
        for p, x in zip(params, args):
            env[p] = x
        extra = args[len(params):]
        if extra:
            if a.vararg is None:
                return None
            env[a.vararg.arg] = ast.Tuple(elts=extra + (
                [ast.Starred(value=star, ctx=ast.Load())] if star is not None
                else []), ctx=ast.Load())
        elif a.vararg is not None:
            env[a.vararg.arg] = star if star is not None else ast.Tuple(
                elts=[], ctx=ast.Load())
        kwonly = [x.arg for x in a.kwonlyargs]
        extra_kw = []
        for k in call.keywords:
            if k.arg in params or k.arg in kwonly:
                env[k.arg] = k.value
            elif a.kwarg is None:
                return None
            else:
                extra_kw.append(k)
        for p, d in callee.defaults().items():
            if p not in env:
                env[p] = d
        for p in params + kwonly:
            if p not in env:
                return None
        if a.kwarg is not None:
            if dstar is not None and not extra_kw:
                env[a.kwarg.arg] = dstar
            else:
                env[a.kwarg.arg] = ast.Dict(
                    keys=[ast.Constant(value=k.arg) for k in extra_kw] + (
                        [None] if dstar is not None else []),
                    values=[k.value for k in extra_kw] + (
                        [dstar] if dstar is not None else []))
        return env

    def _inline(self, call, callee, st, handlers):
        if any(has_call(a) for a in call.args) or any(
                has_call(k.value) for k in call.keywords):
            # arguments are evaluated before the callee runs
            for s, c2, rs in self._eval_call_args(call, st, handlers, call):
                if rs is not None:
                    yield s, None, rs
                else:
                    yield from self._inline_bound(c2, callee, s, handlers)
            return
        yield from self._inline_bound(call, callee, st, handlers)

    def _inline_bound(self, call, callee, st, handlers):
        env = self._bind_args(call, callee)
        if env is None:
            s = st.fork()
            self._ev(s, 'call', call, getattr(call, 'lineno', 0))
            self._invalidate_call(s, call)
            sym = self.fresh(call)
            s.events[-1].sym = sym.id
            yield s, sym, None
            return
        s0 = st.fork()
        self._ev(s0, 'call', call, getattr(call, 'lineno', 0), raw=call)
        s0.events[-1].sym = 'inlined:' + callee.qual
        saved_env = s0.env
        cenv = self.const_env(callee)
        if getattr(callee, 'closure', False):
            # a nested function reads the variables of the enclosing frame
            base = dict(saved_env)
            base.update(cenv)
            cenv = base
        cenv.update(env)
        s0.env = env = cenv
        self._stack.append(callee)
        try:
            results = list(self.block(callee.node.body, s0, []))
        finally:
            self._stack.pop()
        # a helper that answers None on some paths uses it as its "nothing"
        # sentinel: its other answers are taken to be something
        sentinel = any(st_[0] == 'return' and (st_[1] is None or (
            isinstance(st_[1], ast.Constant) and st_[1].value is None))
            for _s, st_ in results) or any(
                st_[0] in ('next', 'break', 'continue')
                for _s, st_ in results)
        # ... likewise a module-level sentinel object handed back by name
        sent_names = set()
        for _s, st_ in results:
            if st_[0] == 'return' and isinstance(st_[1], ast.Name) and \
                    self._is_sentinel(callee.module, st_[1].id):
                sent_names.add(st_[1].id)
        for s, status in results:
            s.env = dict(saved_env)
            if status[0] == 'return':
                rv = status[1] if status[1] is not None else ast.Constant(
                    value=None)
                if not isinstance(rv, (ast.Constant, ast.Name)) and \
                        saved_env:
                    # the answer is written in terms of the caller's values
                    # at the time of the call: where the caller has rebound
                    # one of the names it mentions, a second substitution
                    # would read the wrong binding
                    rebound = {k: v for k, v in s.env.items()
                               if not (isinstance(v, ast.Name)
                                       and v.id == k)}

                    def close(x):
                        if isinstance(x, (ast.Tuple, ast.List)) and not any(
                                isinstance(e, ast.Starred) for e in x.elts):
                            return type(x)(elts=[close(e) for e in x.elts],
                                           ctx=ast.Load())
                        if isinstance(x, (ast.Constant, ast.Name)):
                            return x
                        try:
                            if key_of(subst(x, rebound)) != key_of(x):
                                return self.fresh(x, 'v')
                        except Exception:
                            pass
                        return x
                    rv = close(rv)
                if sentinel and not isinstance(rv, ast.Constant):
                    self.__dict__.setdefault('_notnone', set()).add(
                        key_of(rv))
                if sent_names and not (isinstance(rv, ast.Name)
                                       and rv.id in sent_names):
                    for nm in sent_names:
                        self.__dict__.setdefault('_notsent', set()).add(
                            (key_of(rv), nm))
                yield s, rv, None
            elif status[0] == 'raise':
                yield s, None, status
            else:
                yield s, ast.Constant(value=None), None

    def _partition_of(self, val):
        """(subject, separator constant) when val is / names the result of
        <subject>.partition(<const str>)"""
        d = val
        if isinstance(val, ast.Name) and val.id.startswith('SYM_'):
            d = self.defs.get(val.id)
        if isinstance(d, ast.Call) and method_call(d, 'partition') and len(
                d.args) == 1 and not d.keywords and isinstance(
                    d.args[0], ast.Constant) and isinstance(
                        d.args[0].value, str) and d.args[0].value:
            return method_call(d)[0], d.args[0]
        return None

    def _assign_target(self, target, val, st, line, raw_value=None):
        if isinstance(target, ast.Name):
            st.env[target.id] = val
        elif isinstance(target, (ast.Tuple, ast.List)) and len(
                target.elts) == 3 and self._partition_of(val) is not None \
                and not any(isinstance(t, ast.Starred)
                            for t in target.elts):
            # head, sep, tail = s.partition(':') in terms of the one split
            # it performs: s.split(':', 1)[0], ':' if found else '', [1]
            subj, sepc = self._partition_of(val)
            sp = self.fresh(ast.Call(
                func=ast.Attribute(value=subj, attr='split', ctx=ast.Load()),
                args=[sepc, ast.Constant(value=1)], keywords=[]), 'v')
            found = ast.Compare(left=sepc, ops=[ast.In()],
                                comparators=[subj])
            parts = [
                ast.Subscript(value=sp, slice=ast.Constant(value=0),
                              ctx=ast.Load()),
                ast.IfExp(test=found, body=sepc,
                          orelse=ast.Constant(value='')),
                ast.Subscript(value=sp, slice=ast.Constant(value=1),
                              ctx=ast.Load())]
            for t, v in zip(target.elts, parts):
                self._assign_target(t, ast.fix_missing_locations(
                    ast.copy_location(v, target)), st, line)
        elif isinstance(target, (ast.Tuple, ast.List)):
            ra = self.prog.record_args(self._stack[-1].module, val) \
                if isinstance(val, ast.Call) else None
            if ra is not None and len(ra) == len(target.elts) and not any(
                    isinstance(t, ast.Starred) for t in target.elts):
                for t, v in zip(target.elts, ra.values()):
                    self._assign_target(t, v, st, line)
            elif isinstance(val, (ast.Tuple, ast.List)) and len(val.elts) == \
                    len(target.elts):
                for t, v in zip(target.elts, val.elts):
                    self._assign_target(t, v, st, line)
            else:
                star = [i for i, t in enumerate(target.elts)
                        if isinstance(t, ast.Starred)]
                n = len(target.elts)
                for i, t in enumerate(target.elts):
                    if star and i == star[0]:
                        # a, *rest, z = val  ->  rest = val[i:-(n-i-1)]
                        hi = None if i == n - 1 else ast.Constant(
                            value=-(n - i - 1))
                        sl = ast.Slice(lower=ast.Constant(value=i) if i
                                       else None, upper=hi, step=None)
                    elif star and i > star[0]:
                        sl = ast.Constant(value=-(n - i))
                    else:
                        sl = ast.Constant(value=i)
                    self._assign_target(
                        t, ast.Subscript(value=val, slice=sl,
                                         ctx=ast.Load()), st, line)
        elif isinstance(target, ast.Starred):
            self._assign_target(target.value, val, st, line)
        else:
            tgt = subst(target, st.env)
            self._ev(st, 'store', tgt, line, value=val, raw=target)
            try:
                ptxt = ast.unparse(tgt.value if isinstance(
                    tgt, ast.Subscript) else tgt)
            except Exception:
                ptxt = None
            if ptxt:
                self._invalidate(st, ptxt)
                if isinstance(tgt, ast.Attribute) and self.track_attrs:
                    st.attrs[ptxt] = val

    def _desugar_yield_from(self, x, line):
        """`yield from [E] * n`, `yield from (E for v in it if c)` and
        `yield from [E1, E2]` as the equivalent loops of plain yields."""
        def y(e):
            return ast.fix_missing_locations(ast.copy_location(
                ast.Expr(value=ast.Yield(value=e)), x))

        def loc(n):
            n.lineno = n.end_lineno = line
            n.col_offset = n.end_col_offset = 0
            return ast.fix_missing_locations(n)
        if isinstance(x, ast.BinOp) and isinstance(x.op, ast.Mult):
            for seq, cnt in ((x.left, x.right), (x.right, x.left)):
                if isinstance(seq, (ast.List, ast.Tuple)) and len(
                        seq.elts) == 1 and not isinstance(
                            seq.elts[0], ast.Starred):
                    it = ast.Call(func=ast.Name(id='range', ctx=ast.Load()),
                                  args=[cnt], keywords=[])
                    return [loc(ast.For(
                        target=ast.Name(id='_yf', ctx=ast.Store()), iter=it,
                        body=[y(seq.elts[0])], orelse=[]))]
        if isinstance(x, (ast.GeneratorExp, ast.ListComp)) and len(
                x.generators) == 1 and not x.generators[0].is_async:
            g = x.generators[0]
            body = [y(x.elt)]
            for c in reversed(g.ifs):
                body = [ast.If(test=c, body=body, orelse=[])]
            return [loc(ast.For(target=g.target, iter=g.iter, body=body,
                                orelse=[]))]
        if isinstance(x, (ast.List, ast.Tuple)) and not any(
                isinstance(e, ast.Starred) for e in x.elts):
            return [loc(y(e)) for e in x.elts]
        if isinstance(x, (ast.Name, ast.Attribute, ast.Subscript, ast.Call)):
            # any other iterable: its elements, one yield each
            return [loc(ast.For(
                target=ast.Name(id='_yf', ctx=ast.Store()), iter=x,
                body=[y(ast.Name(id='_yf', ctx=ast.Load()))], orelse=[]))]
        return None

    def _catches_value_error(self, trynode):
        for h in trynode.handlers:
            for t in self.handler_types(h):
                if t in ('builtin:ValueError', 'builtin:Exception',
                         'builtin:BaseException'):
                    return True
        return False

    def _unpack_conds(self, target, val, st, line):
        if not isinstance(target, (ast.Tuple, ast.List)) or any(
                isinstance(t, ast.Starred) for t in target.elts):
            return
        if isinstance(val, (ast.Tuple, ast.List)):
            if len(val.elts) == len(target.elts):
                for t, v in zip(target.elts, val.elts):
                    self._unpack_conds(t, v, st, line)
            return
        if isinstance(val, ast.Call) and self._is_record_ctor(val):
            return
        c = ast.Compare(
            left=ast.Call(func=ast.Name(id='len', ctx=ast.Load()),
                          args=[val], keywords=[]),
            ops=[ast.Eq()],
            comparators=[ast.Constant(value=len(target.elts))])
        ast.fix_missing_locations(c)
        st.conds.append(Cond(c, True, line, 'test', self.frame))
        st.facts[key_of(c)] = True

    def _route_raise(self, st, status, handlers):
        """A raise status inside try bodies: find a matching handler."""
        yield st, status

    def stmt(self, node, st, handlers):
        line = getattr(node, 'lineno', 0)
        if isinstance(node, ast.Expr):
            if isinstance(node.value, ast.Constant):
                yield st, ('next',)
                return
            if isinstance(node.value, ast.YieldFrom):
                des = self._desugar_yield_from(node.value.value, line)
                if des is not None:
                    yield from self.block(des, st, handlers)
                    return
            # L.extend(E for v in it if c) as a statement, when
            # comprehensions are read: the loop of appends it abbreviates
            mx_ = method_call(node.value) if isinstance(
                node.value, ast.Call) else None
            if self.comps and mx_ and mx_[1] == 'extend' and len(
                    node.value.args) == 1 and not node.value.keywords and \
                    isinstance(node.value.args[0], (
                        ast.GeneratorExp, ast.ListComp)) and len(
                            node.value.args[0].generators) == 1 and \
                    not node.value.args[0].generators[0].is_async and \
                    isinstance(mx_[0], ast.Name):
                comp = node.value.args[0]
                g = comp.generators[0]
                body = [ast.Expr(value=ast.Call(func=ast.Attribute(
                    value=mx_[0], attr='append', ctx=ast.Load()),
                    args=[comp.elt], keywords=[]))]
                for c in reversed(g.ifs):
                    body = [ast.If(test=c, body=body, orelse=[])]
                loop = ast.For(target=g.target, iter=g.iter, body=body,
                               orelse=[])
                for b in ast.walk(loop):
                    if isinstance(b, (ast.stmt, ast.expr)) and not hasattr(
                            b, 'lineno'):
                        b.lineno = b.end_lineno = line
                        b.col_offset = b.end_col_offset = 0
                ast.copy_location(loop, node)
                yield from self.stmt(loop, st, handlers)
                return
            # d.setdefault(k, v) as a statement: `if k not in d: d[k] = v`
            # (v is a plain value: nothing is evaluated for it)
            mc_ = method_call(node.value) if isinstance(
                node.value, ast.Call) else None
            if mc_ and mc_[1] == 'setdefault' and len(
                    node.value.args) == 2 and not node.value.keywords and \
                    not any(has_call(a) for a in node.value.args) and \
                    not has_call(mc_[0]):
                k_, v_ = node.value.args
                alt = ast.If(
                    test=ast.Compare(left=k_, ops=[ast.NotIn()],
                                     comparators=[mc_[0]]),
                    body=[ast.Assign(targets=[ast.Subscript(
                        value=mc_[0], slice=k_, ctx=ast.Store())],
                        value=v_)], orelse=[])
                ast.copy_location(alt, node)
                ast.fix_missing_locations(alt)
                yield from self.stmt(alt, st, handlers)
                return
            upd = self._desugar_update(node.value, st)
            if upd is not None:
                yield from self._for(upd, st, handlers)
                return
            kd = self.__dict__.get('_kdefs')
            if kd and isinstance(node.value, ast.Yield) and \
                    node.value.value is not None and \
                    len(self._stack) == kd[-1][3] and \
                    self._stack[-1] is kd[-1][4]:
                yield from self._yield_to_body(node, st, handlers)
                return
            if isinstance(node.value, (ast.Yield, ast.YieldFrom)):
                s = st.fork()
                v = subst(node.value.value, s.env) if node.value.value \
                    is not None else None
                if v is not None and has_call(v):
                    for c in reversed([n for n in ast.walk(v)
                                       if isinstance(n, ast.Call)]):
                        self._ev(s, 'call', c, line)
                self._ev(s, 'yield', v if v is not None
                         else ast.Constant(value=None), line)
                yield s, ('next',)
                return
            for s, v, rs in self.eval_value(node.value, st, handlers):
                if rs is not None:
                    yield s, rs
                else:
                    yield s, ('next',)
            return
        if isinstance(node, (ast.Assign, ast.AnnAssign)):
            if isinstance(node, ast.AnnAssign):
                if node.value is None:
                    yield st, ('next',)
                    return
                targets = [node.target]
            else:
                targets = node.targets
            for s, v, rs in self.eval_value(node.value, st, handlers):
                if rs is not None:
                    yield s, rs
                    continue
                if s is st:
                    s = st.fork()
                if any(self._catches_value_error(h) for h in handlers):
                    # inside `try ... except ValueError`: unpacking into a
                    # fixed number of names states the length
                    for t in targets:
                        self._unpack_conds(t, v, s, line)
                for t in targets:
                    self._assign_target(t, v, s, line)
                yield s, ('next',)
            return
        if isinstance(node, ast.AugAssign):
            s = st.fork()
            v = subst(node.value, s.env)
            if has_call(v):
                for c in reversed([n for n in ast.walk(v)
                                   if isinstance(n, ast.Call)]):
                    self._ev(s, 'call', c, line)
                    self._invalidate_call(s, c)
            if isinstance(node.target, ast.Name):
                cur = s.env.get(node.target.id,
                                ast.Name(id=node.target.id, ctx=ast.Load()))
                if isinstance(node.op, ast.Add) and isinstance(
                        cur, ast.Tuple) and isinstance(v, ast.Tuple):
                    # (a, b) + (c,) is (a, b, c)
                    s.env[node.target.id] = ast.Tuple(
                        elts=list(cur.elts) + list(v.elts), ctx=ast.Load())
                else:
                    s.env[node.target.id] = ast.BinOp(left=cur, op=node.op,
                                                      right=v)
            else:
                tgt = subst(node.target, s.env)
                self._ev(s, 'aug', tgt, line, value=v, raw=node.target)
                try:
                    self._invalidate(s, ast.unparse(tgt))
                except Exception:
                    pass
            yield s, ('next',)
            return
        if isinstance(node, ast.Return):
            if node.value is None:
                yield st, ('return', None, line, self.frame)
                return
            if self.split_returns and len(self._stack) == 1 and not \
                    isinstance(node.value, ast.Constant):
                # only the truth of the result matters to the caller
                for s, t in self.branch(node.value, st, line):
                    if isinstance(t, tuple):
                        yield s, t
                    else:
                        yield s, ('return', ast.Constant(value=t), line,
                                  self.frame)
                return
            for s, v, rs in self.eval_value(node.value, st, handlers):
                if rs is not None:
                    yield s, rs
                else:
                    yield s, ('return', v, line, self.frame)
            return
        if isinstance(node, ast.Raise) and node.exc is not None and (
                self.inline is not None or self.closures):
            x0 = subst(node.exc, st.env)
            tgt = self._inline_target(x0) if isinstance(x0, ast.Call) \
                else None
            if tgt is not None and tgt.name != '__init__' and len(
                    self._stack) <= self.max_depth:
                # raise helper(...): what the helper hands back is raised
                for s, rv, rs in self._inline(x0, tgt, st, handlers):
                    if rs is not None:
                        yield s, rs
                    else:
                        yield s, ('raise', rv, line, self.frame)
                return
            if isinstance(x0, ast.IfExp):
                for s, t in self.branch(x0.test, st, line, True):
                    if isinstance(t, tuple):
                        yield s, t
                        continue
                    sub = ast.Raise(exc=x0.body if t else x0.orelse,
                                    cause=None)
                    ast.copy_location(sub, node)
                    s2 = s.fork()
                    s2.env = dict(s.env)
                    yield from self.stmt(sub, s2, handlers)
                return
        if isinstance(node, ast.Raise):
            s = st.fork()
            exc = subst(node.exc, s.env) if node.exc is not None else None
            if exc is not None and has_call(exc):
                for c in reversed([n for n in ast.walk(exc)
                                   if isinstance(n, ast.Call)][1:]):
                    self._ev(s, 'call', c, line)
            yield s, ('raise', exc, line, self.frame)
            return
        if isinstance(node, ast.If):
            for s, t in self.branch(node.test, st, line):
                if isinstance(t, tuple):
                    yield s, t
                    continue
                body = node.body if t else node.orelse
                yield from self.block(body, s, handlers)
            return
        if isinstance(node, (ast.For, ast.AsyncFor)):
            yield from self._for(node, st, handlers)
            return
        if isinstance(node, ast.While):
            yield from self._while(node, st, handlers)
            return
        if isinstance(node, ast.Try):
            yield from self._try(node, st, handlers)
            return
        if isinstance(node, (ast.With, ast.AsyncWith)):
            s = st.fork()
            for item in node.items:
                ce = subst(item.context_expr, s.env)
                for c in reversed([n for n in ast.walk(ce)
                                   if isinstance(n, ast.Call)]):
                    self._ev(s, 'call', c, line)
                    self._invalidate_call(s, c)
                self._ev(s, 'with', ce, line)
                if item.optional_vars is not None:
                    sym = self.fresh(ast.Call(
                        func=ast.Attribute(value=ce, attr='__enter__',
                                           ctx=ast.Load()),
                        args=[], keywords=[]), 'w')
                    self._assign_target(item.optional_vars, sym, s, line)
            yield from self.block(node.body, s, handlers)
            return
        if isinstance(node, (ast.FunctionDef, ast.AsyncFunctionDef,
                             ast.ClassDef)):
            s = st.fork()
            s.env[node.name] = self.fresh(node, 'f')
            yield s, ('next',)
            return
        if isinstance(node, (ast.Pass, ast.Global, ast.Nonlocal, ast.Import,
                             ast.ImportFrom)):
            yield st, ('next',)
            return
        if isinstance(node, ast.Break):
            yield st, ('break',)
            return
        if isinstance(node, ast.Continue):
            yield st, ('continue',)
            return
        if isinstance(node, ast.Assert):
            for s, t in self.branch(node.test, st, line):
                if isinstance(t, tuple):
                    yield s, t
                elif t:
                    yield s, ('next',)
                else:
                    yield s, ('raise', ast.Call(
                        func=ast.Name(id='AssertionError', ctx=ast.Load()),
                        args=[], keywords=[]), line, self.frame)
            return
        if isinstance(node, ast.Delete):
            s = st.fork()
            for t in node.targets:
                tgt = subst(t, s.env)
                self._ev(s, 'del', tgt, line, raw=t)
                if isinstance(t, ast.Name):
                    s.env.pop(t.id, None)
                else:
                    try:
                        self._invalidate(s, ast.unparse(
                            tgt.value if isinstance(tgt, ast.Subscript)
                            else tgt))
                    except Exception:
                        pass
            yield s, ('next',)
            return
        raise AnalysisError('unsupported statement %s at %s:%s' % (
            type(node).__name__, self._stack[-1].module.path, line))

    # ----------------------------------------------------------------- loops
    def _assigned_names(self, stmts):
        out = set()
        for s in stmts:
            for n in ast.walk(s):
                if isinstance(n, ast.Name) and isinstance(
                        n.ctx, (ast.Store, ast.Del)):
                    out.add(n.id)
        return out

    def _for_unrolled(self, node, elts, st, handlers, i=0):
        """for x in (a, b, ...): the body once per element, in order."""
        line = node.lineno
        if i >= len(elts):
            yield from self.block(node.orelse, st, handlers)
            return
        for s, v, rs in self.eval_value(elts[i], st, handlers):
            if rs is not None:
                yield s, rs
                continue
            if s is st:
                s = st.fork()
            self._assign_target(node.target, v, s, line)
            for s2, status in self.block(node.body, s, handlers):
                if status[0] in ('next', 'continue'):
                    yield from self._for_unrolled(node, elts, s2, handlers,
                                                  i + 1)
                elif status[0] == 'break':
                    yield s2, ('next',)
                else:
                    yield s2, status

    def _desugar_map_filter(self, node):
        """for x in map(f, IT): B   ->  for _t in IT: x = f(_t); B
        for x in filter(p, IT): B ->  for x in IT: if not p(x): continue; B"""
        it = node.iter
        if not (isinstance(it, ast.Call) and isinstance(it.func, ast.Name)
                and it.func.id in ('map', 'filter') and len(it.args) == 2
                and not it.keywords and self.prog.resolve(
                    self._stack[-1].module, it.func) ==
                'builtin:' + it.func.id):
            return None
        fn, src = it.args
        n = self.__dict__.setdefault('_mf', 0) + 1
        self._mf = n
        if it.func.id == 'map':
            tmp = '_mapped%d' % n
            first = ast.Assign(targets=[node.target], value=ast.Call(
                func=fn, args=[ast.Name(id=tmp, ctx=ast.Load())],
                keywords=[]))
            new = ast.For(target=ast.Name(id=tmp, ctx=ast.Store()), iter=src,
                          body=[first] + list(node.body), orelse=node.orelse)
        else:
            if not isinstance(node.target, ast.Name):
                return None
            x = ast.Name(id=node.target.id, ctx=ast.Load())
            test = x if (isinstance(fn, ast.Constant) and fn.value is None) \
                else ast.Call(func=fn, args=[x], keywords=[])
            guard = ast.If(test=ast.UnaryOp(op=ast.Not(), operand=test),
                           body=[ast.Continue()], orelse=[])
            new = ast.For(target=node.target, iter=src,
                          body=[guard] + list(node.body), orelse=node.orelse)
        ast.copy_location(new, node)
        for b in ast.walk(new):
            if not hasattr(b, 'lineno'):
                b.lineno = b.end_lineno = node.lineno
                b.col_offset = b.end_col_offset = 0
        return new

    # -------------------------------------------------- generator fusion
    def _fusable(self, node, it0):
        """`for T in gen(...): BODY` over a generator *function* of the
        analysed program is walked as the generator's own body with BODY run
        at each yield.  Needs: no break / continue / return / else in the
        loop (they would have to unwind the generator), no try in the
        generator around which the unwinding would matter."""
        if not isinstance(it0, ast.Call) or node.orelse or \
                len(self._stack) > self.max_depth:
            return None
        g = self._inline_target(it0, gen=True)
        if g is None or isinstance(g.node, ast.AsyncFunctionDef):
            return None
        own = list(walk_no_nested(g.node))
        if not any(isinstance(n, (ast.Yield, ast.YieldFrom)) for n in own):
            return None
        if any(isinstance(n, ast.With) and any(
                isinstance(y, (ast.Yield, ast.YieldFrom))
                for y in ast.walk(n)) for n in own):
            return None         # the loop body would run inside the with
        for n in own:
            # yields must be statements of their own (no value sent back)
            if isinstance(n, ast.Yield):
                pass
        stmts_with_yield = [n for n in own if isinstance(n, ast.Expr)
                            and isinstance(n.value, (ast.Yield,
                                                     ast.YieldFrom))]
        n_y = sum(1 for n in own if isinstance(n, (ast.Yield, ast.YieldFrom)))
        if n_y != len(stmts_with_yield):
            return None

        def escapes(stmts, in_loop=False):
            for b in stmts:
                if isinstance(b, ast.Return):
                    return True
                if isinstance(b, (ast.Break, ast.Continue)) and not in_loop:
                    return True
                if isinstance(b, (ast.FunctionDef, ast.AsyncFunctionDef,
                                  ast.ClassDef)):
                    continue
                for f in ('body', 'orelse', 'finalbody'):
                    sub = getattr(b, f, None)
                    if isinstance(sub, list) and escapes(
                            sub, in_loop or isinstance(b, (ast.For,
                                                           ast.While))):
                        return True
                for h in getattr(b, 'handlers', []) or []:
                    if escapes(h.body, in_loop):
                        return True
            return False
        if escapes(node.body):
            return None
        if any(has_call(a) for a in it0.args) or any(
                has_call(k.value) for k in it0.keywords):
            return None
        if self._bind_args(it0, g) is None:
            return None
        return g

    def _desugar_update(self, call, st):
        """`d.update(gen(...))` over a generator function of pairs as the
        loop `for k, v in gen(...): d[k] = v`."""
        mc = method_call(call)
        if not mc or mc[1] != 'update' or len(call.args) != 1 or \
                call.keywords or not isinstance(call.args[0], ast.Call):
            return None
        k = ast.Name(id='_upd_k', ctx=ast.Store())
        v = ast.Name(id='_upd_v', ctx=ast.Store())
        loop = ast.For(
            target=ast.Tuple(elts=[k, v], ctx=ast.Store()),
            iter=call.args[0],
            body=[ast.Assign(
                targets=[ast.Subscript(
                    value=mc[0], slice=ast.Name(id='_upd_k', ctx=ast.Load()),
                    ctx=ast.Store())],
                value=ast.Name(id='_upd_v', ctx=ast.Load()))],
            orelse=[])
        for b in ast.walk(loop):
            if not hasattr(b, 'lineno'):
                b.lineno = b.end_lineno = call.lineno
                b.col_offset = b.end_col_offset = 0
        if self._fusable(loop, subst(loop.iter, st.env)) is None:
            return None
        return loop

    def _fuse(self, node, call, callee, st, handlers):
        env = self._bind_args(call, callee)
        s0 = st.fork()
        self._ev(s0, 'call', call, getattr(call, 'lineno', node.lineno),
                 raw=call)
        s0.events[-1].sym = 'inlined:' + callee.qual
        cenv = self.const_env(callee)
        cenv.update(env)
        s0.kstack.append(s0.env)
        s0.env = cenv
        kd = self.__dict__.setdefault('_kdefs', [])
        kd.append((node.target, node.body, self._stack[-1],
                   len(self._stack) + 1, callee))
        self._stack.append(callee)
        try:
            results = list(self.block(callee.node.body, s0, []))
        finally:
            self._stack.pop()
            kd.pop()
        for s, status in results:
            s.env = dict(s.kstack.pop())
            if status[0] == 'raise':
                yield s, status
            elif status[0] == 'xraise':
                yield s, ('raise',) + tuple(status[1:])
            else:
                yield s, ('next',)

    def _yield_to_body(self, node, st, handlers):
        """A yield statement of the generator being fused: run the loop body
        of the consuming frame on the yielded value."""
        kd = self._kdefs
        target, body, caller, depth, callee = kd[-1]
        line = node.lineno
        for s, v, rs in self.eval_value(node.value.value, st, handlers):
            if rs is not None:
                yield s, rs
                continue
            callee_env = s.env
            s.env = dict(s.kstack[-1])
            saved = kd.pop()
            self._stack.append(caller)
            try:
                self._assign_target(node_target_copy(target), v, s, line)
                res = list(self.block(body, s, []))
            finally:
                self._stack.pop()
                kd.append(saved)
            for s2, st2 in res:
                if st2[0] == 'raise':
                    # leaves the consumer's loop; the generator's own
                    # handlers do not see it (it is merely closed)
                    yield s2, ('xraise',) + tuple(st2[1:])
                    continue
                s2.kstack[-1] = s2.env
                s2.env = dict(callee_env)
                yield s2, ('next',)

    def _fuse_genexp(self, node, st):
        """`for T in (elt for x in xs if c): BODY` - also through a name
        bound to the generator expression - is the loop over xs with
        `if c: T = elt; BODY` as its body (a generator expression is lazy:
        this is the order things happen in)."""
        if node.orelse or getattr(node, '_pv_fused', False):
            return None
        ge = node.iter
        if isinstance(ge, ast.Name):
            v = self.defs.get(ge.id) if ge.id.startswith('SYM_') \
                else st.env.get(ge.id)
            if isinstance(v, ast.Name) and v.id.startswith('SYM_'):
                v = self.defs.get(v.id)
            ge = v
        if not isinstance(ge, ast.GeneratorExp) or any(
                g.is_async for g in ge.generators):
            return None
        if len(ge.generators) > 1 and any(
                isinstance(b, ast.Break) for s_ in node.body
                for b in ast.walk(s_)):
            return None
        body = [ast.Assign(targets=[node.target], value=ge.elt)] + list(
            node.body)
        for gi in reversed(ge.generators):
            for c in reversed(gi.ifs):
                body = [ast.If(test=c, body=body, orelse=[])]
            body = [ast.For(target=gi.target, iter=gi.iter, body=body,
                            orelse=[])]
        loop = body[0]
        for b in ast.walk(loop):
            if isinstance(b, (ast.stmt, ast.expr)) and not hasattr(
                    b, 'lineno'):
                b.lineno = b.end_lineno = node.lineno
                b.col_offset = b.end_col_offset = 0
        ast.fix_missing_locations(loop)
        loop._pv_fused = True
        return loop

    def _desugar_chain(self, node, st):
        """`for x in itertools.chain(A, B): BODY` is the loop over A followed
        by the loop over B; `chain.from_iterable(E for s in S)` is the loop
        over S of the loop over E.  (No break in BODY.)"""
        it = node.iter
        if isinstance(it, ast.Name):
            v = self.defs.get(it.id) if it.id.startswith('SYM_') \
                else st.env.get(it.id)
            if isinstance(v, ast.Name) and v.id.startswith('SYM_'):
                v = self.defs.get(v.id)
            if isinstance(v, ast.Call):
                it = v
        if not isinstance(it, ast.Call) or node.orelse or any(
                isinstance(b, ast.Break) for s_ in node.body
                for b in ast.walk(s_)):
            return None
        try:
            r = self.prog.resolve(self._stack[-1].module, it.func)
        except Exception:
            r = None
        if r == 'ext:itertools.chain' and it.args and not it.keywords \
                and not any(isinstance(a, ast.Starred) for a in it.args):
            loops = []
            for a in it.args:
                lp = ast.For(target=node.target, iter=a, body=node.body,
                             orelse=[])
                ast.copy_location(lp, node)
                loops.append(lp)
            return loops
        if r == 'ext:itertools.chain.from_iterable' and len(it.args) == 1 \
                and not it.keywords:
            a = it.args[0]
            if isinstance(a, ast.Name):
                v = st.env.get(a.id)
                if isinstance(v, ast.Name) and v.id.startswith('SYM_'):
                    v = self.defs.get(v.id)
                a = v if isinstance(v, ast.AST) else a
            if isinstance(a, (ast.GeneratorExp, ast.ListComp)):
                inner = ast.For(target=node.target, iter=a.elt,
                                body=node.body, orelse=[])
                body = [inner]
                for gi in reversed(a.generators):
                    for c in reversed(gi.ifs):
                        body = [ast.If(test=c, body=body, orelse=[])]
                    body = [ast.For(target=gi.target, iter=gi.iter,
                                    body=body, orelse=[])]
                for b in ast.walk(body[0]):
                    if isinstance(b, (ast.stmt, ast.expr)) and not hasattr(
                            b, 'lineno'):
                        b.lineno = b.end_lineno = node.lineno
                        b.col_offset = b.end_col_offset = 0
                return body
        return None

    def _for(self, node, st, handlers):
        line = node.lineno
        if isinstance(node.iter, ast.Call) and isinstance(
                node.iter.func, ast.Name) and node.iter.func.id in (
                    'tuple', 'list') and len(node.iter.args) == 1 and \
                not node.iter.keywords and isinstance(
                    node.iter.args[0], (ast.Call, ast.Attribute, ast.Name)) \
                and not isinstance(node.iter.args[0], (
                    ast.GeneratorExp, ast.ListComp)) and self.prog.resolve(
                        self._stack[-1].module, node.iter.func) == \
                'builtin:' + node.iter.func.id:
            # a snapshot is walked: the same elements in the same order
            loop = ast.For(target=node.target, iter=node.iter.args[0],
                           body=node.body, orelse=node.orelse)
            ast.copy_location(loop, node)
            for k in ('_pv_evaluated',):
                if hasattr(node, k):
                    setattr(loop, k, getattr(node, k))
            yield from self._for(loop, st, handlers)
            return
        ch = self._desugar_chain(node, st)
        if ch is not None:
            yield from self.block(ch, st, handlers)
            return
        fg = self._fuse_genexp(node, st)
        if fg is not None:
            yield from self._for(fg, st, handlers)
            return
        mf = self._desugar_map_filter(node)
        if mf is not None:
            yield from self._for(mf, st, handlers)
            return
        if isinstance(node.iter, (ast.Tuple, ast.List)) and 0 < len(
                node.iter.elts) <= 4 and not any(
                    isinstance(e, ast.Starred) for e in node.iter.elts) \
                and self.unroll:
            yield from self._for_unrolled(node, node.iter.elts, st, handlers)
            return
        if self.comps and isinstance(node.iter, (
                ast.ListComp, ast.GeneratorExp, ast.SetComp)) and len(
                    node.iter.generators) == 1:
            # the comprehension is built first, then walked
            for s, v, rs in self.eval_value(node.iter, st, handlers):
                if rs is not None:
                    yield s, rs
                    continue
                loop = ast.For(target=node.target, iter=v, body=node.body,
                               orelse=node.orelse)
                ast.copy_location(loop, node)
                yield from self._for(loop, s, handlers)
            return
        if isinstance(node.iter, ast.Call) and not getattr(
                node, '_pv_evaluated', False) and (
                    self.inline is not None or self.closures):
            it0 = subst(node.iter, st.env)
            gen = self._fusable(node, it0)
            if gen is not None:
                yield from self._fuse(node, it0, gen, st, handlers)
                return
            if isinstance(it0, ast.Call) and self._inline_target(
                    it0) is not None and len(self._stack) <= self.max_depth:
                # the iterable is the result of a helper: evaluate it first
                for s, v, rs in self.eval_value(node.iter, st, handlers):
                    if rs is not None:
                        yield s, rs
                        continue
                    loop = ast.For(target=node.target, iter=v,
                                   body=node.body, orelse=node.orelse)
                    ast.copy_location(loop, node)
                    loop._pv_evaluated = True
                    yield from self._for(loop, s, handlers)
                return
        s0 = st.fork()
        it = subst(node.iter, s0.env)
        if self.unroll and isinstance(node.iter, (ast.Name, ast.Attribute)) \
                and isinstance(it, (ast.Tuple, ast.List)) and 0 < len(
                    it.elts) <= 4 and not any(
                        isinstance(e, ast.Starred) for e in it.elts):
            # a constant table (module / class level) spelled by name
            yield from self._for_unrolled(node, it.elts, st, handlers)
            return
        if self.unroll and isinstance(it, ast.Name) and it.id.startswith(
                'SYM_m') and isinstance(self.defs.get(it.id), (
                    ast.List, ast.Tuple)) and not any(
                            isinstance(e, ast.Starred)
                            for e in self.defs[it.id].elts):
            # a literal display and what was appended to it on this path
            # (nothing else was done to it): walk its elements
            elts = list(self.defs[it.id].elts)
            exact = True
            for e in st.events:
                if e.kind in ('call', 'maycall') and isinstance(
                        e.node.func, ast.Attribute) and isinstance(
                            e.node.func.value, ast.Name) and \
                        e.node.func.value.id == it.id:
                    if e.kind == 'call' and e.node.func.attr == 'append' \
                            and len(e.node.args) == 1 and \
                            not e.node.keywords:
                        elts.append(e.node.args[0])
                    elif e.node.func.attr not in ('copy', 'index', 'count'):
                        exact = False
                elif e.kind in ('store', 'aug', 'del') and isinstance(
                        e.node, ast.Subscript) and isinstance(
                            e.node.value, ast.Name) and \
                        e.node.value.id == it.id:
                    exact = False
                elif e.kind in ('call', 'maycall') and any(
                        isinstance(a, ast.Name) and a.id == it.id
                        for a in list(e.node.args) + [
                            k.value for k in e.node.keywords]) and not (
                        isinstance(e.node.func, ast.Name)
                        and e.node.func.id in self.PURE_BUILTINS):
                    exact = False       # handed to something else
            if exact and 0 < len(elts) <= 4 and (
                    len(elts) > len(self.defs[it.id].elts)
                    or self._coll_truth(it, st) is True):
                yield from self._for_unrolled(node, elts, st, handlers)
                return
        if has_call(it):
            for c in reversed([n for n in ast.walk(it)
                               if isinstance(n, ast.Call)]):
                self._ev(s0, 'call', c, line)
                self._invalidate_call(s0, c)
        self._ev(s0, 'iter', it, line)
        # a known truthiness of the iterable decides emptiness
        itk = key_of(subst(it, {}, s0.attrs) if (self.track_attrs
                                                  and s0.attrs) else it)
        known = s0.facts.get(itk)
        ct = self._iter_truth(it, s0)
        if ct is not None:
            known = ct
        if 0 in self.loop_iters and known is not True:
            sz = s0.fork()
            sz.conds.append(Cond(it, False, line, 'loop', self.frame))
            sz.facts[itk] = False
            yield from self.block(node.orelse, sz, handlers)
        if 1 in self.loop_iters and known is not False:
            s1 = s0.fork()
            s1.conds.append(Cond(it, True, line, 'loop', self.frame))
            s1.facts[itk] = True
            one = self._single_item(it, s1)
            elem = one if one is not None else self.fresh(('elem', it), 'e')
            self._assign_target(node.target, elem, s1, line)
            for s, status in self.block(node.body, s1, handlers):
                if status[0] in ('next', 'continue'):
                    # leave the loop after one iteration; names assigned in
                    # the body keep their one-iteration values.  The event
                    # says that the body completed: further elements would
                    # be visited.
                    self._ev(s, 'loopdone', it, line)
                    yield from self.block(node.orelse, s, handlers)
                elif status[0] == 'break':
                    yield s, ('next',)
                else:
                    yield s, status

    def _while(self, node, st, handlers):
        for s, t in self.branch(node.test, st, node.lineno):
            if isinstance(t, tuple):
                yield s, t
                continue
            if not t:
                yield from self.block(node.orelse, s, handlers)
                continue
            for s2, status in self.block(node.body, s, handlers):
                if status[0] in ('next', 'continue'):
                    self._ev(s2, 'loopdone', node.test, node.lineno,
                             sym='while')
                    ct = const_truth(node.test)
                    if ct is True:
                        # `while True` left only through break/return
                        continue
                    yield from self.block(node.orelse, s2, handlers)
                elif status[0] == 'break':
                    yield s2, ('next',)
                else:
                    yield s2, status

    # ------------------------------------------------------------------- try
    def handler_types(self, h):
        """Resolved exception class names a handler catches."""
        if h.type is None:
            return ['builtin:BaseException']
        from .util import handler_type_exprs
        ts = handler_type_exprs(self.prog, self._stack[-1].module, h,
                                self._stack[-1].cls)
        out = []
        for t in ts:
            r = self.prog.resolve(self._stack[-1].module, t)
            out.append(r or ast.unparse(t))
        return out

    def _catches(self, h, exc):
        """Does handler h catch the (substituted) raised expression?"""
        if exc is None:
            return False
        cls = exc.func if isinstance(exc, ast.Call) else exc
        r = self.prog.resolve(self._stack[-1].module, cls)
        if r is None:
            return False
        for t in self.handler_types(h):
            if t in ('builtin:BaseException', 'builtin:Exception'):
                return True
            if t == r:
                return True
            if r in self.prog.classes and self.prog.is_subclass(r, t):
                return True
            if exc_subclass(r, t):
                return True
        return False

    def _cannot_raise(self, body, st):
        """The try body, as it reads on this path, does nothing that is taken
        to raise: after substitution its only calls print or log, and it
        neither raises, subscripts nor reads attributes of anything but
        modules (a body whose one interesting call was folded to a
        constant)."""
        for sub in body:
            for n in ast.walk(sub):
                if isinstance(n, (ast.Raise, ast.Assert, ast.Subscript,
                                  ast.Await, ast.Yield, ast.YieldFrom,
                                  ast.For, ast.While, ast.With, ast.Try,
                                  ast.Import, ast.ImportFrom, ast.Delete)):
                    return False
        saw_call = False
        for sub in body:
            for c in ast.walk(sub):
                if isinstance(c, ast.Call):
                    saw_call = True
                    cs = subst(c, st.env)
                    if not isinstance(cs, ast.Call):
                        if isinstance(cs, ast.Constant):
                            continue
                        return False
                    fn = U_(cs.func)
                    if fn == 'print' or fn.split('.')[0] in ('LOG', 'logging',
                                                             'warnings'):
                        continue
                    return False
        return saw_call

    def _try(self, node, st, handlers):
        def finish(s, status):
            """Run the finally block after `status`."""
            if not node.finalbody:
                yield s, status
                return
            for s2, st2 in self.block(node.finalbody, s, handlers):
                if st2[0] == 'next':
                    yield s2, status
                else:
                    yield s2, st2

        def run_handler(h, s, exc_expr):
            if h.name:
                s.env[h.name] = self.fresh(
                    exc_expr if exc_expr is not None
                    else ('exc', self.handler_types(h)), 'x')
                # the caught exception is an object, never None
                self.__dict__.setdefault('_notnone', set()).add(
                    key_of(s.env[h.name]))
            for s2, st2 in self.block(h.body, s, handlers):
                yield from finish(s2, st2)

        # normal execution of the body
        for s, status in self.block(node.body, st, handlers + [node]):
            if status[0] == 'next':
                for s2, st2 in self.block(node.orelse, s, handlers):
                    yield from finish(s2, st2)
            elif status[0] == 'raise':
                for h in node.handlers:
                    if self._catches(h, status[1]):
                        s.conds.append(Cond(
                            ast.Constant(value='raised %s' % (
                                ast.unparse(status[1])
                                if status[1] is not None else '?')),
                            True, status[2], 'exc', self.frame))
                        yield from run_handler(h, s, status[1])
                        break
                else:
                    yield from finish(s, status)
            else:
                yield from finish(s, status)
        # one exceptional path per handler, entered from the try entry state
        if self.handler_paths and not self._cannot_raise(node.body, st):
            assigned = self._assigned_names(node.body)
            # a name whose only binding is the plain assignment that ends
            # the try body keeps its old value when an exception arrives:
            # nothing can raise after the binding took place
            last = node.body[-1] if node.body else None
            if isinstance(last, ast.Assign) and all(
                    isinstance(t, ast.Name) for t in last.targets):
                kept = {t.id for t in last.targets} - self._assigned_names(
                    node.body[:-1]) - {
                        n.id for n in ast.walk(last.value)
                        if isinstance(n, ast.Name) and isinstance(
                            n.ctx, ast.Store)}
                assigned = assigned - kept
            for h in node.handlers:
                s = st.fork()
                for nme in assigned:
                    s.env[nme] = self.fresh(('unknown-after-exception', nme),
                                            'u')
                # effects of the partially executed body are unknown: record
                # its calls as possible events
                for sub in node.body:
                    for c in ast.walk(sub):
                        if isinstance(c, ast.Call):
                            cs = subst(c, st.env)
                            if not isinstance(cs, ast.Call):
                                continue    # folded to a plain expression
                            self._ev(s, 'maycall', cs, getattr(
                                c, 'lineno', node.lineno))
                            self._invalidate_call(s, cs)
                s.conds.append(Cond(
                    ast.Constant(value='exception %s in try@%d' % (
                        '|'.join(self.handler_types(h)), node.lineno)),
                    True, h.lineno, 'exc', self.frame))
                yield from run_handler(h, s, None)


_BUILTIN_EXC = {
    'KeyError': 'LookupError', 'IndexError': 'LookupError',
    'LookupError': 'Exception', 'ValueError': 'Exception',
    'TypeError': 'Exception', 'AttributeError': 'Exception',
    'OSError': 'Exception', 'IOError': 'OSError',
    'FileNotFoundError': 'OSError', 'PermissionError': 'OSError',
    'RuntimeError': 'Exception', 'RecursionError': 'RuntimeError',
    'NotImplementedError': 'RuntimeError', 'SyntaxError': 'Exception',
    'MemoryError': 'Exception', 'AssertionError': 'Exception',
    'UnicodeError': 'ValueError', 'UnicodeDecodeError': 'UnicodeError',
    'UnicodeEncodeError': 'UnicodeError', 'ArithmeticError': 'Exception',
    'ZeroDivisionError': 'ArithmeticError', 'OverflowError':
    'ArithmeticError', 'StopIteration': 'Exception',
    'ImportError': 'Exception', 'NameError': 'Exception',
    'Exception': 'BaseException', 'KeyboardInterrupt': 'BaseException',
    'SystemExit': 'BaseException', 'Warning': 'Exception',
    'DeprecationWarning': 'Warning', 'FutureWarning': 'Warning',
    'UserWarning': 'Warning', 'EnvironmentError': 'OSError',
}


def exc_subclass(r, t):
    """Builtin exception hierarchy on resolved names ('builtin:KeyError')."""
    if not (r.startswith('builtin:') and t.startswith('builtin:')):
        return False
    a, b = r[8:], t[8:]
    while a is not None:
        if a == b:
            return True
        a = _BUILTIN_EXC.get(a)
    return False

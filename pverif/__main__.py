"""CLI: python -m pverif check <ID> [--tier quick|thorough] [--root /repo]"""
import argparse
import importlib
import json
import os
import sys
import traceback

from . import REPO
from .core import Ctx, finish, write_evidence
from .model import AnalysisError

PROPS = ['C%02d' % i for i in range(1, 21)]


def run_check(prop, tier, seed, root):
    ctx = None
    try:
        mod = importlib.import_module('pverif.props.%s' % prop.lower())
        ctx = Ctx(prop, tier=tier, seed=seed, root=root)
        mod.check(ctx)
        if tier == 'thorough' and not os.environ.get('PVERIF_NO_STABILITY'):
            stability(ctx, mod, prop, seed, root)
        return finish(ctx), ctx
    except AnalysisError as e:
        if ctx is not None and ctx.findings:
            # what was established before the analysis had to stop stands
            print('NOTE property=%s analysis stopped early: %s' % (prop, e))
            rc = finish(ctx)
            if rc == 1:
                return rc, ctx
        print('ANALYSIS-ERROR property=%s %s' % (prop, e))
        return 2, ctx
    except Exception as e:   # a checker bug is never a verdict
        traceback.print_exc()
        print('ANALYSIS-ERROR property=%s internal: %s: %s' % (
            prop, type(e).__name__, e))
        return 2, ctx


def stability(ctx, mod, prop, seed, root):
    """Thorough tier: recompute the verdict on behaviour-preserving
    rewrites of the tree (reformatted, locals renamed, branches swapped, ...)
    and record the agreement in the evidence.  Recorded only: it never
    changes the exit code."""
    import shutil
    import tempfile
    from . import PKG
    from .transforms import AUTO
    base = os.path.expanduser('~/.cache')
    os.makedirs(base, exist_ok=True)
    want = sorted({f.key.split('|', 1)[1] for f in ctx.findings})
    out = {}
    for name, fn in AUTO:
        d = tempfile.mkdtemp(prefix='verif-stability-', dir=base)
        try:
            shutil.copytree(os.path.join(root, PKG), os.path.join(d, PKG),
                            ignore=shutil.ignore_patterns('tests',
                                                          '__pycache__'))
            shutil.copy(os.path.join(root, 'setup.cfg'), d)
            fn(d)
            c2 = Ctx(prop, tier='quick', seed=seed, root=d)
            try:
                mod.check(c2)
                got = sorted({f.key.split('|', 1)[1] for f in c2.findings})
                out[name] = 'same verdict' if (bool(got) == bool(want)
                                               and len(got) == len(want)) \
                    else 'DIFFERENT: %d vs %d findings' % (len(got),
                                                           len(want))
            except AnalysisError as e:
                out[name] = 'analysis error: %s' % e
        finally:
            shutil.rmtree(d, ignore_errors=True)
    ctx.extra['verdict_stability'] = out
    agree = sum(1 for v in out.values() if v == 'same verdict')
    print('%s verdict stability: %d/%d behaviour-preserving rewrites give '
          'the same verdict' % (prop, agree, len(out)))


def main(argv=None):
    ap = argparse.ArgumentParser(prog='pverif')
    sub = ap.add_subparsers(dest='cmd', required=True)
    c = sub.add_parser('check')
    c.add_argument('prop')
    c.add_argument('--tier', default=os.environ.get('VERIF_TIER', 'quick'))
    c.add_argument('--root', default=os.environ.get('PVERIF_ROOT', REPO))
    r = sub.add_parser('replay')
    r.add_argument('path')
    r.add_argument('--root', default=os.environ.get('PVERIF_ROOT', REPO))
    a = sub.add_parser('all')
    a.add_argument('--tier', default='quick')
    a.add_argument('--root', default=os.environ.get('PVERIF_ROOT', REPO))
    s = sub.add_parser('selftest')
    s.add_argument('--jobs', type=int, default=16)
    s.add_argument('--only', default=None)
    s.add_argument('--kind', default=None)
    args = ap.parse_args(argv)
    try:
        seed = int(os.environ.get('VERIF_SEED', '0') or 0)
    except ValueError:
        seed = 0
    if args.cmd == 'check':
        tier = args.tier if args.tier in ('quick', 'thorough') else 'quick'
        if args.prop.upper() not in PROPS:
            print('unknown property %s' % args.prop)
            return 2
        rc, _ = run_check(args.prop.upper(), tier, seed, args.root)
        return rc
    if args.cmd == 'all':
        worst = 0
        for p in PROPS:
            rc, _ = run_check(p, args.tier, seed, args.root)
            worst = max(worst, rc)
        return worst
    if args.cmd == 'replay':
        with open(args.path) as f:
            rec = json.load(f)
        prop = rec['property']
        mod = importlib.import_module('pverif.props.%s' % prop.lower())
        ctx = Ctx(prop, tier='quick', seed=seed, root=args.root)
        try:
            mod.check(ctx)
        except AnalysisError as e:
            print('ANALYSIS-ERROR property=%s %s' % (prop, e))
            return 2
        hits = [f for f in ctx.findings if f.key == rec['key']]
        if not hits:
            hits = [f for f in ctx.findings if f.rule == rec['rule']
                    and f.qual == rec['qualname']]
        for f in hits:
            print(f.line())
            if f.witness is not None:
                print('    witness: %s' % json.dumps(f.witness,
                                                     default=str)[:800])
        if hits:
            print('VIOLATION property=%s replay=%s' % (prop, args.path))
            return 1
        print('replay: finding %s no longer reproduces on the current tree'
              % rec['key'])
        return 0
    if args.cmd == 'selftest':
        from .selftest import run as st_run
        return st_run(jobs=args.jobs, only=args.only, kind=args.kind)
    return 2


if __name__ == '__main__':
    sys.exit(main())

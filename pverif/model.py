"""Program model: modules, classes, functions, name resolution, call graph.

Built from source text only (ast).  Nothing is imported from the analysed
repository.
"""
import ast
import configparser
import hashlib
import os

from . import PKG


class AnalysisError(Exception):
    """The analysis cannot be carried out (vanished anchor, unknown idiom).

    Never a verdict: reported as ANALYSIS-ERROR, exit 2.
    """


class _SuppressAsTry(ast.NodeTransformer):
    """Front-end normalisation: `with contextlib.suppress(E1, E2): BODY`
    is `try: BODY / except (E1, E2): pass` (same lines), so that every rule
    about handlers - syntactic or on paths - sees one construct."""

    def visit_With(self, node):
        self.generic_visit(node)
        if len(node.items) != 1 or node.items[0].optional_vars is not None:
            return node
        ce = node.items[0].context_expr
        if not (isinstance(ce, ast.Call) and not ce.keywords and ce.args and
                ast.unparse(ce.func) in ('contextlib.suppress', 'suppress')):
            return node
        if len(ce.args) == 1 and isinstance(ce.args[0], ast.Starred):
            typ = ce.args[0].value          # suppress(*CLASSES)
        elif any(isinstance(a, ast.Starred) for a in ce.args):
            return node
        else:
            typ = ce.args[0] if len(ce.args) == 1 else ast.Tuple(
                elts=list(ce.args), ctx=ast.Load())
        h = ast.ExceptHandler(type=typ, name=None, body=[ast.Pass()])
        t = ast.Try(body=node.body, handlers=[h], orelse=[], finalbody=[])
        ast.copy_location(t, node)
        ast.copy_location(h, ce)
        for n in ast.walk(h):
            if not hasattr(n, 'lineno'):
                ast.copy_location(n, ce)
        h.end_lineno = getattr(ce, 'end_lineno', ce.lineno)
        return ast.fix_missing_locations(t)


class _AllAnyOfDisplay(ast.NodeTransformer):
    """Front-end normalisation: all((a, b, c)) / any([a, b]) over a display
    is bool(a and b and c) / bool(a or b).  (The display evaluates every
    operand, the boolean operator only as far as needed: the same truth value
    whenever the operands evaluate at all.)"""

    def visit_Call(self, node):
        self.generic_visit(node)
        fn = ast.unparse(node.func)
        if fn in ('itertools.filterfalse', 'filterfalse', 'filter') and \
                len(node.args) == 2 and not node.keywords and isinstance(
                    node.args[0], (ast.Name, ast.Attribute, ast.Lambda)) \
                and not (isinstance(node.args[0], ast.Constant)):
            # filter(f, xs) / filterfalse(f, xs): the generator expression
            x = ast.Name(id='_flt_x', ctx=ast.Load())
            pred = node.args[0]
            if isinstance(pred, ast.Lambda) and len(
                    pred.args.args) == 1 and not pred.args.defaults:
                class _P(ast.NodeTransformer):
                    def visit_Name(self, n, _a=pred.args.args[0].arg):
                        return ast.Name(id='_flt_x', ctx=ast.Load()) \
                            if n.id == _a else n
                import copy
                test = _P().visit(copy.deepcopy(pred.body))
            elif isinstance(pred, ast.Lambda):
                return node
            else:
                test = ast.Call(func=pred, args=[x], keywords=[])
            if fn != 'filter':
                test = ast.UnaryOp(op=ast.Not(), operand=test)
            return ast.copy_location(ast.GeneratorExp(
                elt=ast.Name(id='_flt_x', ctx=ast.Load()),
                generators=[ast.comprehension(
                    target=ast.Name(id='_flt_x', ctx=ast.Store()),
                    iter=node.args[1], ifs=[test], is_async=0)]), node)
        if isinstance(node.func, ast.Name) and node.func.id in (
                'all', 'any') and len(node.args) == 1 and \
                not node.keywords and isinstance(
                    node.args[0], (ast.Tuple, ast.List)) and not any(
                        isinstance(x, ast.Starred)
                        for x in node.args[0].elts):
            elts = node.args[0].elts
            if not elts:
                val = ast.Constant(value=node.func.id == 'all')
            elif len(elts) == 1:
                val = elts[0]
            else:
                val = ast.BoolOp(op=ast.And() if node.func.id == 'all'
                                 else ast.Or(), values=list(elts))
            return ast.copy_location(ast.Call(
                func=ast.Name(id='bool', ctx=ast.Load()), args=[val],
                keywords=[]), node)
        return node

    def visit_BoolOp(self, node):
        # the selection idiom (A and K1) or (B and K2) or Z with truthy
        # constants K: K1 if A else (K2 if B else Z).  (When A is falsy,
        # `A and K1` is falsy and the `or` moves on; when A is truthy the
        # value is K1, which is truthy and ends the `or`.)
        self.generic_visit(node)
        if not isinstance(node.op, ast.Or) or len(node.values) < 2:
            return node

        def pick(x):
            if isinstance(x, ast.BoolOp) and isinstance(x.op, ast.And) and \
                    isinstance(x.values[-1], ast.Constant) and \
                    x.values[-1].value and x.values[-1].value is not True:
                rest = x.values[:-1]
                test = rest[0] if len(rest) == 1 else ast.BoolOp(
                    op=ast.And(), values=rest)
                return test, x.values[-1]
            return None
        picks = [pick(x) for x in node.values[:-1]]
        if not all(picks):
            return node
        out = node.values[-1]
        for test, k in reversed(picks):
            out = ast.IfExp(test=test, body=k, orelse=out)
        return ast.copy_location(out, node)

    def visit_FunctionDef(self, node):
        # `hit = next(<gen>, None)` whose only uses are `hit is [not] None`:
        # the call written where it is tested
        import copy
        cands = {}
        for st in ast.walk(node):
            if isinstance(st, ast.Assign) and len(st.targets) == 1 and \
                    isinstance(st.targets[0], ast.Name) and isinstance(
                        st.value, ast.Call) and isinstance(
                            st.value.func, ast.Name) and \
                    st.value.func.id == 'next' and len(st.value.args) == 2:
                cands.setdefault(st.targets[0].id, []).append(st)
        for name, sts in list(cands.items()):
            if len(sts) != 1:
                continue
            loads = [n for n in ast.walk(node) if isinstance(n, ast.Name)
                     and n.id == name and isinstance(n.ctx, ast.Load)]
            tests = [c for c in ast.walk(node) if isinstance(c, ast.Compare)
                     and len(c.ops) == 1 and isinstance(
                         c.ops[0], (ast.Is, ast.IsNot)) and isinstance(
                             c.left, ast.Name) and c.left.id == name
                     and isinstance(c.comparators[0], ast.Constant)
                     and c.comparators[0].value is None]
            stores = [n for n in ast.walk(node) if isinstance(n, ast.Name)
                      and n.id == name and isinstance(n.ctx, ast.Store)]
            if not tests or len(loads) != len(tests) or len(stores) != 1:
                continue
            for c in tests:
                c.left = copy.deepcopy(sts[0].value)

            class _Drop(ast.NodeTransformer):
                def visit_Assign(self, n, _st=sts[0]):
                    return ast.Pass() if n is _st else n
            node = _Drop().visit(node)
        return self.generic_visit(node)

    def _registry_items(self, node):
        # for NAME, D in <x>.registered_rules.items():  the registry of
        # defaults is keyed by the default's own name (every store is
        # `registered_rules[d.name] = <copy of d>`: C12.COPY-IN checks it),
        # so NAME is D.name
        it = node.iter
        if not (isinstance(it, ast.Call) and isinstance(
                it.func, ast.Attribute) and it.func.attr == 'items'
                and not it.args and isinstance(
                    it.func.value, ast.Attribute)
                and it.func.value.attr == 'registered_rules'
                and isinstance(it.func.value.value, ast.Name)
                and it.func.value.value.id == 'self'
                and isinstance(node.target, ast.Tuple)
                and len(node.target.elts) == 2 and all(
                    isinstance(e, ast.Name) for e in node.target.elts)):
            return node
        k, v = node.target.elts[0].id, node.target.elts[1].id
        if any(isinstance(n, ast.Name) and n.id in (k, v) and isinstance(
                n.ctx, (ast.Store, ast.Del))
                for st in node.body + node.orelse for n in ast.walk(st)):
            return node

        class _K(ast.NodeTransformer):
            def visit_Name(self, n):
                if n.id == k and isinstance(n.ctx, ast.Load):
                    return ast.copy_location(ast.Attribute(
                        value=ast.Name(id=v, ctx=ast.Load()), attr='name',
                        ctx=ast.Load()), n)
                return n
        node.body = [_K().visit(st) for st in node.body]
        node.orelse = [_K().visit(st) for st in node.orelse]
        node.target = ast.Name(id=v, ctx=ast.Store())
        node.iter = ast.Call(func=ast.Attribute(
            value=it.func.value, attr='values', ctx=ast.Load()), args=[],
            keywords=[])
        return node

    def visit_List(self, node):
        # [*xs] is list(xs)
        self.generic_visit(node)
        if isinstance(node.ctx, ast.Load) and len(node.elts) == 1 and \
                isinstance(node.elts[0], ast.Starred):
            return ast.copy_location(ast.Call(
                func=ast.Name(id='list', ctx=ast.Load()),
                args=[node.elts[0].value], keywords=[]), node)
        return node

    def visit_For(self, node):
        node = self._registry_items(node)
        # the search loop  for x in L: if x == v: break / else: MISS
        # is  if v not in L: MISS
        self.generic_visit(node)
        if isinstance(node.target, ast.Name) and len(node.body) == 1 and \
                node.orelse and isinstance(node.body[0], ast.If) and \
                not node.body[0].orelse and len(node.body[0].body) == 1 and \
                isinstance(node.body[0].body[0], ast.Break):
            t = node.body[0].test
            x = node.target.id
            if isinstance(t, ast.Compare) and len(t.ops) == 1 and \
                    isinstance(t.ops[0], ast.Eq):
                a, b = t.left, t.comparators[0]
                if isinstance(b, ast.Name) and b.id == x:
                    a, b = b, a
                if isinstance(a, ast.Name) and a.id == x and not any(
                        isinstance(n, ast.Name) and n.id == x
                        for n in ast.walk(b)) and not any(
                        isinstance(n, ast.Name) and n.id == x
                        for st in node.orelse for n in ast.walk(st)):
                    return ast.copy_location(ast.If(
                        test=ast.Compare(left=b, ops=[ast.NotIn()],
                                         comparators=[node.iter]),
                        body=node.orelse, orelse=[]), node)
        return node

    def visit_Compare(self, node):
        # next((v for v in X if P(v)), None) is not None  is  any(P(v) for v
        # in X)  -  when P calls a method on v (so a v that satisfies P is
        # not None itself)
        self.generic_visit(node)
        if len(node.ops) != 1 or not isinstance(
                node.ops[0], (ast.Is, ast.IsNot)):
            return node
        a, b = node.left, node.comparators[0]
        if isinstance(a, ast.Constant) and a.value is None:
            a, b = b, a
        if not (isinstance(b, ast.Constant) and b.value is None
                and isinstance(a, ast.Call) and isinstance(a.func, ast.Name)
                and a.func.id == 'next' and len(a.args) == 2
                and not a.keywords and isinstance(a.args[1], ast.Constant)
                and a.args[1].value is None and isinstance(
                    a.args[0], ast.GeneratorExp)
                and len(a.args[0].generators) == 1):
            return node
        g = a.args[0].generators[0]
        if not (isinstance(g.target, ast.Name) and g.ifs and isinstance(
                a.args[0].elt, ast.Name)
                and a.args[0].elt.id == g.target.id and any(
                    isinstance(n, ast.Attribute) and isinstance(
                        n.value, ast.Name) and n.value.id == g.target.id
                    for c in g.ifs for n in ast.walk(c))):
            return node
        test = g.ifs[0] if len(g.ifs) == 1 else ast.BoolOp(
            op=ast.And(), values=list(g.ifs))
        out = ast.Call(func=ast.Name(id='any', ctx=ast.Load()), args=[
            ast.GeneratorExp(elt=test, generators=[ast.comprehension(
                target=g.target, iter=g.iter, ifs=[], is_async=0)])],
            keywords=[])
        if isinstance(node.ops[0], ast.Is):
            out = ast.UnaryOp(op=ast.Not(), operand=out)
        return ast.copy_location(out, node)

    def visit_Module(self, node):
        # module-level NAME = (const, const), bound once
        self._pairs = {}
        count = {}
        for st in node.body:
            if isinstance(st, ast.Assign):
                for tg in st.targets:
                    if isinstance(tg, ast.Name):
                        count[tg.id] = count.get(tg.id, 0) + 1
                        if isinstance(st.value, (ast.Tuple, ast.List)) and \
                                len(st.value.elts) == 2 and all(
                                    isinstance(e, ast.Constant)
                                    for e in st.value.elts):
                            self._pairs[tg.id] = st.value
        self._pairs = {k: v for k, v in self._pairs.items()
                       if count.get(k) == 1}
        return self.generic_visit(node)

    def visit_Subscript(self, node):
        # (A, B)[bool(x)]  is  B if x else A
        self.generic_visit(node)
        v, k = node.value, node.slice
        if isinstance(v, ast.Name) and v.id in getattr(self, '_pairs', {}):
            v = self._pairs[v.id]
        if isinstance(node.ctx, ast.Load) and isinstance(
                v, (ast.Tuple, ast.List)) and len(v.elts) == 2 and \
                isinstance(k, ast.Call) and isinstance(
                    k.func, ast.Name) and k.func.id == 'bool' and len(
                        k.args) == 1 and not k.keywords and all(
                    isinstance(e, ast.Constant) for e in v.elts):
            return ast.copy_location(ast.IfExp(
                test=k.args[0], body=v.elts[1], orelse=v.elts[0]), node)
        return node

    def visit_JoinedStr(self, node):
        # f'{x}' with nothing around it and no conversion / format spec is
        # format(x, ''), which is str(x) for the built-in types
        self.generic_visit(node)
        if len(node.values) == 1 and isinstance(
                node.values[0], ast.FormattedValue) and \
                node.values[0].conversion == -1 and \
                node.values[0].format_spec is None:
            return ast.copy_location(ast.Call(
                func=ast.Name(id='str', ctx=ast.Load()),
                args=[node.values[0].value], keywords=[]), node)
        return node


class _MatchAsIf(ast.NodeTransformer):
    """Front-end normalisation: a `match` over a plain name / attribute
    whose cases are literals, `|` of literals, `None` / `True` / `False`,
    class patterns without arguments (`case str():`) or the wildcard - with
    or without guards - is the if / elif chain it abbreviates.  Anything
    else (captures, sequence and mapping patterns) is left alone."""

    def _test(self, subj, pat):
        import copy
        sub = lambda: copy.deepcopy(subj)
        if isinstance(pat, ast.MatchValue):
            return ast.Compare(left=sub(), ops=[ast.Eq()],
                               comparators=[pat.value])
        if isinstance(pat, ast.MatchSingleton):
            return ast.Compare(left=sub(), ops=[ast.Is()],
                               comparators=[ast.Constant(value=pat.value)])
        if isinstance(pat, ast.MatchOr):
            parts = [self._test(subj, x) for x in pat.patterns]
            if any(x is None for x in parts):
                return None
            if all(isinstance(x, ast.Compare) and isinstance(
                    x.ops[0], ast.Eq) for x in parts):
                return ast.Compare(left=sub(), ops=[ast.In()], comparators=[
                    ast.Tuple(elts=[x.comparators[0] for x in parts],
                              ctx=ast.Load())])
            return ast.BoolOp(op=ast.Or(), values=parts)
        if isinstance(pat, ast.MatchClass) and not pat.patterns and \
                not pat.kwd_patterns:
            return ast.Call(func=ast.Name(id='isinstance', ctx=ast.Load()),
                            args=[sub(), pat.cls], keywords=[])
        if isinstance(pat, ast.MatchAs) and pat.pattern is None and \
                pat.name is None:
            return True
        return None

    def visit_Match(self, node):
        self.generic_visit(node)
        subj = node.subject
        if not isinstance(subj, (ast.Name, ast.Attribute)) or any(
                isinstance(n, ast.Call) for n in ast.walk(subj)):
            return node
        arms = []
        for c in node.cases:
            t = self._test(subj, c.pattern)
            if t is None:
                return node
            if c.guard is not None:
                t = c.guard if t is True else ast.BoolOp(
                    op=ast.And(), values=[t, c.guard])
            arms.append((t, c.body, c))
        out = None
        for t, body, c in reversed(arms):
            if t is True:
                out = list(body)
                continue
            nif = ast.If(test=t, body=list(body), orelse=(
                out if isinstance(out, list) else ([out] if out else [])))
            ast.copy_location(nif, c.pattern)
            out = nif
        if isinstance(out, list):
            # only a wildcard: its body, as it is
            blk = ast.If(test=ast.Constant(value=True), body=out, orelse=[])
            ast.copy_location(blk, node)
            out = blk
        if out is None:
            return node
        for n in ast.walk(out):
            if not hasattr(n, 'lineno'):
                ast.copy_location(n, node)
        return ast.fix_missing_locations(out)


class _AppendLoopAsComp(ast.NodeTransformer):
    """Front-end normalisation:

        NAME = []
        for T in ITER:            (optionally: if COND:)
            NAME.append(EXPR)

    is `NAME = [EXPR for T in ITER (if COND)]` when the loop has no else,
    its body is that one statement, EXPR / COND do not mention NAME and the
    loop variables are not read after the loop (a comprehension does not
    leave them bound)."""

    def _rewrite(self, body, scope_rest):
        out = []
        i = 0
        while i < len(body):
            st = body[i]
            nxt = body[i + 1] if i + 1 < len(body) else None
            done = False
            if isinstance(st, ast.Assign) and len(st.targets) == 1 and \
                    isinstance(st.targets[0], ast.Name) and isinstance(
                        st.value, ast.List) and not st.value.elts and \
                    isinstance(nxt, ast.For) and not nxt.orelse and \
                    len(nxt.body) == 1:
                name = st.targets[0].id
                inner = nxt.body[0]
                cond = None
                if isinstance(inner, ast.If) and not inner.orelse and len(
                        inner.body) == 1:
                    cond, inner = inner.test, inner.body[0]
                call = inner.value if isinstance(inner, ast.Expr) else None
                if isinstance(call, ast.Call) and isinstance(
                        call.func, ast.Attribute) and call.func.attr == \
                        'append' and isinstance(call.func.value, ast.Name) \
                        and call.func.value.id == name and len(
                            call.args) == 1 and not call.keywords:
                    tvars = {n.id for n in ast.walk(nxt.target)
                             if isinstance(n, ast.Name)}
                    mentions = lambda x: x is not None and any(
                        isinstance(n, ast.Name) and n.id == name
                        for n in ast.walk(x))
                    fn = getattr(self, '_fn', None)
                    later = [n for n in ast.walk(fn)] if fn is not None \
                        else [n for s2 in body[i + 2:] for n in ast.walk(s2)]
                    end = getattr(nxt, 'end_lineno', nxt.lineno)
                    reads_tvar = any(isinstance(n, ast.Name) and n.id in
                                     tvars and isinstance(n.ctx, ast.Load)
                                     and getattr(n, 'lineno', 0) > end
                                     for n in later)
                    has_flow = any(isinstance(n, (ast.Yield, ast.YieldFrom,
                                                  ast.Await, ast.NamedExpr))
                                   for n in ast.walk(nxt))
                    if not mentions(call.args[0]) and not mentions(cond) \
                            and not mentions(nxt.iter) and not reads_tvar \
                            and not has_flow:
                        comp = ast.ListComp(elt=call.args[0], generators=[
                            ast.comprehension(
                                target=nxt.target, iter=nxt.iter,
                                ifs=[cond] if cond is not None else [],
                                is_async=0)])
                        ast.copy_location(comp, nxt)
                        new = ast.Assign(targets=st.targets, value=comp)
                        ast.copy_location(new, nxt)
                        new.lineno = st.lineno
                        out.append(ast.fix_missing_locations(new))
                        i += 2
                        done = True
            if not done:
                out.append(st)
                i += 1
        return out

    def visit_FunctionDef(self, node):
        prev = getattr(self, '_fn', None)
        self._fn = node
        try:
            return self.generic_visit(node)
        finally:
            self._fn = prev
    visit_AsyncFunctionDef = visit_FunctionDef

    def generic_visit(self, node):
        node = super().generic_visit(node)
        for fld in ('body', 'orelse', 'finalbody'):
            blk = getattr(node, fld, None)
            if isinstance(blk, list) and blk and isinstance(blk[0],
                                                            ast.stmt):
                setattr(node, fld, self._rewrite(blk, []))
        return node


class Module:
    def __init__(self, name, path, source):
        self.name = name
        self.path = path
        self.source = source
        self.sha256 = hashlib.sha256(source.encode()).hexdigest()
        self.tree = ast.fix_missing_locations(_AllAnyOfDisplay().visit(
            _AppendLoopAsComp().visit(_MatchAsIf().visit(
                _SuppressAsTry().visit(ast.parse(source, filename=path))))))
        self.imports = {}     # local name -> qualified target
        self.aliases = {}     # module-level NAME = dotted expr
        self.consts = {}      # module-level NAME = constant ast node
        self.assigns = {}     # module-level NAME -> value node (last)
        self.functions = {}   # name -> FunctionInfo
        self.classes = {}     # name -> ClassInfo

    @property
    def relpath(self):
        return self.path


class FunctionInfo:
    def __init__(self, module, node, cls=None):
        self.module = module
        self.node = node
        self.cls = cls
        self.name = node.name
        self.qual = (module.name + '.' + (cls.name + '.' if cls else '')
                     + node.name)
        self.decorators = node.decorator_list

    @property
    def params(self):
        a = self.node.args
        return [x.arg for x in a.posonlyargs + a.args]

    @property
    def is_static(self):
        return any(isinstance(d, ast.Name) and d.id == 'staticmethod'
                   for d in self.decorators)

    @property
    def is_classmethod(self):
        return any(isinstance(d, ast.Name) and d.id == 'classmethod'
                   for d in self.decorators)

    @property
    def is_property(self):
        return any((isinstance(d, ast.Name) and d.id in (
            'property', 'cached_property')) or (
                isinstance(d, ast.Attribute) and d.attr == 'cached_property')
            for d in self.decorators)

    def defaults(self):
        """Mapping parameter -> default ast node."""
        a = self.node.args
        pos = a.posonlyargs + a.args
        out = {}
        for p, d in zip(pos[len(pos) - len(a.defaults):], a.defaults):
            out[p.arg] = d
        for p, d in zip(a.kwonlyargs, a.kw_defaults):
            if d is not None:
                out[p.arg] = d
        return out

    def loc(self, node=None):
        n = node if node is not None else self.node
        return '%s:%s' % (self.module.path, getattr(n, 'lineno', '?'))

    def __repr__(self):
        return '<F %s>' % self.qual


class ClassInfo:
    def __init__(self, module, node):
        self.module = module
        self.node = node
        self.name = node.name
        self.qual = module.name + '.' + node.name
        self.methods = {}
        self.method_aliases = {}   # name -> expr naming a function
        self.class_attrs = {}
        self.base_exprs = node.bases
        self.bases = []   # resolved quals (filled by Program)

    def __repr__(self):
        return '<C %s>' % self.qual


def dotted(expr):
    """Name / Attribute chain -> list of parts, else None."""
    parts = []
    while isinstance(expr, ast.Attribute):
        parts.append(expr.attr)
        expr = expr.value
    if isinstance(expr, ast.Name):
        parts.append(expr.id)
        return list(reversed(parts))
    return None


class Program:
    def __init__(self, root):
        self.root = root
        self.modules = {}
        self.classes = {}
        self.functions = {}
        self.units = []
        pkgdir = os.path.join(root, PKG)
        if not os.path.isdir(pkgdir):
            raise AnalysisError('package directory %s missing' % pkgdir)
        for dirpath, dirnames, filenames in os.walk(pkgdir):
            dirnames[:] = sorted(d for d in dirnames
                                 if d not in ('tests', '__pycache__'))
            for fn in sorted(filenames):
                if not fn.endswith('.py'):
                    continue
                path = os.path.join(dirpath, fn)
                rel = os.path.relpath(path, root)
                modname = rel[:-3].replace(os.sep, '.')
                if modname.endswith('.__init__'):
                    modname = modname[:-len('.__init__')]
                with open(path, encoding='utf-8') as f:
                    src = f.read()
                try:
                    m = Module(modname, path, src)
                except SyntaxError as e:
                    raise AnalysisError('cannot parse %s: %s' % (path, e))
                self.modules[modname] = m
                self.units.append(m)
        for m in self.units:
            self._index(m)
        for c in self.classes.values():
            c.bases = [self.resolve(c.module, b) for b in c.base_exprs]
        self.setup_cfg = self._read_setup_cfg()
        self._callees = {}

    # ------------------------------------------------------------ indexing
    def _index(self, m):
        for node in m.tree.body:
            if isinstance(node, ast.Import):
                for a in node.names:
                    local = a.asname or a.name.split('.')[0]
                    target = a.name if a.asname else a.name.split('.')[0]
                    m.imports[local] = target
            elif isinstance(node, ast.ImportFrom):
                base = node.module or ''
                if node.level:
                    pk = m.name.split('.')
                    pk = pk[:len(pk) - node.level]
                    base = '.'.join(pk + ([base] if base else []))
                for a in node.names:
                    m.imports[a.asname or a.name] = base + '.' + a.name
            elif isinstance(node, (ast.FunctionDef, ast.AsyncFunctionDef)):
                fi = FunctionInfo(m, node)
                m.functions[node.name] = fi
                self.functions[fi.qual] = fi
            elif isinstance(node, ast.ClassDef):
                ci = ClassInfo(m, node)
                m.classes[node.name] = ci
                self.classes[ci.qual] = ci
                for sub in node.body:
                    if isinstance(sub, (ast.FunctionDef,
                                        ast.AsyncFunctionDef)):
                        fi = FunctionInfo(m, sub, ci)
                        # property setters etc: keep first def unless setter
                        if sub.name in ci.methods and not fi.is_property:
                            pass
                        ci.methods[sub.name] = fi
                        self.functions[fi.qual] = fi
                    elif isinstance(sub, ast.Assign):
                        for t in sub.targets:
                            if isinstance(t, ast.Name):
                                ci.class_attrs[t.id] = sub.value
                                v = sub.value
                                if isinstance(v, ast.Call) and isinstance(
                                        v.func, ast.Name) and v.func.id in (
                                            'staticmethod', 'classmethod') \
                                        and len(v.args) == 1:
                                    ci.method_aliases[t.id] = (v.func.id,
                                                               v.args[0])
                                elif isinstance(v, (ast.Name,
                                                    ast.Attribute)):
                                    ci.method_aliases[t.id] = ('plain', v)
            elif isinstance(node, ast.Assign):
                for t in node.targets:
                    if isinstance(t, ast.Name):
                        m.assigns[t.id] = node.value
                        d = dotted(node.value)
                        if d:
                            m.aliases[t.id] = d
                        if isinstance(node.value, ast.Constant):
                            m.consts[t.id] = node.value
            elif isinstance(node, ast.AnnAssign) and node.value is not None:
                if isinstance(node.target, ast.Name):
                    m.assigns[node.target.id] = node.value

    def _read_setup_cfg(self):
        path = os.path.join(self.root, 'setup.cfg')
        out = {}
        if not os.path.exists(path):
            return out
        cp = configparser.ConfigParser()
        try:
            cp.read(path)
        except configparser.Error as e:
            raise AnalysisError('setup.cfg unreadable: %s' % e)
        if cp.has_section('entry_points'):
            for key, val in cp.items('entry_points'):
                table = {}
                for line in val.splitlines():
                    line = line.strip()
                    if not line or '=' not in line:
                        continue
                    k, v = line.split('=', 1)
                    table[k.strip()] = v.strip()
                out[key] = table
        return out

    # ---------------------------------------------------------- resolution
    def resolve_parts(self, module, parts, _depth=0):
        """Resolve a dotted name (list of parts) seen in `module`.

        Returns a qualified symbol: 'oslo_policy._checks.AndCheck' for things
        defined in the package, 'ext:os.path.getmtime' for anything else,
        'builtin:len' for unresolved bare names.
        """
        if _depth > 8:
            return 'ext:' + '.'.join(parts)
        head, rest = parts[0], parts[1:]
        if head in module.classes or head in module.functions:
            base = module.name + '.' + head
            return self._descend(base, rest)
        if head in module.aliases and module.aliases[head] != parts:
            return self.resolve_parts(module, module.aliases[head] + rest,
                                      _depth + 1)
        if head in module.imports:
            base = module.imports[head]
            return self._descend(base, rest, _depth)
        if head in module.assigns:
            return module.name + '.' + '.'.join(parts)
        if not rest:
            return 'builtin:' + head
        return 'ext:' + '.'.join(parts)

    def _descend(self, base, rest, _depth=0):
        # base is a dotted absolute name; walk into package modules
        while True:
            if base in self.modules:
                if not rest:
                    return base
                m = self.modules[base]
                return self.resolve_parts(m, rest, _depth + 1)
            if base in self.classes or base in self.functions:
                if not rest:
                    return base
                if base in self.classes and len(rest) == 1:
                    f = self.find_method(base, rest[0])
                    if f:
                        return f.qual
                return base + '.' + '.'.join(rest)
            # maybe base = 'oslo_policy._checks.AndCheck' given as
            # module.attr where module is in package
            if '.' in base:
                mod, attr = base.rsplit('.', 1)
                if mod in self.modules:
                    return self.resolve_parts(self.modules[mod],
                                              [attr] + rest, _depth + 1)
            if base.split('.')[0] == PKG:
                return base + ('.' + '.'.join(rest) if rest else '')
            return 'ext:' + base + ('.' + '.'.join(rest) if rest else '')

    def resolve(self, module, expr):
        d = dotted(expr)
        if d is None:
            return None
        return self.resolve_parts(module, d)

    # ----------------------------------------------------------- constants
    def _immutable_literal(self, v, names_ok=False):
        """Normalised immutable literal (Constant / Tuple of them), else
        None.  frozenset(L) / tuple(L) / set displays of constants are
        normalised to a tuple display: such constants are used for
        membership tests and iteration only."""
        if isinstance(v, ast.Constant):
            return v
        if isinstance(v, ast.Dict) and v.keys and all(
                isinstance(k, ast.Constant) for k in v.keys):
            # a lookup table: constant keys, constant or named values
            vals = []
            for x in v.values:
                if dotted(x) is not None and names_ok:
                    vals.append(x)
                    continue
                y = self._immutable_literal(x, names_ok)
                if y is None:
                    return None
                vals.append(y)
            return ast.Dict(keys=list(v.keys), values=vals)
        if isinstance(v, ast.Call) and dotted(v.func) is not None and \
                getattr(self, '_record_module', None) is not None and \
                self.record_fields(self._record_module, v.func):
            # a namedtuple instance with constant fields
            if all(self._immutable_literal(a, names_ok) is not None
                   for a in v.args) and all(
                       k.arg and self._immutable_literal(
                           k.value, names_ok) is not None
                       for k in v.keywords):
                return v
        frozen = False
        if isinstance(v, ast.Call) and isinstance(v.func, ast.Name) and \
                v.func.id in ('frozenset', 'tuple') and not v.keywords:
            if not v.args:
                return ast.Tuple(elts=[], ctx=ast.Load())
            if len(v.args) == 1 and isinstance(v.args[0], (
                    ast.Tuple, ast.List, ast.Set)):
                v = v.args[0]
                frozen = True
            else:
                return None
        if isinstance(v, (ast.Tuple, ast.Set)) or (
                isinstance(v, ast.List) and frozen):
            elts = []
            for e in v.elts:
                if names_ok and dotted(e) is not None:
                    elts.append(e)
                    continue
                x = self._immutable_literal(e, names_ok)
                if x is None:
                    return None
                elts.append(x)
            return ast.Tuple(elts=elts, ctx=ast.Load())
        return None

    def _module_const_names(self, module):
        """Module-level names assigned exactly once, never declared global
        in a function, never augmented."""
        cached = getattr(module, '_const_names', None)
        if cached is not None:
            return cached
        count = {}
        for node in module.tree.body:
            tg = []
            if isinstance(node, ast.Assign):
                tg = node.targets
            elif isinstance(node, (ast.AnnAssign, ast.AugAssign)):
                tg = [node.target]
                if isinstance(node, ast.AugAssign) and isinstance(
                        node.target, ast.Name):
                    count[node.target.id] = 99
            for t in tg:
                for n in ast.walk(t):
                    if isinstance(n, ast.Name):
                        count[n.id] = count.get(n.id, 0) + 1
        MUT = ('append', 'extend', 'insert', 'remove', 'pop', 'clear',
               'update', 'setdefault', 'add', 'discard', 'popitem', 'sort',
               'reverse', '__setitem__', '__delitem__')
        for n in ast.walk(module.tree):
            if isinstance(n, ast.Global):
                for nm in n.names:
                    count[nm] = 99
            # mutated in place somewhere in the module: not a constant
            if isinstance(n, ast.Call) and isinstance(
                    n.func, ast.Attribute) and isinstance(
                        n.func.value, ast.Name) and n.func.attr in MUT:
                count[n.func.value.id] = 99
            if isinstance(n, ast.Subscript) and isinstance(
                    n.ctx, (ast.Store, ast.Del)) and isinstance(
                        n.value, ast.Name):
                count[n.value.id] = 99
        module._const_names = {k for k, c in count.items() if c == 1}
        return module._const_names

    def module_constants(self, module, names_ok=False):
        """{name: immutable literal} of the module's constants."""
        key = '_consts_%s' % names_ok
        cached = getattr(module, key, None)
        if cached is not None:
            return cached
        out = {}
        for nm in self._module_const_names(module):
            v = module.assigns.get(nm)
            if v is None:
                continue
            self._record_module = module
            try:
                lit = self._immutable_literal(v, names_ok)
            finally:
                self._record_module = None
            if lit is not None:
                out[nm] = lit
        setattr(module, key, out)
        return out

    def class_constants(self, clsqual, names_ok=False):
        """{attr: immutable literal} of class-level constants that no
        method of the hierarchy (or anything else in the package) stores
        to."""
        cache = self.__dict__.setdefault('_class_consts', {})
        k = (clsqual, names_ok)
        if k in cache:
            return cache[k]
        stored = self.__dict__.get('_stored_attrs')
        if stored is None:
            stored = set()
            for m in self.units:
                for n in ast.walk(m.tree):
                    if isinstance(n, ast.Attribute) and isinstance(
                            n.ctx, (ast.Store, ast.Del)):
                        stored.add(n.attr)
                    elif isinstance(n, ast.Call) and isinstance(
                            n.func, ast.Name) and n.func.id == 'setattr':
                        if len(n.args) >= 2 and isinstance(
                                n.args[1], ast.Constant):
                            stored.add(n.args[1].value)
            self.__dict__['_stored_attrs'] = stored
        out = {}
        for q in reversed(self.mro(clsqual)):
            c = self.classes.get(q)
            if c is None:
                continue
            for nm, v in c.class_attrs.items():
                if nm in stored:
                    out.pop(nm, None)
                    continue
                lit = self._immutable_literal(v, names_ok)
                if lit is not None:
                    out[nm] = lit
                else:
                    out.pop(nm, None)
        cache[k] = out
        return out

    def const_expr(self, module, expr, cls=None, names_ok=False):
        """The immutable constant a Name / self.X / cls.X / Class.X /
        module.X denotes, else None."""
        if isinstance(expr, ast.Name):
            return self.module_constants(module, names_ok).get(expr.id)
        if isinstance(expr, ast.Attribute):
            if isinstance(expr.value, ast.Name) and expr.value.id in (
                    'self', 'cls') and cls is not None:
                return self.class_constants(cls.qual, names_ok).get(
                    expr.attr)
            base = self.resolve(module, expr.value)
            if base in self.classes:
                return self.class_constants(base, names_ok).get(expr.attr)
            if base in self.modules:
                return self.module_constants(self.modules[base],
                                             names_ok).get(expr.attr)
        return None

    # ------------------------------------------------------------- records
    def record_fields(self, module, func):
        """Field names when `func` names a namedtuple type of the package
        (collections.namedtuple(...) bound at module level, or a class whose
        base is typing.NamedTuple), else None."""
        d = dotted(func)
        if d is None:
            return None
        r = self.resolve(module, func)
        cache = self.__dict__.setdefault('_records', {})
        if r in cache:
            return cache[r]
        out = None
        if r in self.classes:
            c = self.classes[r]
            if any((self.resolve(c.module, b) or '').endswith('NamedTuple')
                   for b in c.base_exprs):
                out = [n.target.id for n in c.node.body
                       if isinstance(n, ast.AnnAssign)
                       and isinstance(n.target, ast.Name)]
        elif r and r.rsplit('.', 1)[0] in self.modules:
            m = self.modules[r.rsplit('.', 1)[0]]
            v = m.assigns.get(r.rsplit('.', 1)[1])
            if isinstance(v, ast.Call) and (self.resolve(m, v.func) or ''
                                            ).endswith('namedtuple') and \
                    len(v.args) >= 2:
                f = v.args[1]
                if isinstance(f, ast.Constant) and isinstance(f.value, str):
                    out = f.value.replace(',', ' ').split()
                elif isinstance(f, (ast.List, ast.Tuple)) and all(
                        isinstance(x, ast.Constant) for x in f.elts):
                    out = [x.value for x in f.elts]
        cache[r] = out
        return out

    def record_args(self, module, call):
        """{field: expr} for a constructor call of a namedtuple type, else
        None (missing fields -> None when the type has defaults)."""
        if not isinstance(call, ast.Call):
            return None
        fields = self.record_fields(module, call.func)
        if not fields:
            return None
        if any(isinstance(a, ast.Starred) for a in call.args) or any(
                k.arg is None for k in call.keywords):
            return None
        out = {}
        for f, a in zip(fields, call.args):
            out[f] = a
        for k in call.keywords:
            if k.arg in fields:
                out[k.arg] = k.value
        for f in fields:
            out.setdefault(f, ast.Constant(value=None))
        return out

    # ------------------------------------------------------------- classes
    def mro(self, qual):
        out = []
        todo = [qual]
        while todo:
            q = todo.pop(0)
            if q in out:
                continue
            out.append(q)
            c = self.classes.get(q)
            if c:
                todo.extend(c.bases)
        return out

    def find_method(self, clsqual, name):
        for q in self.mro(clsqual):
            c = self.classes.get(q)
            if c and name in c.methods:
                return c.methods[name]
            if c and name in c.method_aliases:
                how, target = c.method_aliases[name]
                r = self.resolve(c.module, target)
                f = self.functions.get(r) if r else None
                if f is not None and (how != 'plain' or f.cls is None):
                    # `X = staticmethod(f)`: calls through self/cls reach f
                    # with the arguments as written
                    if how == 'staticmethod' or f.cls is not None:
                        return f
        return None

    def is_subclass(self, clsqual, basequal):
        return basequal in self.mro(clsqual)

    def subclasses(self, basequal):
        return [q for q in self.classes if basequal in self.mro(q)]

    # ------------------------------------------------------------- lookups
    def func(self, qual):
        f = self.functions.get(qual)
        if f is None:
            raise AnalysisError('anchor vanished: function %s' % qual)
        return f

    def cls(self, qual):
        c = self.classes.get(qual)
        if c is None:
            raise AnalysisError('anchor vanished: class %s' % qual)
        return c

    def module(self, name):
        m = self.modules.get(name)
        if m is None:
            raise AnalysisError('anchor vanished: module %s' % name)
        return m

    # ---------------------------------------------------------- call graph
    def attr_types(self, clsqual):
        """self.<attr> -> class qual, when every assignment in the class (and
        bases) is a constructor call of one package class."""
        cache = self.__dict__.setdefault('_attr_types', {})
        if clsqual in cache:
            return cache[clsqual]
        types = {}
        bad = set()
        for q in self.mro(clsqual):
            c = self.classes.get(q)
            if not c:
                continue
            for f in c.methods.values():
                for n in ast.walk(f.node):
                    if isinstance(n, ast.Assign):
                        for t in n.targets:
                            if (isinstance(t, ast.Attribute)
                                    and isinstance(t.value, ast.Name)
                                    and t.value.id == 'self'):
                                ty = None
                                if isinstance(n.value, ast.Call):
                                    r = self.resolve(c.module, n.value.func)
                                    if r in self.classes:
                                        ty = r
                                if ty is None:
                                    bad.add(t.attr)
                                elif types.setdefault(t.attr, ty) != ty:
                                    bad.add(t.attr)
        cache[clsqual] = {k: v for k, v in types.items() if k not in bad}
        return cache[clsqual]

    def wrapper_of(self, finfo):
        """(wrapper FunctionDef, name of the decorator's parameter) for a
        function with exactly one decorator of the program that is a plain
        `def deco(fn): def wrapper(...): ... fn(...) ...; return wrapper`
        (functools.wraps allowed) and whose wrapper takes the function's own
        parameter names."""
        decs = [d for d in getattr(finfo.node, 'decorator_list', [])
                if not (isinstance(d, ast.Name) and d.id in (
                    'staticmethod', 'classmethod', 'property'))
                and not (isinstance(d, ast.Attribute) and d.attr in (
                    'abstractmethod', 'setter'))]
        if len(decs) == 1 and isinstance(decs[0], ast.Call) and \
                not decs[0].keywords and not any(
                    isinstance(a, ast.Starred) for a in decs[0].args):
            # @factory(a, b): `def factory(...): def deco(fn): ...; return
            # deco` - the decorator is the inner function, with the factory's
            # parameters bound to the arguments written at the site
            try:
                q = self.resolve(finfo.module, decs[0].func)
            except Exception:
                return None
            fac = self.functions.get(q) if isinstance(q, str) else None
            if fac is None:
                return None
            inner = [n for n in fac.node.body
                     if isinstance(n, ast.FunctionDef)]
            rets = [n for n in fac.node.body if isinstance(n, ast.Return)]
            rest = [n for n in fac.node.body if n not in inner
                    and n not in rets and not (
                        isinstance(n, ast.Expr)
                        and isinstance(n.value, ast.Constant))]
            if len(inner) != 1 or len(rets) != 1 or rest or not (
                    isinstance(rets[0].value, ast.Name)
                    and rets[0].value.id == inner[0].name):
                return None
            a = fac.node.args
            if a.kwonlyargs or a.kwarg or a.defaults:
                return None
            names = [x.arg for x in a.posonlyargs + a.args]
            args = list(decs[0].args)
            if len(args) < len(names) or (len(args) > len(names)
                                          and not a.vararg):
                return None
            bind = dict(zip(names, args))
            if a.vararg:
                bind[a.vararg.arg] = ast.Tuple(elts=args[len(names):],
                                               ctx=ast.Load())
            r = self._plain_wrapper(finfo, inner[0])
            if r is None:
                return None
            return r[0], r[1], bind
        if len(decs) != 1 or not isinstance(decs[0], (ast.Name,
                                                      ast.Attribute)):
            return None
        try:
            q = self.resolve(finfo.module, decs[0])
        except Exception:
            return None
        d = self.functions.get(q) if isinstance(q, str) else None
        if d is None or len(d.params) != 1:
            return None
        return self._plain_wrapper(finfo, d.node)

    def _plain_wrapper(self, finfo, dnode):
        """dnode: `def deco(fn): def wrapper(<finfo's parameters>): ...;
        return wrapper`"""
        dparams = [x.arg for x in dnode.args.posonlyargs + dnode.args.args]
        if len(dparams) != 1:
            return None

        class _D:
            node = dnode
            params = dparams
        d = _D
        inner = [n for n in d.node.body if isinstance(n, ast.FunctionDef)]
        rets = [n for n in d.node.body if isinstance(n, ast.Return)]
        if len(inner) != 1 or len(rets) != 1 or not (
                isinstance(rets[0].value, ast.Name)
                and rets[0].value.id == inner[0].name):
            return None
        w = inner[0]
        wp = [a.arg for a in w.args.posonlyargs + w.args.args]
        if wp != list(finfo.params) or w.args.vararg or w.args.kwarg:
            return None
        return w, d.params[0]

    def callee_of(self, finfo, call):
        """Resolve the callee of an ast.Call inside finfo -> FunctionInfo|None
        (package-internal only)."""
        fn = call.func
        m = finfo.module
        if isinstance(fn, ast.Attribute) and isinstance(fn.value, ast.Name):
            recv = fn.value.id
            if recv in ('self', 'cls') and finfo.cls is not None:
                hint = getattr(self, '_self_cls_hint', None)
                q = finfo.cls.qual
                if hint and q in self.mro(hint):
                    q = hint          # the concrete class under analysis
                f = self.find_method(q, fn.attr)
                if f:
                    return f
        if (isinstance(fn, ast.Attribute)
                and isinstance(fn.value, ast.Attribute)
                and isinstance(fn.value.value, ast.Name)
                and fn.value.value.id == 'self' and finfo.cls is not None):
            ty = self.attr_types(finfo.cls.qual).get(fn.value.attr)
            if ty:
                f = self.find_method(ty, fn.attr)
                if f:
                    return f
        if (isinstance(fn, ast.Attribute) and isinstance(fn.value, ast.Call)
                and isinstance(fn.value.func, ast.Name)
                and fn.value.func.id == 'super' and finfo.cls is not None):
            for q in self.mro(finfo.cls.qual)[1:]:
                c = self.classes.get(q)
                if c and fn.attr in c.methods:
                    return c.methods[fn.attr]
            return None
        if isinstance(fn, ast.Name) and fn.id not in finfo.params:
            # a local bound once to a bound method / function of the package
            # (`walk = self._walk`): the call goes to that function
            al = self._local_fn_aliases(finfo).get(fn.id)
            if al is not None:
                g = self.callee_of(finfo, ast.Call(func=al, args=call.args,
                                                   keywords=call.keywords))
                if g is not None:
                    return g
        r = self.resolve(m, fn)
        if (r is None or (r not in self.functions and r not in self.classes
                          and not str(r).startswith('ext:'))) \
                and isinstance(fn, ast.Name) and finfo.cls is not None \
                and call.args and isinstance(call.args[0], ast.Name) and \
                call.args[0].id in ('self', 'cls') and \
                fn.id not in finfo.params:
            # a function of the class body called with an explicit self
            # (taken from a class-level table of steps)
            f = self.find_method(finfo.cls.qual, fn.id)
            if f is not None and not f.is_static and not f.is_property:
                return f
        if r is None:
            return None
        if r in self.functions:
            return self.functions[r]
        if r in self.classes:
            return self.find_method(r, '__init__')
        return None

    def _local_fn_aliases(self, finfo):
        cache = self.__dict__.setdefault('_fn_aliases', {})
        if finfo.qual in cache:
            return cache[finfo.qual]
        bound = {}
        for n in ast.walk(finfo.node):
            tg = []
            if isinstance(n, ast.Assign):
                tg = n.targets
            elif isinstance(n, (ast.AugAssign, ast.AnnAssign, ast.For,
                                ast.comprehension, ast.NamedExpr)):
                tg = [n.target]
            elif isinstance(n, ast.With):
                tg = [i.optional_vars for i in n.items if i.optional_vars]
            for t in tg:
                for x in ast.walk(t):
                    if isinstance(x, ast.Name) and isinstance(
                            x.ctx, ast.Store):
                        v = n.value if isinstance(n, ast.Assign) and len(
                            n.targets) == 1 and n.targets[0] is x else None
                        bound.setdefault(x.id, []).append(v)
        out = {}
        for nm, vals in bound.items():
            if len(vals) == 1 and isinstance(vals[0], (ast.Attribute,
                                                       ast.Name)):
                out[nm] = vals[0]
        cache[finfo.qual] = out
        return out

    def callees(self, finfo):
        if finfo.qual in self._callees:
            return self._callees[finfo.qual]
        out = []
        for n in ast.walk(finfo.node):
            if isinstance(n, ast.Call):
                f = self.callee_of(finfo, n)
                if f is not None:
                    out.append((n, f))
                # bound methods / functions passed as arguments
                for a in list(n.args) + [k.value for k in n.keywords]:
                    if isinstance(a, (ast.Attribute, ast.Name)):
                        fake = ast.Call(func=a, args=[], keywords=[])
                        g = self.callee_of(finfo, fake)
                        if g is not None and g.name != '__init__' \
                                and not g.is_property:
                            out.append((n, g))
            elif isinstance(n, (ast.Tuple, ast.List, ast.Set, ast.Dict)) \
                    and isinstance(getattr(n, 'ctx', ast.Load()), ast.Load):
                # functions / bound methods kept in a local table
                elts = n.values if isinstance(n, ast.Dict) else n.elts
                for a in elts:
                    if isinstance(a, (ast.Attribute, ast.Name)):
                        fake = ast.Call(func=a, args=[], keywords=[])
                        g = self.callee_of(finfo, fake)
                        if g is not None and g.name != '__init__' \
                                and not g.is_property:
                            out.append((n, g))
            elif isinstance(n, ast.Attribute) and isinstance(
                    n.value, ast.Name) and n.value.id in ('self', 'cls') \
                    and finfo.cls is not None and isinstance(n.ctx, ast.Load):
                f = self.find_method(finfo.cls.qual, n.attr)
                if f is not None and f.is_property:
                    out.append((n, f))
                elif f is None:
                    # a class-level table of the class's own functions
                    tab = self.class_constants(finfo.cls.qual,
                                               names_ok=True).get(n.attr)
                    if isinstance(tab, (ast.Tuple, ast.List)):
                        for el in tab.elts:
                            if isinstance(el, ast.Name):
                                g = self.find_method(finfo.cls.qual, el.id)
                                if g is not None:
                                    out.append((n, g))
            elif isinstance(n, ast.Name) and isinstance(n.ctx, ast.Load):
                # a module-level table of this module's functions
                tab = self.module_constants(finfo.module,
                                            names_ok=True).get(n.id)
                if isinstance(tab, (ast.Tuple, ast.List)):
                    for el in tab.elts:
                        g = self.functions.get('%s.%s' % (
                            finfo.module.name, getattr(el, 'id', None)))
                        if g is not None:
                            out.append((n, g))
        self._callees[finfo.qual] = out
        return out

    def region(self, *anchors, stop=()):
        """Anchor functions plus transitive package-internal callees."""
        seen = {}
        todo = [self.func(a) if isinstance(a, str) else a for a in anchors]
        while todo:
            f = todo.pop()
            if f.qual in seen or f.qual in stop:
                continue
            seen[f.qual] = f
            for _, g in self.callees(f):
                if g.qual not in seen:
                    todo.append(g)
        return seen

    # --------------------------------------------------------- registries
    def registered_checks(self):
        """@register(kind) classes -> {kind: class qual} from decorators."""
        out = {}
        for c in self.classes.values():
            for d in c.node.decorator_list:
                if isinstance(d, ast.Call):
                    r = self.resolve(c.module, d.func)
                    if r == PKG + '._checks.register' and d.args and \
                            isinstance(d.args[0], ast.Constant):
                        out[d.args[0].value] = c.qual
        return out

    def entry_point_class(self, group, name):
        tab = self.setup_cfg.get(group, {})
        if name not in tab:
            return None
        mod, _, attr = tab[name].partition(':')
        return mod + '.' + attr

    def _fold_option_value(self, m, v):
        """An option attribute as a literal: a named constant, or
        list(...) / tuple(...) / [*...] of one (a fresh copy of it)."""
        if isinstance(v, (ast.Name, ast.Attribute)):
            c = self.const_expr(m, v)
            return c if c is not None else v
        if isinstance(v, ast.Call) and isinstance(v.func, ast.Name) and \
                v.func.id in ('list', 'tuple') and len(v.args) == 1 and \
                not v.keywords:
            inner = self._fold_option_value(m, v.args[0])
            if isinstance(inner, (ast.Tuple, ast.List)):
                cls = ast.List if v.func.id == 'list' else ast.Tuple
                return cls(elts=list(inner.elts), ctx=ast.Load())
            return v
        if isinstance(v, (ast.List, ast.Tuple)) and any(
                isinstance(x, ast.Starred) for x in v.elts):
            elts = []
            for x in v.elts:
                if isinstance(x, ast.Starred):
                    inner = self._fold_option_value(m, x.value)
                    if not isinstance(inner, (ast.Tuple, ast.List)):
                        return v
                    elts.extend(inner.elts)
                else:
                    elts.append(x)
            return type(v)(elts=elts, ctx=ast.Load())
        return v

    def is_respelling(self, f, arg=None):
        """f(text) returns its argument character by character, each one
        either as it is or as a backslash escape of its code point, and what
        a YAML reader gets back is the argument (respell.py): for rules
        about *what* is written, f(x) is x."""
        from .respell import respelling, json_alphabet
        r = respelling(self, f, json_alphabet(arg))
        return r is not None and r[0] == 'yes'

    def options(self):
        """opts._options table: name -> dict(type, default(ast), choices)."""
        m = self.module(PKG + '.opts')
        node = m.assigns.get('_options')

        def flat(x, depth=4):
            """a list display, or displays (possibly kept by name)
            concatenated with + / unpacked with *"""
            if depth <= 0:
                return None
            if isinstance(x, ast.Name) and isinstance(
                    m.assigns.get(x.id), (ast.List, ast.Tuple, ast.BinOp)):
                return flat(m.assigns[x.id], depth - 1)
            if isinstance(x, (ast.List, ast.Tuple)):
                out = []
                for e in x.elts:
                    if isinstance(e, ast.Starred):
                        sub = flat(e.value, depth - 1)
                        if sub is None:
                            return None
                        out.extend(sub)
                    else:
                        out.append(e)
                return out
            if isinstance(x, ast.BinOp) and isinstance(x.op, ast.Add):
                a, b = flat(x.left, depth - 1), flat(x.right, depth - 1)
                return None if a is None or b is None else a + b
            if isinstance(x, ast.Call) and isinstance(
                    x.func, ast.Name) and x.func.id in ('list', 'tuple') \
                    and len(x.args) == 1:
                return flat(x.args[0], depth - 1)
            return None
        elts = flat(node) if node is not None else None
        if elts is None:
            raise AnalysisError('opts._options is not a literal list')
        node = ast.List(elts=elts, ctx=ast.Load())
        out = {}
        for e in node.elts:
            if isinstance(e, ast.Name) and isinstance(
                    m.assigns.get(e.id), ast.Call):
                e = m.assigns[e.id]         # an option object kept by name
            if not isinstance(e, ast.Call):
                continue
            ty = self.resolve(m, e.func)
            kw = {k.arg: k.value for k in e.keywords if k.arg}
            nm = e.args[0] if e.args else kw.get('name')
            nm = self._fold_option_value(m, nm) if nm is not None else None
            if not isinstance(nm, ast.Constant):
                continue
            name = nm.value
            for k_, v_ in list(kw.items()):
                kw[k_] = self._fold_option_value(m, v_)
            out[name] = {'type': ty, 'default': kw.get('default'),
                         'choices': kw.get('choices'), 'node': e}
        return out

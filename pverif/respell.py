"""Character-by-character re-spelling helpers.

`respelling(prog, f)` reads a one-parameter function that returns its text
argument one character at a time, each character either as it is or as a
backslash escape computed from its code point.  Three answers:

  ('yes', kept)    every character comes back as itself or as an escape a
                   YAML / JSON reader turns back into it, and the characters
                   kept raw (`kept`, a list of code point ranges) are all
                   characters a YAML double-quoted scalar may hold raw
  ('bad', reason)  the per-character form is read and something in it is
                   wrong: a character is dropped, kept raw although a YAML
                   reader refuses or folds it, or escaped with too few digits
  None             not a per-character form this module reads

Forms read (f has one parameter `text`):

  return ''.join(<E> for c in text)                         comprehension
  acc = []; for c in text: [k = ord(c)]; if/elif/else acc.append(<E>)
  return ''.join(acc)                                        loop
  return PATTERN.sub(callback, text) / re.sub(pat, callback, text)
      with a pattern that is one character class and a callback returning
      escapes of ord(match.group())                          regular expr.

each optionally preceded by `if text.isascii() and text.isprintable():
return text`.  <E> is `c`, an escape `'\\\\u%04x' % ord(c)` (also \\\\U%08x,
\\\\x%02x), or a conditional expression of those; tests compare c / ord(c)
with constants.
"""
import ast

from .util import inert_stmt

MAXCP = 0x10ffff
# what a YAML double-quoted scalar may hold raw and reads back unchanged:
# c-printable without the line breaks (x85, x2028, x2029 fold) - TAB kept out
# as well: JSON escapes it anyway
SAFE = [(0x20, 0x7e), (0xa0, 0x2027), (0x202a, 0xd7ff), (0xe000, 0xfffd),
        (0x10000, MAXCP)]
ESCAPES = {'\\u%04x': 0xffff, '\\U%08x': MAXCP, '\\x%02x': 0xff,
           '\\u%04X': 0xffff, '\\U%08X': MAXCP, '\\x%02X': 0xff}


# ------------------------------------------------------------ range algebra
def norm(rs):
    out = []
    for lo, hi in sorted(r for r in rs if r[0] <= r[1]):
        if out and lo <= out[-1][1] + 1:
            out[-1] = (out[-1][0], max(out[-1][1], hi))
        else:
            out.append((lo, hi))
    return out


def comp(rs):
    out, cur = [], 0
    for lo, hi in norm(rs):
        if lo > cur:
            out.append((cur, lo - 1))
        cur = hi + 1
    if cur <= MAXCP:
        out.append((cur, MAXCP))
    return out


def inter(a, b):
    out = []
    for lo, hi in a:
        for l2, h2 in b:
            if max(lo, l2) <= min(hi, h2):
                out.append((max(lo, l2), min(hi, h2)))
    return norm(out)


def union(a, b):
    return norm(list(a) + list(b))


def minus(a, b):
    return inter(a, comp(b))


ALL = [(0, MAXCP)]


class _NotRead(Exception):
    pass


# -------------------------------------------------------- tests and escapes
def _cp(e, v, aliases):
    """e denotes the code point of the current character?"""
    if isinstance(e, ast.Name) and e.id in aliases:
        return True
    return isinstance(e, ast.Call) and isinstance(e.func, ast.Name) and \
        e.func.id == 'ord' and len(e.args) == 1 and isinstance(
            e.args[0], ast.Name) and e.args[0].id == v


def _const(e, as_char):
    if isinstance(e, ast.Constant):
        if as_char and isinstance(e.value, str) and len(e.value) == 1:
            return ord(e.value)
        if not as_char and isinstance(e.value, int) and not isinstance(
                e.value, bool):
            return e.value
    raise _NotRead()


def _cmp(op, k, var_left):
    """set of x with `x op k` (var_left) or `k op x`."""
    if not var_left:
        op = {ast.Lt: ast.Gt, ast.LtE: ast.GtE, ast.Gt: ast.Lt,
              ast.GtE: ast.LtE}.get(type(op), type(op))()
    if isinstance(op, ast.Lt):
        return [(0, k - 1)]
    if isinstance(op, ast.LtE):
        return [(0, k)]
    if isinstance(op, ast.Gt):
        return [(k + 1, MAXCP)]
    if isinstance(op, ast.GtE):
        return [(k, MAXCP)]
    if isinstance(op, ast.Eq):
        return [(k, k)]
    if isinstance(op, ast.NotEq):
        return comp([(k, k)])
    raise _NotRead()


def truth_set(t, v, aliases):
    """code points of the current character for which test t holds"""
    if isinstance(t, ast.BoolOp):
        sets = [truth_set(x, v, aliases) for x in t.values]
        out = sets[0]
        for s in sets[1:]:
            out = inter(out, s) if isinstance(t.op, ast.And) else union(
                out, s)
        return out
    if isinstance(t, ast.UnaryOp) and isinstance(t.op, ast.Not):
        return comp(truth_set(t.operand, v, aliases))
    if isinstance(t, ast.Compare):
        operands = [t.left] + list(t.comparators)
        out = ALL
        for a, op, b in zip(operands, t.ops, operands[1:]):
            if isinstance(op, (ast.In, ast.NotIn)):
                if isinstance(a, ast.Name) and a.id == v and isinstance(
                        b, ast.Constant) and isinstance(b.value, str):
                    s = norm([(ord(ch), ord(ch)) for ch in b.value])
                    s = s if isinstance(op, ast.In) else comp(s)
                else:
                    raise _NotRead()
            else:
                a_char = isinstance(a, ast.Name) and a.id == v
                b_char = isinstance(b, ast.Name) and b.id == v
                if a_char or _cp(a, v, aliases):
                    s = _cmp(op, _const(b, a_char), True)
                elif b_char or _cp(b, v, aliases):
                    s = _cmp(op, _const(a, b_char), False)
                else:
                    raise _NotRead()
            out = inter(out, norm(s))
        return out
    if isinstance(t, ast.Call) and isinstance(t.func, ast.Attribute) and \
            isinstance(t.func.value, ast.Name) and t.func.value.id == v and \
            not t.args and t.func.attr == 'isascii':
        return [(0, 0x7f)]
    raise _NotRead()


def _elem(e, v, aliases, cond, res):
    """Account for element expression e written for the characters in cond.
    res: {'kept': ranges, 'bad': [reasons]}"""
    if not cond:
        return
    if isinstance(e, ast.IfExp):
        ts = truth_set(e.test, v, aliases)
        _elem(e.body, v, aliases, inter(cond, ts), res)
        _elem(e.orelse, v, aliases, minus(cond, ts), res)
        return
    if isinstance(e, ast.Name) and e.id == v:
        res['kept'] = union(res['kept'], cond)
        return
    if isinstance(e, ast.Constant) and isinstance(e.value, str):
        res['bad'].append(
            'the characters %s are all written as the constant %r: the '
            'text read back is not the text given' % (show(cond), e.value))
        return
    if isinstance(e, ast.BinOp) and isinstance(e.op, ast.Mod):
        tmpl = e.left
        if isinstance(tmpl, ast.IfExp) and _cp(e.right, v, aliases):
            # ('\\u%04x' if <test> else '\\U%08x') % ord(c)
            ts = truth_set(tmpl.test, v, aliases)
            for sub, c2 in ((tmpl.body, inter(cond, ts)),
                            (tmpl.orelse, minus(cond, ts))):
                _elem(ast.BinOp(left=sub, op=ast.Mod(), right=e.right), v,
                      aliases, c2, res)
            return
        if isinstance(tmpl, ast.Constant) and isinstance(
                tmpl.value, str) and _cp(e.right, v, aliases):
            if tmpl.value in ESCAPES:
                res.setdefault('escapes', []).append((tmpl.value, cond))
                top = ESCAPES[tmpl.value]
                over = inter(cond, [(top + 1, MAXCP)])
                if over:
                    res['bad'].append(
                        'the characters %s are written with the escape %s, '
                        'which has too few digits for them: a reader takes '
                        'the first digits for the escape and the rest for '
                        'text' % (show(over), tmpl.value))
                return
            if not tmpl.value.startswith('\\'):
                res['bad'].append(
                    'the characters %s are written as %r of their code '
                    'point, which is not an escape: the text read back is '
                    'not the text given' % (show(cond), tmpl.value))
                return
    raise _NotRead()


def show(rs):
    return ', '.join('U+%04X' % lo if lo == hi else 'U+%04X..U+%04X' % (
        lo, hi) for lo, hi in rs[:4]) + (' ...' if len(rs) > 4 else '')


def json_alphabet(arg):
    """code points that can occur in the value of expression arg: a JSON
    serialisation holds no control character below U+0020 (they are escaped
    there), anything else may occur"""
    if isinstance(arg, ast.Call) and ast.unparse(arg.func).endswith(
            ('jsonutils.dumps', 'json.dumps')):
        return comp([(0, 0x1f)])
    return ALL


def _verdict(res, alphabet=ALL):
    unsafe = inter(minus(res['kept'], SAFE), alphabet)
    if unsafe:
        res['bad'].append(
            'the characters %s are written raw: a YAML reader refuses '
            'them (control characters, DEL) or folds them (line breaks), '
            'so the file is unloadable or holds a different text'
            % show(unsafe))
    if res['bad']:
        return ('bad', '; '.join(res['bad'][:3]))
    return ('yes', res['kept'], [(t, inter(c, alphabet))
                                 for t, c in res.get('escapes', [])
                                 if inter(c, alphabet)])


# ------------------------------------------------------------------- forms
def _whole_text_safe(t, p):
    """a test on the whole text that implies every character is printable
    ASCII: text.isascii() and text.isprintable()"""
    if isinstance(t, ast.BoolOp) and isinstance(t.op, ast.And):
        got = set()
        for x in t.values:
            if isinstance(x, ast.Call) and isinstance(
                    x.func, ast.Attribute) and isinstance(
                        x.func.value, ast.Name) and x.func.value.id == p \
                    and not x.args:
                got.add(x.func.attr)
        return {'isascii', 'isprintable'} <= got
    return False


def _join_of(e):
    """''.join(X) -> X"""
    if isinstance(e, ast.Call) and isinstance(e.func, ast.Attribute) and \
            e.func.attr == 'join' and isinstance(
                e.func.value, ast.Constant) and e.func.value.value == '' \
            and len(e.args) == 1 and not e.keywords:
        return e.args[0]
    return None


def _loop_form(body, p, res):
    """acc = []; for c in text: ...; return ''.join(acc)"""
    if len(body) != 3:
        return False
    init, loop, ret = body
    if not (isinstance(init, ast.Assign) and len(init.targets) == 1
            and isinstance(init.targets[0], ast.Name)
            and isinstance(init.value, ast.List) and not init.value.elts):
        return False
    acc = init.targets[0].id
    if not (isinstance(loop, ast.For) and not loop.orelse and isinstance(
            loop.target, ast.Name) and isinstance(loop.iter, ast.Name)
            and loop.iter.id == p):
        return False
    x = _join_of(ret.value) if isinstance(ret, ast.Return) else None
    if not (isinstance(x, ast.Name) and x.id == acc):
        return False
    v = loop.target.id
    aliases = set()

    def block(stmts, cond):
        """every path through stmts appends exactly one element"""
        stmts = [s for s in stmts if not inert_stmt(s)]
        while stmts and isinstance(stmts[0], ast.Assign) and len(
                stmts[0].targets) == 1 and isinstance(
                    stmts[0].targets[0], ast.Name) and _cp(
                        stmts[0].value, v, set()):
            aliases.add(stmts[0].targets[0].id)
            stmts = stmts[1:]
        if len(stmts) != 1:
            raise _NotRead()
        s = stmts[0]
        if isinstance(s, ast.If):
            if not s.orelse:
                raise _NotRead()
            ts = truth_set(s.test, v, aliases)
            block(s.body, inter(cond, ts))
            block(s.orelse, minus(cond, ts))
            return
        if isinstance(s, ast.Expr) and isinstance(s.value, ast.Call) and \
                isinstance(s.value.func, ast.Attribute) and \
                s.value.func.attr == 'append' and isinstance(
                    s.value.func.value, ast.Name) and \
                s.value.func.value.id == acc and len(s.value.args) == 1:
            _elem(s.value.args[0], v, aliases, cond, res)
            return
        raise _NotRead()
    block(loop.body, ALL)
    return True


def _class_of(pattern):
    """code points matched by a pattern that is exactly one character class"""
    import re._parser as sre                      # parses a constant string
    try:
        parsed = list(sre.parse(pattern))
    except Exception:
        raise _NotRead()
    if len(parsed) != 1:
        raise _NotRead()
    op, arg = parsed[0]
    name = str(op)
    if name == 'LITERAL':
        return [(arg, arg)]
    if name != 'IN':
        raise _NotRead()
    neg, rs = False, []
    for o, a in arg:
        o = str(o)
        if o == 'NEGATE':
            neg = True
        elif o == 'LITERAL':
            rs.append((a, a))
        elif o == 'RANGE':
            rs.append((a[0], a[1]))
        else:
            raise _NotRead()
    return comp(rs) if neg else norm(rs)


def _regex_form(prog, f, e, p, res):
    """PATTERN.sub(cb, text) / re.sub(<pattern>, cb, text)"""
    if not (isinstance(e, ast.Call) and isinstance(e.func, ast.Attribute)
            and e.func.attr == 'sub' and not e.keywords):
        return False
    base = e.func.value
    if isinstance(base, ast.Name) and base.id == 're' and len(e.args) == 3:
        pat, cb, txt = e.args
    elif len(e.args) == 2:
        cb, txt = e.args
        pat = None
        d = f.module.assigns.get(base.id) if isinstance(
            base, ast.Name) else None
        if isinstance(d, ast.Call) and ast.unparse(d.func) in (
                're.compile', 'compile') and d.args and len(d.args) == 1 \
                and not d.keywords:
            pat = d.args[0]
    else:
        return False
    if isinstance(pat, ast.Name) and isinstance(
            f.module.assigns.get(pat.id), ast.Constant):
        pat = f.module.assigns[pat.id]
    if not (isinstance(pat, ast.Constant) and isinstance(pat.value, str)
            and isinstance(txt, ast.Name) and txt.id == p):
        return False
    matched = _class_of(pat.value)
    res['kept'] = union(res['kept'], comp(matched))
    g = None
    if isinstance(cb, ast.Name):
        g = f.module.functions.get(cb.id)
    if isinstance(cb, ast.Lambda):
        params, stmts = [a.arg for a in cb.args.args], [
            ast.Return(value=cb.body)]
    elif g is not None:
        params, stmts = list(g.params), [
            s for s in g.node.body if not inert_stmt(s)]
    else:
        raise _NotRead()
    if len(params) != 1:
        raise _NotRead()
    m = params[0]
    aliases = set()

    def is_char(x):
        # match.group() / match.group(0) / match[0]
        if isinstance(x, ast.Call) and isinstance(
                x.func, ast.Attribute) and x.func.attr == 'group' and \
                isinstance(x.func.value, ast.Name) and \
                x.func.value.id == m and (not x.args or (
                    len(x.args) == 1 and isinstance(
                        x.args[0], ast.Constant) and x.args[0].value == 0)):
            return True
        return isinstance(x, ast.Subscript) and isinstance(
            x.value, ast.Name) and x.value.id == m and isinstance(
                x.slice, ast.Constant) and x.slice.value == 0

    V = '_the_char_'

    class Norm(ast.NodeTransformer):
        def generic_visit(self, node):
            if is_char(node):
                return ast.Name(id=V, ctx=ast.Load())
            return super().generic_visit(node)

    def block(stmts, cond):
        stmts = list(stmts)
        while stmts and isinstance(stmts[0], ast.Assign) and len(
                stmts[0].targets) == 1 and isinstance(
                    stmts[0].targets[0], ast.Name):
            val = Norm().visit(stmts[0].value)
            if _cp(val, V, set()):
                aliases.add(stmts[0].targets[0].id)
            else:
                raise _NotRead()
            stmts = stmts[1:]
        if not stmts:
            raise _NotRead()
        s = stmts[0]
        if isinstance(s, ast.Return) and s.value is not None:
            _elem(Norm().visit(s.value), V, aliases, cond, res)
            return
        if isinstance(s, ast.If):
            ts = truth_set(Norm().visit(s.test), V, aliases)
            block(s.body, inter(cond, ts))
            rest = s.orelse if s.orelse else stmts[1:]
            block(rest, minus(cond, ts))
            return
        raise _NotRead()
    import copy
    block([copy.deepcopy(s) for s in stmts], matched)
    return True


def respelling(prog, f, alphabet=None):
    """alphabet: the code points the argument can hold (json_alphabet)"""
    alphabet = ALL if alphabet is None else alphabet
    cache = prog.__dict__.setdefault('_respell3', {})
    key = (f.qual, tuple(alphabet))
    if key in cache:
        return cache[key]
    out = None
    try:
        out = _respelling(prog, f, alphabet)
    except _NotRead:
        out = None
    cache[key] = out
    return out


def _codec_form(e, p):
    """text.encode('unicode_escape').decode(<x>)"""
    if isinstance(e, ast.Call) and isinstance(e.func, ast.Attribute) and \
            e.func.attr == 'decode':
        inner = e.func.value
        if isinstance(inner, ast.Call) and isinstance(
                inner.func, ast.Attribute) and inner.func.attr == 'encode' \
                and isinstance(inner.func.value, ast.Name) and \
                inner.func.value.id == p and inner.args and isinstance(
                    inner.args[0], ast.Constant) and str(
                        inner.args[0].value).replace('-', '_').lower() in (
                            'unicode_escape', 'raw_unicode_escape'):
            return str(inner.args[0].value)
    return None


def _respelling(prog, f, alphabet):
    if len(f.params) != 1:
        return None
    p = f.params[0]
    body = [b for b in f.node.body if not inert_stmt(b)]
    res = {'kept': [], 'bad': []}
    # leading guards that hand the text back untouched
    while body and isinstance(body[0], ast.If) and not body[0].orelse and \
            len(body[0].body) == 1 and isinstance(
                body[0].body[0], ast.Return) and isinstance(
                    body[0].body[0].value, ast.Name) and \
            body[0].body[0].value.id == p:
        if not _whole_text_safe(body[0].test, p):
            return None
        res['kept'] = union(res['kept'], [(0x20, 0x7e)])
        body = body[1:]
    if not body:
        return None
    if len(body) == 1 and isinstance(body[0], ast.Return):
        e = body[0].value
        x = _join_of(e)
        if isinstance(x, (ast.GeneratorExp, ast.ListComp)) and len(
                x.generators) == 1:
            g = x.generators[0]
            if isinstance(g.target, ast.Name) and isinstance(
                    g.iter, ast.Name) and g.iter.id == p and not g.ifs and \
                    not g.is_async:
                _elem(x.elt, g.target.id, set(), ALL, res)
                return _verdict(res, alphabet)
            if g.ifs:
                return ('bad', 'the characters failing `%s` are dropped: '
                        'the text read back is not the text given'
                        % ast.unparse(g.ifs[0]))
            return None
        codec = _codec_form(e, p)
        if codec is not None and inter(alphabet, [(0x5c, 0x5c)]):
            return ('bad', 'the %s codec escapes the backslash as well: the '
                    'escapes already in the text (a JSON \\t, \\", \\\\) are '
                    'escaped a second time and read back as a backslash '
                    'followed by a letter' % codec)
        if _regex_form(prog, f, e, p, res):
            return _verdict(res, alphabet)
        return None
    if _loop_form(body, p, res):
        return _verdict(res, alphabet)
    return None

"""Spellings of one question, read as that question.

`as_membership` reads a branch condition as "is KEY a key of the mapping
COLL": `k in D`, `k in D.keys()`, `D.get(k) is None` (only when no None is
ever stored in D), `D.get(k, S) is S` for a sentinel name S.
"""
import ast

from .util import U, method_call


def values_never_none(prog, attr):
    """Every store into `<x>.<attr>[...]` in the package puts in a value that
    has been dereferenced in the same function (so it is not None), and
    nothing fills the mapping another way."""
    cache = prog.__dict__.setdefault('_vnn', {})
    if attr in cache:
        return cache[attr]
    ok = True
    seen = 0
    for f in prog.functions.values():
        deref = {n.value.id for n in ast.walk(f.node)
                 if isinstance(n, ast.Attribute) and isinstance(
                     n.value, ast.Name) and isinstance(n.ctx, ast.Load)}
        for n in ast.walk(f.node):
            if isinstance(n, ast.Assign):
                for tg in n.targets:
                    if isinstance(tg, ast.Subscript) and isinstance(
                            tg.value, ast.Attribute) and \
                            tg.value.attr == attr:
                        seen += 1
                        v = n.value
                        if isinstance(v, ast.Call) and U(v.func) in (
                                'copy.deepcopy', 'copy.copy') and v.args:
                            v = v.args[0]
                        if not (isinstance(v, ast.Name) and v.id in deref):
                            ok = False
                    if isinstance(tg, ast.Attribute) and tg.attr == attr \
                            and not (isinstance(n.value, ast.Dict)
                                     and not n.value.keys):
                        ok = False
            if isinstance(n, ast.Call):
                mc = method_call(n)
                if mc and isinstance(mc[0], ast.Attribute) and \
                        mc[0].attr == attr and mc[1] in (
                            'update', 'setdefault', '__setitem__'):
                    ok = False
    cache[attr] = ok and seen > 0
    return cache[attr]


def as_membership(prog, expand, expr, pol):
    """(key text, mapping text, is a member) for a condition taken with
    polarity `pol`, or None."""
    e = expand(expr)
    if isinstance(e, ast.UnaryOp) and isinstance(e.op, ast.Not):
        r = as_membership(prog, expand, e.operand, not pol)
        return r
    if not (isinstance(e, ast.Compare) and len(e.ops) == 1):
        return None
    op, a, b = e.ops[0], e.left, e.comparators[0]
    if isinstance(op, (ast.In, ast.NotIn)):
        if isinstance(b, ast.Call) and method_call(b, 'keys') and \
                not b.args:
            b = method_call(b)[0]
        return U(a), U(b), pol == isinstance(op, ast.In)
    if isinstance(op, (ast.Is, ast.IsNot)):
        for x, y in ((a, b), (b, a)):
            if isinstance(x, ast.Call) and method_call(x, 'get') and \
                    1 <= len(x.args) <= 2 and not x.keywords:
                coll = method_call(x)[0]
                none_dflt = len(x.args) == 1 or (
                    isinstance(x.args[1], ast.Constant)
                    and x.args[1].value is None)
                absent = None
                if none_dflt and isinstance(y, ast.Constant) and \
                        y.value is None:
                    if isinstance(coll, ast.Attribute) and \
                            values_never_none(prog, coll.attr):
                        absent = True
                elif len(x.args) == 2 and isinstance(
                        x.args[1], ast.Name) and isinstance(
                            y, ast.Name) and x.args[1].id == y.id:
                    absent = True       # D.get(k, S) is S
                if absent:
                    is_absent = pol == isinstance(op, ast.Is)
                    return U(x.args[0]), U(coll), not is_absent
    return None


def lookup_tries(prog, f):
    """Membership asked by trying: an unconditional statement of f

        try: D[k]            (or  x = D[k])
        except KeyError: ...

    with nothing else in the try body and D an attribute that starts as an
    empty dict display (a plain dict: no __missing__).  Returns
    [(try node, key text, mapping text)]: a path through the handler has
    `k not in D`, every path that leaves the body normally has `k in D`."""
    out = []
    for st in f.node.body:
        if not (isinstance(st, ast.Try) and len(st.body) == 1
                and not st.finalbody):
            continue
        b = st.body[0]
        v = b.value if isinstance(b, (ast.Expr, ast.Assign)) else None
        if not (isinstance(v, ast.Subscript) and not any(
                isinstance(n, ast.Call) for n in ast.walk(v))):
            continue
        names = set()
        for h in st.handlers:
            ts = h.type.elts if isinstance(h.type, ast.Tuple) else [h.type]
            names |= {U(x) for x in ts if x is not None}
        if names != {'KeyError'}:
            continue
        coll = v.value
        if not isinstance(coll, ast.Attribute):
            continue
        plain = any(
            isinstance(n, ast.Assign) and any(
                isinstance(tg, ast.Attribute) and tg.attr == coll.attr
                for tg in n.targets) and isinstance(n.value, ast.Dict)
            and not n.value.keys
            for g in prog.functions.values() if g.name == '__init__'
            for n in ast.walk(g.node))
        if plain:
            out.append((st, U(v.slice), U(coll)))
    return out

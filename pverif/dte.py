"""Decision-table extraction helpers on top of paths + absval."""
import ast

from .absval import Evaluator, feasible
from .paths import Enumerator
from .util import U


class Table:
    """Paths of one function (optionally with inlined callees)."""

    def __init__(self, prog, finfo, inline=None, writes=None, **kw):
        self.prog = prog
        self.finfo = finfo
        self.en = Enumerator(prog, finfo, inline=inline, writes=writes, **kw)
        self.paths = self.en.run()

    def module_of(self, frame):
        f = self.prog.functions.get(frame)
        return f.module if f is not None else self.finfo.module

    def feasible(self, binding, oracle=None, paths=None):
        """[(path, unknown conds)] for an abstract case."""
        def evf(cond):
            return Evaluator(self.prog, self.module_of(cond.frame), binding,
                             oracle=oracle)
        return feasible(self.paths if paths is None else paths, evf)

    def expand(self, e):
        return self.en.expand(e)

    def raised_class(self, p):
        """resolved class of a raise outcome"""
        if p.outcome.kind != 'raise' or p.outcome.expr is None:
            return None
        e = self.expand(p.outcome.expr)
        c = e.func if isinstance(e, ast.Call) else e
        return self.prog.resolve(self.module_of(p.outcome.frame), c)


def inline_self_methods(prog, only=None, exclude=()):
    """inline callback: expand self.<method>() calls and plain module
    functions of the package."""
    def cb(call, frame):
        g = prog.callee_of(frame, call)
        if g is None:
            return None
        if g.qual in exclude:
            return None
        if only is not None and g.qual not in only:
            return None
        if any(isinstance(x, (ast.Yield, ast.YieldFrom))
               for x in ast.walk(g.node)):
            return None
        return g
    return cb


def inline_helpers(prog, modules=None, exclude=(), classes=True):
    """inline callback: expand every resolvable package callee defined in
    one of `modules` (all when None) - methods called on self/cls and plain
    functions - except the excluded quals and generators."""
    def cb(call, frame):
        g = prog.callee_of(frame, call)
        if g is None or g.qual in exclude:
            return None
        if modules is not None and g.module.name not in modules:
            return None
        if g.cls is not None and not classes:
            return None
        if g.name == '__init__':
            return None
        if any(isinstance(x, (ast.Yield, ast.YieldFrom))
               for x in ast.walk(g.node)):
            return None
        return g
    return cb


def text_conds(p):
    return p.cond_text()

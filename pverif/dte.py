"""Decision-table extraction helpers on top of paths + absval."""
import ast

from .absval import Evaluator, feasible
from .paths import Enumerator
from .util import U


class Table:
    """Paths of one function (optionally with inlined callees)."""

    def __init__(self, prog, finfo, inline=None, writes=None, **kw):
        self.prog = prog
        self.finfo = finfo
        self.en = Enumerator(prog, finfo, inline=inline, writes=writes, **kw)
        self.paths = self.en.run()

    def module_of(self, frame):
        f = self.prog.functions.get(frame)
        return f.module if f is not None else self.finfo.module

    def feasible(self, binding, oracle=None, paths=None):
        """[(path, unknown conds)] for an abstract case."""
        def evf(cond):
            return Evaluator(self.prog, self.module_of(cond.frame), binding,
                             oracle=oracle)
        return feasible(self.paths if paths is None else paths, evf)

    def expand(self, e):
        return self.en.expand(e)

    def truth(self, p, expr):
        """Truth of a boolean expression as decided by the conditions of
        path p (three-valued: True / False / None)."""
        if isinstance(expr, ast.Constant):
            return bool(expr.value)
        if isinstance(expr, ast.Name) and isinstance(
                self.en.defs.get(expr.id), (ast.BoolOp, ast.UnaryOp,
                                            ast.Compare)):
            r = self.truth(p, self.en.defs[expr.id])
            if r is not None:
                return r
        if isinstance(expr, ast.UnaryOp) and isinstance(expr.op, ast.Not):
            r = self.truth(p, expr.operand)
            return None if r is None else (not r)
        if isinstance(expr, ast.BoolOp):
            vals = [self.truth(p, v) for v in expr.values]
            if isinstance(expr.op, ast.And):
                if any(v is False for v in vals):
                    return False
                return True if all(v is True for v in vals) else None
            if any(v is True for v in vals):
                return True
            return False if all(v is False for v in vals) else None
        e2, flip = self.en._norm_test(expr)
        norm = self.en._truth_equivalent(e2)
        if norm is not None:
            r = self.truth(p, norm)
            return None if r is None else (r != flip)
        key = U(e2)
        for c in p.conds:
            if c.kind == 'test' and U(c.expr) == key:
                return c.pol != flip
        return None

    def raised_class(self, p):
        """resolved class of a raise outcome"""
        if p.outcome.kind != 'raise' or p.outcome.expr is None:
            return None
        e = self.expand(p.outcome.expr)
        c = e.func if isinstance(e, ast.Call) else e
        return self.prog.resolve(self.module_of(p.outcome.frame), c)


def inline_self_methods(prog, only=None, exclude=()):
    """inline callback: expand self.<method>() calls and plain module
    functions of the package."""
    def cb(call, frame):
        g = prog.callee_of(frame, call)
        if g is None:
            return None
        if g.qual in exclude:
            return None
        if only is not None and g.qual not in only:
            return None
        if any(isinstance(x, (ast.Yield, ast.YieldFrom))
               for x in ast.walk(g.node)):
            return None
        return g
    return cb


def inline_helpers(prog, modules=None, exclude=(), classes=True):
    """inline callback: expand every resolvable package callee defined in
    one of `modules` (all when None) - methods called on self/cls and plain
    functions - except the excluded quals and generators."""
    def pick(call, frame, gens):
        g = prog.callee_of(frame, call)
        if g is None or g.qual in exclude:
            return None
        if modules is not None and g.module.name not in modules:
            return None
        if g.cls is not None and not classes:
            return None
        if g.name == '__init__':
            return None
        if not gens and any(isinstance(x, (ast.Yield, ast.YieldFrom))
                            for x in ast.walk(g.node)):
            return None
        return g

    def cb(call, frame):
        return pick(call, frame, False)
    # generator functions, for loops walked through them (paths._fuse)
    cb.gen = lambda call, frame: pick(call, frame, True)
    return cb


def text_conds(p):
    return p.cond_text()

"""C20 - a decision taken during a reload sees the old or the new policy,
never a mix (publication-discipline analysis)."""
import ast

from .. import PKG
from ..effects import effects_of
from ..model import AnalysisError
from ..util import U, walk_no_nested, parent_map, method_call

POLICY = PKG + '.policy'
ENF = POLICY + '.Enforcer'
CHECKS = PKG + '._checks'
STORES = ('self.rules', 'self.file_rules')


def under_lock(pm, node):
    """with <something lock-like>: encloses node"""
    n = pm.get(node)
    while n is not None:
        if isinstance(n, (ast.With, ast.AsyncWith)):
            for it in n.items:
                t = U(it.context_expr).lower()
                if 'lock' in t or 'mutex' in t or 'synchron' in t:
                    return U(it.context_expr)
        n = pm.get(n)
    return None


def _exec_max(ctx, fn, sites, region, _stack=()):
    """Largest number of the write sites `sites` ({(function qual, line)})
    one execution of fn can pass: on each path of fn its own sites (each
    once) plus, for every call of a function of the reload region - also one
    handed over as a callback -, what that function can pass.  The two arms
    of an if/else are one write; two loops, or a reset followed by a helper
    that writes again, are two."""
    from ..dte import Table
    from ..load_model import load_table
    prog = ctx.prog
    cache = ctx.__dict__.setdefault('_cache', {}).setdefault('c20_exec', {})
    key = (fn.qual, tuple(sorted(sites)))
    if key in cache:
        return cache[key]
    if fn.qual in _stack:
        return 0
    try:
        t = load_table(ctx) if fn.qual == ENF + '.load_rules' else Table(
            prog, fn, max_paths=50000)
    except AnalysisError:
        if fn.qual == ENF + '.load_rules':
            raise       # the load step itself is not read: no verdict
        cache[key] = len([s_ for s_ in sites if s_[0] == fn.qual])
        return cache[key]
    best = 0
    for p in t.paths:
        own = set()
        extra = 0
        for e in p.events:
            fr = e.frame or fn.qual
            if e.kind in ('store', 'aug', 'del', 'call', 'maycall') and (
                    fr, e.line) in sites:
                own.add((fr, e.line))
            if e.kind != 'call' or not isinstance(e.node, ast.Call):
                continue
            if e.sym and str(e.sym).startswith('inlined:'):
                continue            # its events are on this path already
            frame = prog.functions.get(fr, fn)
            g = prog.callee_of(frame, e.node)
            callees = [g] if g is not None else []
            for a in list(e.node.args) + [k.value for k in e.node.keywords]:
                if isinstance(a, ast.Attribute):
                    h = prog.callee_of(frame, ast.Call(func=a, args=[],
                                                       keywords=[]))
                    if h is not None:
                        callees.append(h)
            for h in callees:
                if h.qual in region and h is not fn:
                    extra += _exec_max(ctx, h, sites, region,
                                       _stack + (fn.qual,))
        best = max(best, len(own) + extra)
    cache[key] = best
    return best


def check_flags(ctx, prog, lr):
    """The switch that makes every enforcement call load (use_conf) is
    never lowered during a reload: a concurrent call would skip its own load
    step, including the merge of registered defaults."""
    from ..dte import Table, inline_self_methods
    from ..load_model import roles
    from ..paths import const_truth
    r = roles(ctx)
    sr = prog.func(ENF + '.set_rules')
    n = 0
    from ..load_model import load_table
    for fn, inl in ((r.loader, {sr.qual}), (r.load_body, set())):
        t = Table(prog, fn, inline=inline_self_methods(prog, only=inl),
                  max_paths=100000) if inl else load_table(ctx)
        seen = set()
        for p in t.paths:
            for e in p.events:
                if e.kind != 'store' or U(e.node) != 'self.use_conf':
                    continue
                v = t.expand(e.value)
                ct = const_truth(v)
                truthy = ct is True
                keeps = isinstance(v, ast.BoolOp) and isinstance(
                    v.op, ast.Or) and any(U(x) == 'self.use_conf'
                                          for x in v.values)
                if keeps:
                    truthy = True       # keeps its value or is raised
                elif ct is None:
                    # known truthy on this path?
                    truthy = any(c.kind == 'test' and c.pol and U(
                        c.expr) == U(v) for c in p.conds[:e.nconds])
                key = (e.line, U(v), truthy)
                if key in seen:
                    continue
                seen.add(key)
                n += 1
                ctx.ob('C20.FLAGS', truthy, '%s:%d' % (
                    ctx.where(fn.module, fn.node).split(':')[0], e.line),
                    e.frame or fn.qual, 'self.use_conf = %s' % U(v),
                    'the load switch is only ever raised during a reload'
                    if truthy else
                    'during a reload the load switch use_conf is set to %s '
                    '(not known to be true): until it is raised again a '
                    'concurrent enforcement call skips its whole load step '
                    'and decides on a rule set without registered defaults'
                    % U(v))
    ctx.floor('C20.FLAGS', n, 1, 'writes of the load switch')
    check_gates(ctx, prog, lr)


def check_gates(ctx, prog, lr):
    """(1) An enforcement call skips its load step (including the merge of
    registered defaults) only because the load switch is off - never because
    another call is loading, or because of some other state.  (2) No state
    flag that gates a step writing the shared stores is lowered during the
    reload: a concurrent call would skip that step while it is under way."""
    from ..load_model import load_table, classify_event
    t = load_table(ctx)
    F = ctx.where(lr.module, lr.node).split(':')[0]
    WRITES = ('MAIN', 'DIR', 'MERGE', 'RESET-RULES', 'RESET-FILE')

    def merge_loop(p):
        return any(e.kind == 'iter' and 'self.registered_rules' in U(
            t.expand(e.node)) for e in p.events)
    bad = None
    n = 0
    for p in t.paths:
        if p.outcome.kind == 'raise' or merge_loop(p):
            continue
        n += 1
        off = any(c.kind == 'test' and not c.pol and U(c.expr) ==
                  'self.use_conf' for c in p.conds)
        if not off and bad is None:
            bad = p
    ctx.ob('C20.LOAD-STEP', bad is None, '%s:%d' % (F, bad.outcome.line)
           if bad else ctx.where(lr.module, lr.node), lr.qual,
           'paths that skip the load step (%d)' % n,
           'the load step is skipped only when the load switch use_conf is '
           'off' if bad is None else
           'a call can return from load_rules without loading or merging '
           'anything although the load switch is on (path: %s): while '
           'another call rebuilds the stores this one decides on whatever '
           'is there at that moment' % (bad.cond_text()[-200:] or 'always'))
    # (1b) within the load step a registered default is left out only when
    # the store being decided on already has an entry under its name - not
    # because of other shared state (bookkeeping that a concurrent reload
    # refreshes at a different moment than the store)
    bad = None
    n = 0
    for p in t.paths:
        if p.outcome.kind == 'raise':
            continue
        start = None
        for e in p.events:
            if e.kind == 'iter' and 'self.registered_rules' in U(
                    t.expand(e.node)):
                start = e
                break
        if start is None or start.nconds >= len(p.conds) or \
                not p.conds[start.nconds].pol:
            continue
        end = len(p.conds)
        merged = False
        for e in p.events[p.events.index(start) + 1:]:
            if e.kind == 'loopdone' and e.line == start.line:
                end = e.nconds
                break
            if classify_event(t, e) == 'MERGE':
                merged = True
        if merged:
            continue
        n += 1
        has = any(c.kind == 'test' and c.pol and isinstance(
            c.expr, ast.Compare) and isinstance(c.expr.ops[0], ast.In)
            and U(t.expand(c.expr.comparators[0])) == 'self.rules'
            for c in p.conds[start.nconds:end])
        if not has and bad is None:
            bad = p.conds[start.nconds:end]
    ctx.ob('C20.LOAD-STEP', bad is None, ctx.where(lr.module, lr.node),
           lr.qual, 'defaults left out of the merge (%d paths)' % n,
           'a registered default is left out only when the store has its '
           'name' if bad is None else
           'a registered default can be left out of the store although the '
           'store has no entry for it (path: %s): the decision then depends '
           'on state other than the store it is taken on, which a '
           'concurrent reload refreshes at a different moment' % ' and '.join(
               c.text() for c in bad)[-200:])
    ctx.floor('C20.LOAD-STEP', n, 1, 'skip paths of the default merge')
    # (2) gating flags
    gates = {}
    for p in t.paths:
        kinds = [(classify_event(t, e), e) for e in p.events]
        for ci, c in enumerate(p.conds):
            if c.kind != 'test' or not isinstance(c.expr, ast.Attribute):
                continue
            a = U(c.expr)
            if not a.startswith('self.') or a in ('self.use_conf',
                                                  'self.overwrite',
                                                  'self.rules'):
                continue
            after = [k for k, e in kinds if k in WRITES
                     and e.nconds > ci]
            g = gates.setdefault(a, {'on': False, 'off': False,
                                     'lowered': None})
            if c.pol and after:
                g['on'] = True
            if not c.pol and not after:
                g['off'] = True
        for e in p.events:
            if e.kind == 'store' and isinstance(e.node, ast.Attribute):
                a = U(e.node)
                from ..paths import const_truth
                if const_truth(t.expand(e.value)) is False and a in gates:
                    gates[a]['lowered'] = gates[a]['lowered'] or e
    for a, g in sorted(gates.items()):
        if g['on'] and g['off'] and g['lowered'] is not None:
            e = g['lowered']
            ctx.ob('C20.FLAGS', False, '%s:%d' % (F, e.line),
                   e.frame or lr.qual, '%s = %s' % (a, U(t.expand(e.value))),
                   'the flag %s gates a step that writes the shared rule '
                   'stores and is lowered during the reload: another '
                   'enforcement call - a concurrent one, or simply the next '
                   'one - sees it lowered, skips that step and decides on a '
                   'store that was not rebuilt' % a)


def check_cache_order(ctx):
    """The file cache is read by every decision without a lock: an entry
    shows a modification time only once it holds the data read at that
    time.  An entry stamped first looks current to a concurrent reader while
    its data is missing (KeyError) or still the old one."""
    prog = ctx.prog
    f = prog.functions.get(PKG + '._cache_handler.read_cached_file')
    if f is None:
        raise AnalysisError('file cache reader not found')
    from ..dte import Table as _T
    t = _T(prog, f, handler_paths=False)
    n = 0
    bad = None

    def key_of_store(e):
        x = e.node
        if isinstance(x, ast.Subscript) and isinstance(
                x.slice, ast.Constant) and isinstance(x.slice.value, str):
            return x.slice.value
        return None
    for p in t.paths:
        seen_data = False
        for e in p.events:
            if e.kind != 'store':
                continue
            k = key_of_store(e)
            if k == 'data':
                seen_data = True
            elif k == 'mtime':
                n += 1
                if not seen_data and bad is None:
                    bad = (p, e)
    ctx.ob('C20.CACHE-ORDER', bad is None, ctx.where(
        f.module, bad[1].node) if bad else ctx.where(f.module, f.node),
        f.qual, 'time stamp after data (%d stamping paths)' % n,
        'a cache entry is stamped with the file\'s modification time only '
        'after the data read at that time is in it' if bad is None else
        'the cache entry is stamped with the new modification time before '
        'the data is stored: a decision running meanwhile finds an entry '
        'that looks current and returns data that is missing or stale')
    ctx.floor('C20.CACHE-ORDER', n, 1, 'paths stamping the cache entry')


def check(ctx):
    prog = ctx.prog
    ctx.use(POLICY, CHECKS)
    ctx.explain('C20: every write to the shared stores Enforcer.rules / '
                'Enforcer.file_rules reachable from load_rules is '
                'enumerated and tested against the two safe publication '
                'disciplines: (a) at most one rebind per store of a locally '
                'built object that is not mutated afterwards, with readers '
                'reading the attribute once; or (b) all writes and all '
                'evaluation-side reads inside a with-block on one common '
                'lock.  Anything else is a finding keyed by function, store '
                'and kind of write.')
    ctx.assume('schedules are not enumerated: the discipline is sufficient '
               'for the property, its violation is demonstrated by one '
               'schedule recorded in DESIGN.md')
    lr = prog.func(ENF + '.load_rules')
    region = prog.region(lr)
    enf_f = prog.func(ENF + '.enforce')
    # shared stores: the two rule stores plus every other attribute that
    # the reload writes and the evaluation side reads
    written = set()
    for q, f in region.items():
        if f.cls is not None and f.cls.qual == ENF:
            for e in effects_of(f):
                if e.path.startswith('self.'):
                    written.add('.'.join(e.path.split('[')[0].split('.')[:2]))
    read = set()
    for q, f in prog.region(enf_f, stop=(lr.qual,)).items():
        for n in walk_no_nested(f.node):
            if isinstance(n, ast.Attribute) and isinstance(
                    n.ctx, ast.Load) and isinstance(n.value, ast.Name):
                if n.value.id == 'self' and f.cls is not None and \
                        f.cls.qual == ENF:
                    read.add('self.' + n.attr)
                elif n.value.id == 'enforcer':
                    read.add('self.' + n.attr)
    global STORES
    extra = sorted((written & read) - set(STORES) - {'self.conf'})
    stores = tuple(STORES) + tuple(extra)
    ctx.extra['shared_stores'] = list(stores)
    writes = []
    for q, f in sorted(region.items()):
        if f.cls is None or f.cls.qual != ENF:
            continue
        pm = parent_map(f.node)
        for e in effects_of(f):
            store = None
            for s in stores:
                if e.path == s or e.path.startswith(s + '.') or \
                        e.path.startswith(s + '['):
                    store = s
            if store is None:
                continue
            kind = 'rebind' if e.kind == 'store' and e.path == store \
                else ('insert' if e.kind == 'substore' else e.kind)
            writes.append((f, store, kind, e, under_lock(pm, e.node)))
    ctx.floor('C20.PUBLISH', len(writes), 1, 'write sites to the shared '
              'stores')
    # readers on the evaluation side
    readers = []
    enf = prog.func(ENF + '.enforce')
    for q, f in sorted(prog.region(enf, stop=(lr.qual,)).items()):
        pm = parent_map(f.node)
        for n in walk_no_nested(f.node):
            if isinstance(n, ast.Attribute) and isinstance(
                    n.ctx, ast.Load) and n.attr in ('rules', 'file_rules') \
                    and isinstance(n.value, ast.Name) and n.value.id in (
                        'self', 'enforcer') and (
                            f.cls is None or f.cls.qual == ENF
                            or n.value.id == 'enforcer'):
                if f.cls is not None and f.cls.qual != ENF and \
                        n.value.id == 'self':
                    continue
                readers.append((f, n, under_lock(pm, n)))
    ctx.extra['write_sites'] = len(writes)
    ctx.extra['reader_sites'] = len(readers)
    locks = {w[4] for w in writes} | {r[2] for r in readers}
    all_locked = None not in locks and len(locks) == 1
    # group writes per (store, kind) over the whole reload region: a write
    # that moves into a helper stays the same finding, a write that is added
    # changes the count and with it the key
    groups = {}
    for f, store, kind, e, lock in writes:
        # two classes of writes: the attribute is rebound, or the object it
        # holds is changed in place (entry stores, update(), pop() ...)
        fine = kind
        kind = 'rebind' if kind == 'rebind' else 'in-place'
        groups.setdefault((store, kind), []).append((f, e, lock, fine))
    # discipline (a): per store exactly one rebind in the whole region, of a
    # local object, and no in-place write at all
    per_store = {}
    for (store, kind), lst in groups.items():
        per_store.setdefault(store, []).append((kind, lst))
    for store, items in sorted(per_store.items()):
        inplace = [i for i in items if i[0] != 'rebind']
        rebinds = [i for i in items if i[0] == 'rebind']
        nreb = sum(len(i[1]) for i in rebinds)
        swap_ok = not inplace and nreb <= 1
        if swap_ok or all_locked:
            for kind, lst in items:
                f, e, lock = lst[0][:3]
                ctx.ob('C20.PUBLISH', True, ctx.where(f.module, e.node), ENF,
                       '%s %s' % (kind, store),
                       'published by copy-then-swap' if swap_ok else
                       'writers and readers share the lock %s' % lock)
            continue
        for kind, lst in sorted(items):
            lst = sorted(lst, key=lambda x: (x[0].qual, getattr(
                x[1].node, 'lineno', 0)))
            f, e, lock = lst[0][:3]
            # how many of these writes one execution can perform: per
            # function the largest number on a path (the two arms of an
            # if/else are one write, two loops are two), summed
            sites = {(x[0].qual, getattr(x[1].node, 'lineno', None))
                     for x in lst}
            nw = _exec_max(ctx, lr, sites, region) or len(lst)
            # kinds of write, coarsely: entries added / replaced (`fill`),
            # entries removed (`drain`), the object's own attributes (`attr`)
            def coarse(k):
                k = k.split(':')[-1]
                if k in ('insert', 'update', 'setdefault', '__setitem__'):
                    return 'fill'
                if k in ('pop', 'clear', 'popitem', 'del', 'remove',
                         '__delitem__'):
                    return 'drain'
                if k == 'store':
                    return 'attr'
                return k
            kinds = sorted({coarse(x[3]) for x in lst})
            ctx.ob('C20.PUBLISH', False, ctx.where(f.module, e.node), ENF,
                   '%s %s x%d [%s]' % (kind, store, nw, ','.join(kinds)),
                   'the shared store %s is %s without a common lock and not '
                   'as a single swap of a completely built object: a '
                   'concurrent decision can see a half-rebuilt rule set '
                   '(in %s)' % (
                       store, {'rebind': 'rebound (%d writes during one '
                               'reload)' % len(lst)}.get(
                                   kind, 'changed in place (%d writes: entry '
                                   'stores / update())' % len(lst)),
                       ', '.join(sorted({x[0].name for x in lst}))),
                   witness={'sites': ['%s:%s' % (x[0].name, getattr(
                       x[1].node, 'lineno', None)) for x in lst],
                       # writes that fill the store one entry at a time
                       # (many interleaving points) among them
                       'entrywise': _exec_max(ctx, lr, {
                           (x[0].qual, getattr(x[1].node, 'lineno', None))
                           for x in lst if x[3] == 'insert'}, region)})
    check_flags(ctx, prog, lr)
    # the loader reports truthfully whether it rebuilt the store (the
    # directories are then re-applied on top of it)
    from . import c10
    ctx.borrow('C20.LOAD-STEP', c10.check_pair, only=['C10.PAIR'])
    # every enforcement call performs its own load step before it reads the
    # stores (whatever kind of rule it was given)
    ctx.borrow('C20.LOAD-STEP', c10.check_load_first,
               only=['C10.LOAD-FIRST'])
    # readers: under discipline (a) a decision reads each store once (one
    # snapshot); every further read on the decision side is another point
    # at which a reload can slip in between two looks at the store
    by_store = {}
    for f, n, lock in readers:
        by_store.setdefault('self.' + n.attr, []).append((f, n, lock))
    for store, lst in sorted(by_store.items()):
        lst = sorted(lst, key=lambda x: (x[0].qual, x[1].lineno))
        ok = len(lst) <= 1 or (all_locked and None not in {
            x[2] for x in lst})
        ctx.ob('C20.READS', ok, ctx.where(lst[0][0].module, lst[0][1]), ENF,
               'decision-side reads of %s' % store,
               'read once per decision' if ok else
               'a decision reads %s at %d places (%s) without a lock: a '
               'reload that swaps the store between two of them makes the '
               'decision combine an answer from the old store with one from '
               'the new' % (store, len(lst), ', '.join(
                   '%s:%d' % (x[0].name, x[1].lineno) for x in lst)),
               witness={'sites': len(lst)})
    # the store answers from its entries alone: a store object that keeps
    # something it derived from them (a memo of the resolved default rule)
    # is not told when a reload fills it through dict.update(), and goes on
    # answering from what it remembers
    rules_cls = prog.cls(POLICY + '.Rules')
    n_st = 0
    for m in sorted(rules_cls.methods.values(), key=lambda x: x.qual):
        if m.name == '__init__':
            continue
        for e in effects_of(m):
            if e.kind == 'global' or not e.path.startswith('self.'):
                continue
            n_st += 1
            ctx.ob('C20.STORE-STATE', False, ctx.where(m.module, e.node),
                   m.qual, U(e.node)[:80],
                   'the rule store writes `%s` outside its constructor: '
                   'state derived from its entries that a reload updating '
                   'the entries in place does not refresh' % e.path)
    if not n_st:
        ctx.ob('C20.STORE-STATE', True, ctx.where(
            rules_cls.module, rules_cls.node), rules_cls.qual,
            '%d methods' % len(rules_cls.methods),
            'the rule store keeps nothing besides its entries and the '
            'default rule it was given')
    check_cache_order(ctx)
    for f, n, lock in readers:
        ctx.sample('reader %s %s:%d %s' % (f.qual, f.module.path.split(
            '/')[-1], n.lineno, U(n)))
    ctx.floor('C20.PUBLISH', len(readers), 2, 'evaluation-side readers')

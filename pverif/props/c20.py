"""C20 - a decision taken during a reload sees the old or the new policy,
never a mix (publication-discipline analysis)."""
import ast

from .. import PKG
from ..effects import effects_of
from ..model import AnalysisError
from ..util import U, walk_no_nested, parent_map, method_call

POLICY = PKG + '.policy'
ENF = POLICY + '.Enforcer'
CHECKS = PKG + '._checks'
STORES = ('self.rules', 'self.file_rules')


def under_lock(pm, node):
    """with <something lock-like>: encloses node"""
    n = pm.get(node)
    while n is not None:
        if isinstance(n, (ast.With, ast.AsyncWith)):
            for it in n.items:
                t = U(it.context_expr).lower()
                if 'lock' in t or 'mutex' in t or 'synchron' in t:
                    return U(it.context_expr)
        n = pm.get(n)
    return None


def check_flags(ctx, prog, lr):
    """The switch that makes every enforcement call load (use_conf) is
    never lowered during a reload: a concurrent call would skip its own load
    step, including the merge of registered defaults."""
    from ..dte import Table, inline_self_methods
    from ..load_model import roles
    from ..paths import const_truth
    r = roles(ctx)
    sr = prog.func(ENF + '.set_rules')
    n = 0
    from ..load_model import load_table
    for fn, inl in ((r.loader, {sr.qual}), (r.load_body, set())):
        t = Table(prog, fn, inline=inline_self_methods(prog, only=inl),
                  max_paths=100000) if inl else load_table(ctx)
        seen = set()
        for p in t.paths:
            for e in p.events:
                if e.kind != 'store' or U(e.node) != 'self.use_conf':
                    continue
                v = t.expand(e.value)
                ct = const_truth(v)
                truthy = ct is True
                if ct is None:
                    # known truthy on this path?
                    truthy = any(c.kind == 'test' and c.pol and U(
                        c.expr) == U(v) for c in p.conds[:e.nconds])
                key = (e.line, U(v), truthy)
                if key in seen:
                    continue
                seen.add(key)
                n += 1
                ctx.ob('C20.FLAGS', truthy, '%s:%d' % (
                    ctx.where(fn.module, fn.node).split(':')[0], e.line),
                    e.frame or fn.qual, 'self.use_conf = %s' % U(v),
                    'the load switch is only ever raised during a reload'
                    if truthy else
                    'during a reload the load switch use_conf is set to %s '
                    '(not known to be true): until it is raised again a '
                    'concurrent enforcement call skips its whole load step '
                    'and decides on a rule set without registered defaults'
                    % U(v))
    ctx.floor('C20.FLAGS', n, 1, 'writes of the load switch')


def check(ctx):
    prog = ctx.prog
    ctx.use(POLICY, CHECKS)
    ctx.explain('C20: every write to the shared stores Enforcer.rules / '
                'Enforcer.file_rules reachable from load_rules is '
                'enumerated and tested against the two safe publication '
                'disciplines: (a) at most one rebind per store of a locally '
                'built object that is not mutated afterwards, with readers '
                'reading the attribute once; or (b) all writes and all '
                'evaluation-side reads inside a with-block on one common '
                'lock.  Anything else is a finding keyed by function, store '
                'and kind of write.')
    ctx.assume('schedules are not enumerated: the discipline is sufficient '
               'for the property, its violation is demonstrated by one '
               'schedule recorded in DESIGN.md')
    lr = prog.func(ENF + '.load_rules')
    region = prog.region(lr)
    enf_f = prog.func(ENF + '.enforce')
    # shared stores: the two rule stores plus every other attribute that
    # the reload writes and the evaluation side reads
    written = set()
    for q, f in region.items():
        if f.cls is not None and f.cls.qual == ENF:
            for e in effects_of(f):
                if e.path.startswith('self.'):
                    written.add('.'.join(e.path.split('[')[0].split('.')[:2]))
    read = set()
    for q, f in prog.region(enf_f, stop=(lr.qual,)).items():
        for n in walk_no_nested(f.node):
            if isinstance(n, ast.Attribute) and isinstance(
                    n.ctx, ast.Load) and isinstance(n.value, ast.Name):
                if n.value.id == 'self' and f.cls is not None and \
                        f.cls.qual == ENF:
                    read.add('self.' + n.attr)
                elif n.value.id == 'enforcer':
                    read.add('self.' + n.attr)
    global STORES
    extra = sorted((written & read) - set(STORES) - {'self.conf'})
    stores = tuple(STORES) + tuple(extra)
    ctx.extra['shared_stores'] = list(stores)
    writes = []
    for q, f in sorted(region.items()):
        if f.cls is None or f.cls.qual != ENF:
            continue
        pm = parent_map(f.node)
        for e in effects_of(f):
            store = None
            for s in stores:
                if e.path == s or e.path.startswith(s + '.') or \
                        e.path.startswith(s + '['):
                    store = s
            if store is None:
                continue
            kind = 'rebind' if e.kind == 'store' and e.path == store \
                else ('insert' if e.kind == 'substore' else e.kind)
            writes.append((f, store, kind, e, under_lock(pm, e.node)))
    ctx.floor('C20.PUBLISH', len(writes), 1, 'write sites to the shared '
              'stores')
    # readers on the evaluation side
    readers = []
    enf = prog.func(ENF + '.enforce')
    for q, f in sorted(prog.region(enf, stop=(lr.qual,)).items()):
        pm = parent_map(f.node)
        for n in walk_no_nested(f.node):
            if isinstance(n, ast.Attribute) and isinstance(
                    n.ctx, ast.Load) and n.attr in ('rules', 'file_rules') \
                    and isinstance(n.value, ast.Name) and n.value.id in (
                        'self', 'enforcer') and (
                            f.cls is None or f.cls.qual == ENF
                            or n.value.id == 'enforcer'):
                if f.cls is not None and f.cls.qual != ENF and \
                        n.value.id == 'self':
                    continue
                readers.append((f, n, under_lock(pm, n)))
    ctx.extra['write_sites'] = len(writes)
    ctx.extra['reader_sites'] = len(readers)
    locks = {w[4] for w in writes} | {r[2] for r in readers}
    all_locked = None not in locks and len(locks) == 1
    # group writes per (function, store, kind)
    groups = {}
    for f, store, kind, e, lock in writes:
        groups.setdefault((f.qual, store, kind), []).append((f, e, lock))
    # discipline (a): per store exactly one rebind in the whole region, of a
    # local object, and no in-place write at all
    per_store = {}
    for (q, store, kind), lst in groups.items():
        per_store.setdefault(store, []).append((q, kind, lst))
    for store, items in sorted(per_store.items()):
        inplace = [i for i in items if i[1] != 'rebind']
        rebinds = [i for i in items if i[1] == 'rebind']
        nreb = sum(len(i[2]) for i in rebinds)
        swap_ok = not inplace and nreb <= 1
        if swap_ok or all_locked:
            for q, kind, lst in items:
                f, e, lock = lst[0]
                ctx.ob('C20.PUBLISH', True, ctx.where(f.module, e.node), q,
                       '%s %s' % (kind, store),
                       'published by copy-then-swap' if swap_ok else
                       'writers and readers share the lock %s' % lock)
            continue
        for q, kind, lst in sorted(items):
            f, e, lock = lst[0]
            ctx.ob('C20.PUBLISH', False, ctx.where(f.module, e.node), q,
                   '%s %s x%d' % (kind, store, len(lst)),
                   'the shared store %s is %s without a common lock and not '
                   'as a single swap of a completely built object: a '
                   'concurrent decision can see a half-rebuilt rule set' % (
                       store, {'rebind': 'rebound (one of several writes '
                               'during one reload)',
                               'insert': 'filled in place entry by entry'
                               }.get(kind, 'mutated in place (%s)' % kind)),
                   witness={'sites': [getattr(x[1].node, 'lineno', None)
                                      for x in lst]})
    check_flags(ctx, prog, lr)
    for f, n, lock in readers:
        ctx.sample('reader %s %s:%d %s' % (f.qual, f.module.path.split(
            '/')[-1], n.lineno, U(n)))
    ctx.floor('C20.PUBLISH', len(readers), 2, 'evaluation-side readers')

"""C08 - scope types gate a policy independently of its check string."""
import ast
import itertools

from .. import PKG
from ..absval import AV
from ..dte import Table
from ..enforce_model import (enforce_table, scope_gate, is_check_call,
                             check_call_args)
from ..model import AnalysisError
from ..util import U, is_const, method_call, kwarg, walk_no_nested

POLICY = PKG + '.policy'
CHECKS = PKG + '._checks'
SCOPES = ('system', 'domain', 'project')


def creds_oracle(creds_name, state):
    """Oracle for expressions over an abstract credentials mapping.

    state: key -> 'absent' | 'falsy' | 'truthy'
    """
    def key_of(expr):
        if isinstance(expr, ast.Subscript) and U(expr.value) == creds_name \
                and is_const(expr.slice):
            return expr.slice.value, 'sub'
        mc = method_call(expr, 'get')
        if mc and U(mc[0]) == creds_name and expr.args and is_const(
                expr.args[0]):
            if len(expr.args) > 1 and not is_const(expr.args[1], None,
                                                   False, '', 0):
                return None, None
            return expr.args[0].value, 'get'
        return None, None

    def oracle(expr):
        k, how = key_of(expr)
        if k is not None and k in state:
            return state[k] == 'truthy'
        if isinstance(expr, ast.Compare) and len(expr.ops) == 1 and \
                isinstance(expr.ops[0], ast.In) and is_const(expr.left) and \
                U(expr.comparators[0]) == creds_name and \
                expr.left.value in state:
            return state[expr.left.value] != 'absent'
        if isinstance(expr, ast.Compare) and len(expr.ops) == 1 and \
                isinstance(expr.ops[0], ast.Is) and is_const(
                    expr.comparators[0], None):
            k, how = key_of(expr.left)
            if k is not None and k in state and how == 'get':
                if state[k] == 'absent':
                    return True
                if state[k] == 'truthy':
                    return False
        return None
    return oracle


def check_table(ctx):
    prog = ctx.prog
    gate = scope_gate(prog)
    prm = gate.params
    # roles of the gate's parameters from the call in enforce
    enf = prog.func(POLICY + '.Enforcer.enforce')
    creds_p, rule_p = prm[1], prm[2]
    raise_p = 'do_raise' if 'do_raise' in prm else None
    if raise_p is None:
        raise AnalysisError('scope gate has no do_raise parameter')
    from ..dte import inline_helpers
    t = Table(prog, gate, inline=inline_helpers(
        prog, modules={POLICY}, exclude={POLICY + '.Enforcer.enforce',
                                         POLICY + '.Enforcer.load_rules'}),
        split_returns=True, max_depth=4)
    W = ctx.where(gate.module, gate.node)
    F = W.split(':')[0]

    def classify(p):
        if p.outcome.kind == 'raise':
            r = t.raised_class(p)
            return 'raise:' + (r.rsplit('.', 1)[-1] if r else '?')
        if p.outcome.kind == 'end' or p.outcome.expr is None:
            return 'none'
        e = t.expand(p.outcome.expr)
        if is_const(e) and isinstance(e.value, bool):
            return 'True' if e.value else 'False'
        return 'expr:' + U(e)

    rows = 0
    bad = {}
    subsets = [s for n in (1, 2, 3)
               for s in itertools.combinations(SCOPES, n)]
    for sysst, domst in itertools.product(('absent', 'falsy', 'truthy'),
                                          repeat=2):
        scope = 'system' if sysst == 'truthy' else (
            'domain' if domst == 'truthy' else 'project')
        co = creds_oracle(creds_p, {'system': sysst, 'domain_id': domst})
        for types in subsets:
            for enforce_on in (True, False):
                for do_raise in (True, False):
                    def oracle(expr, types=types, enforce_on=enforce_on):
                        r = co(expr)
                        if r is not None:
                            return r
                        if isinstance(expr, ast.Compare) and len(
                                expr.ops) == 1 and isinstance(
                                    expr.ops[0], ast.In) and is_const(
                                        expr.left) and U(
                                            expr.comparators[0]) == \
                                rule_p + '.scope_types':
                            return expr.left.value in types
                        if U(expr).endswith('.oslo_policy.enforce_scope'):
                            return enforce_on
                        return None
                    binding = {raise_p: AV('do_raise', do_raise,
                                           types=('bool',),
                                           eq={True: do_raise,
                                               False: not do_raise})}
                    feas = t.feasible(binding, oracle)
                    outs = {}
                    for p, unk in feas:
                        outs.setdefault(classify(p), []).append((p, unk))
                    if scope in types:
                        want = 'True'
                    elif enforce_on:
                        want = 'raise:InvalidScope' if do_raise else 'False'
                    else:
                        want = 'True'
                    rows += 1
                    if set(outs) != {want}:
                        wrong = [o for o in outs if o != want] or ['(none)']
                        p0, unk0 = outs[wrong[0]][0] if wrong[0] in outs \
                            else (None, [])
                        key = (scope in types, enforce_on, do_raise,
                               tuple(sorted(outs)), scope if len(bad) < 3
                               else '')
                        bad.setdefault(key, {
                            'creds': {'system': sysst, 'domain_id': domst},
                            'token_scope': scope, 'scope_types': list(types),
                            'enforce_scope': enforce_on,
                            'do_raise': do_raise, 'expected': want,
                            'got': sorted(outs),
                            'path': p0.cond_text() if p0 else None,
                            'line': p0.outcome.line if p0 else None,
                            'unknown': [c.text() for c in unk0]})
    ctx.count(rows, [('C08.TABLE', 'row', i) for i in range(min(rows, 64))])
    ctx.extra['table_rows'] = rows
    ctx.extra['exhaustive'] = True
    for key, w in list(bad.items())[:8]:
        ctx.ob('C08.TABLE', False, '%s:%s' % (F, w['line'] or
                                              gate.node.lineno),
               gate.qual,
               'row token=%s in-types=%s enforce_scope=%s do_raise=%s' % (
                   w['token_scope'], w['token_scope'] in w['scope_types'],
                   w['enforce_scope'], w['do_raise']),
               'scope gate decides %s where the documented table says %s '
               '(creds %s, scope_types %s)%s' % (
                   w['got'], w['expected'], w['creds'], w['scope_types'],
                   '; depends on unrecognised condition %s' % w['unknown']
                   if w['unknown'] else ''), witness=w)
    if not bad:
        ctx.ob('C08.TABLE', True, W, gate.qual,
               'scope gate decision table (%d paths)' % len(t.paths),
               'all %d rows (9 credential states x 7 scope-type sets x '
               'enforce_scope x do_raise) equal the documented table' % rows)
    return gate


def _strip_or_none(e):
    while isinstance(e, ast.BoolOp) and isinstance(e.op, ast.Or) and len(
            e.values) == 2 and is_const(e.values[1], None):
        e = e.values[0]
    return e


def _registered_lookup(e):
    """is e `self.registered_rules.get(rule)` / `[rule]` (maybe `or None`)"""
    e = _strip_or_none(e)
    if isinstance(e, ast.Call) and method_call(e, 'get') and U(
            method_call(e)[0]) == 'self.registered_rules' and e.args and \
            U(e.args[0]) == 'rule' and (len(e.args) == 1 or is_const(
                e.args[1], None)):
        return True
    return isinstance(e, ast.Subscript) and U(e.value) == \
        'self.registered_rules' and U(e.slice) == 'rule'


def _gate_false_needs_no_raise(ctx, gate):
    """Does every path of the gate that answers False run with a falsy
    do_raise?  (Then `gate said no` and `do_raise` exclude each other.)"""
    prog = ctx.prog
    from ..dte import inline_helpers
    t = Table(prog, gate, inline=inline_helpers(
        prog, modules={POLICY}, exclude={POLICY + '.Enforcer.enforce',
                                         POLICY + '.Enforcer.load_rules'}),
        split_returns=True, max_depth=4)
    n = 0
    for p in t.paths:
        if p.outcome.kind == 'return' and is_const(p.outcome.expr, False):
            n += 1
            if not any(c.kind == 'test' and not c.pol and U(c.expr) ==
                       'do_raise' for c in p.conds):
                return False
    return n > 0


def check_gate(ctx, gate):
    prog = ctx.prog
    from ..enforce_model import gate_cond
    excl = _gate_false_needs_no_raise(ctx, gate)
    t = enforce_table(ctx, inline_gate=False)
    enf = t.enf
    F = ctx.where(enf.module, enf.node).split(':')[0]
    ctx.count(len(t.paths))
    n_named = n_obj = 0
    seen = set()

    def once(rule, ok, line, construct, detail):
        key = (rule, ok, line, construct)
        if key in seen:
            return
        seen.add(key)
        ctx.ob(rule, ok, '%s:%d' % (F, line), enf.qual, construct, detail)

    for p in t.paths:
        checks = [(i, e) for i, e in enumerate(p.events)
                  if e.kind == 'call' and is_check_call(
                      prog, t.module_of(e.frame), e.node)]
        gates = [(i, e) for i, e in enumerate(p.events)
                 if e.kind == 'call' and prog.callee_of(
                     prog.functions.get(e.frame, enf), e.node) is gate]
        if excl and any(gate_cond(t, c) and not c.pol for c in p.conds) \
                and any(c.kind == 'test' and c.pol and U(c.expr) ==
                        'do_raise' for c in p.conds):
            # the gate answers False only without do_raise
            continue
        # gate results tested on this path
        for gi, ge in gates:
            a = {}
            gp = gate.params[1:]
            for nme, v in zip(gp, ge.node.args):
                a[nme] = v
            for k in ge.node.keywords:
                a[k.arg] = k.value
            subj = a.get(gp[1])
            subj_x = _strip_or_none(t.expand(subj)) if subj is not None \
                else None
            dr = a.get('do_raise')
            cr = a.get(gp[0])
            named = not (subj is not None and U(subj) == 'rule')
            if named:
                ok_src = subj_x is not None and _registered_lookup(subj_x)
                once('C08.GATE', bool(ok_src), ge.line,
                     'gate subject ' + U(subj_x),
                     'scope types come from the registered default of the '
                     'enforced name' if ok_src else
                     'the scope gate is not applied to the registered '
                     'default of the enforced name (scope types could come '
                     'from a file override or another rule)')
            ok_dr = dr is not None and U(dr) == 'do_raise'
            once('C08.GATE', ok_dr, ge.line, 'gate do_raise=' + (
                U(dr) if dr is not None else 'default'),
                'the caller\'s do_raise reaches the gate' if ok_dr else
                'the scope gate is not given the caller\'s do_raise')
            ok_cr = cr is not None and (U(cr) == 'creds' or 'SYM_' in U(cr))
            once('C08.GATE', ok_cr, ge.line, 'gate creds=' + (
                U(cr) if cr is not None else '?'),
                'the gate sees the request credentials' if ok_cr else
                'the scope gate is not given the credentials')
            # result handling
            res = ge.sym
            tested = [c for c in p.conds if c.kind == 'test' and isinstance(
                c.expr, ast.Name) and c.expr.id == res]
            if not tested:
                # the call itself is the condition (`if not self._gate(..)`)
                tested = [c for c in p.conds[ge.nconds:]
                          if gate_cond(t, c)][:1]
            if not tested:
                once('C08.GATE', False, ge.line, 'gate result unused',
                     'the result of the scope gate is not tested')
                continue
            valid = tested[0].pol
            later_checks = [x for x in checks if x[0] > gi]
            if not valid:
                ok = p.outcome.kind == 'return' and is_const(
                    p.outcome.expr, False) and not later_checks
                once('C08.GATE', ok, p.outcome.line,
                     'scope mismatch -> ' + p.outcome.text(),
                     'a failed scope gate returns False before the check '
                     'is evaluated' if ok else
                     'after a failed scope gate enforce %s' % (
                         'still evaluates the check' if later_checks
                         else p.outcome.text()))
            else:
                ok = bool(later_checks)
                once('C08.GATE', ok, ge.line, 'scope ok -> check evaluated',
                     'a passed gate leaves the decision to the check'
                     if ok else 'after a passed gate the check is not '
                     'evaluated')
        # a named policy found in the store is decided by evaluating its
        # check behind the gate: a path that decides it some other way (a
        # verdict computed from the rule's class, say) has passed no gate
        if not checks and not gates and p.outcome.kind == 'return':
            named_path = any(
                c.kind == 'test' and not c.pol and isinstance(
                    c.expr, ast.Call) and U(c.expr.func) == 'isinstance'
                and U(c.expr.args[0]) == 'rule' for c in p.conds)
            not_found = any(
                (c.kind == 'exc' and 'KeyError' in str(getattr(
                    c.expr, 'value', ''))) or
                (c.kind == 'test' and not c.pol and U(t.expand(c.expr)) in (
                    'self.rules',)) for c in p.conds)
            if named_path and not not_found:
                once('C08.GATE', False, p.outcome.line,
                     'named policy decided without evaluation',
                     'a named policy that the store defines is decided '
                     'without calling its check and without the scope gate '
                     '(path: %s)' % p.cond_text()[-200:])
        # paths that evaluate a check without a gate: the subject must lack
        # scope types
        for ci, ce in checks:
            a = check_call_args(ce.node)
            is_obj = U(a.get('rule')) == 'rule'
            before = [g for g in gates if g[0] < ci]
            if is_obj:
                n_obj += 1
            else:
                n_named += 1
            if before:
                continue
            conds = p.conds[:ce.nconds]
            if is_obj:
                ok = any(c.kind == 'test' and not c.pol and U(
                    c.expr) == 'rule.scope_types' for c in conds)
                once('C08.GATE', ok, ce.line,
                     'check object evaluated without gate',
                     'only when it declares no scope types' if ok else
                     'a check object is evaluated without the scope gate '
                     'although it may declare scope types (path: %s)'
                     % p.cond_text()[-200:])
            else:
                def reg_falsy(c):
                    e = t.expand(c.expr)
                    if isinstance(e, ast.Compare) and len(e.ops) == 1 and \
                            isinstance(e.ops[0], ast.In) and U(
                                e.left) == 'rule' and U(
                                    e.comparators[0]) in (
                                        'self.registered_rules',
                                        'self.registered_rules.keys()'):
                        return not c.pol        # no registered default
                    if isinstance(e, ast.Compare) and len(e.ops) == 1 and \
                            isinstance(e.ops[0], ast.Is) and is_const(
                                e.comparators[0], None):
                        return c.pol and _registered_lookup(e.left)
                    if c.pol:
                        return False
                    if isinstance(e, ast.Attribute) and \
                            e.attr == 'scope_types':
                        return _registered_lookup(e.value)
                    return _registered_lookup(e)
                ok = any(c.kind == 'test' and reg_falsy(c) for c in conds)
                once('C08.GATE', ok, ce.line,
                     'named rule evaluated without gate',
                     'only when the name has no registered default with '
                     'scope types' if ok else
                     'a named policy is evaluated without the scope gate '
                     'although its registered default may declare scope '
                     'types (path: %s)' % p.cond_text()[-300:])
    ctx.floor('C08.GATE', n_named, 1, 'named evaluations')
    ctx.floor('C08.GATE', n_obj, 1, 'check-object evaluations')


def check_mirror(ctx, gate):
    prog = ctx.prog
    t = enforce_table(ctx, inline_gate=False)
    enf = t.enf
    F = ctx.where(enf.module, enf.node).split(':')[0]
    seen = set()
    n = 0

    def src_key(e):
        e = t.expand(e)
        mc = method_call(e, 'get') if isinstance(e, ast.Call) else None
        if mc and e.args and is_const(e.args[0]):
            return e.args[0].value
        if isinstance(e, ast.Subscript) and is_const(e.slice):
            return e.slice.value
        return None
    for p in t.paths:
        gates = [i for i, e in enumerate(p.events) if e.kind == 'call'
                 and prog.callee_of(prog.functions.get(e.frame, enf),
                                    e.node) is gate]
        stores = [(i, e) for i, e in enumerate(p.events)
                  if e.kind in ('store', 'aug', 'del')
                  and isinstance(e.node, ast.Subscript)
                  and (U(e.node.value) == 'creds' or (
                      isinstance(e.node.value, ast.Name)
                      and e.node.value.id.startswith('SYM_')
                      and isinstance(t.en.defs.get(e.node.value.id),
                                     ast.Call)
                      and [U(a) for a in t.en.defs[
                          e.node.value.id].args] == ['creds']))]
        mirrored = False
        for i, e in stores:
            k = e.node.slice.value if is_const(e.node.slice) else None
            sk = src_key(e.value) if e.value is not None else None
            guard = any(c.kind == 'test' and c.pol and src_key(c.expr) ==
                        'system_scope' for c in p.conds[:e.nconds])
            ok = k == 'system' and sk == 'system_scope' and guard and (
                not gates or i < gates[0])
            if ok:
                mirrored = True
            key = (e.line, ok)
            if key in seen:
                continue
            seen.add(key)
            n += 1
            ctx.ob('C08.MIRROR', ok, '%s:%d' % (F, e.line), enf.qual,
                   e.text(),
                   "creds['system'] mirrors a truthy system_scope before "
                   'the gate' if ok else
                   'the credentials are modified other than by mirroring a '
                   "truthy system_scope into creds['system'] before the "
                   'scope gate')
        # a truthy system_scope must be mirrored whenever a gate follows
        truthy_ss = any(c.kind == 'test' and c.pol and src_key(c.expr) ==
                        'system_scope' for c in p.conds)
        if truthy_ss and gates and not mirrored:
            key = ('missing', p.outcome.line)
            if key not in seen:
                seen.add(key)
                ctx.ob('C08.MIRROR', False, ctx.where(enf.module, enf.node),
                       enf.qual, 'system_scope not mirrored',
                       'a truthy system_scope reaches the scope gate '
                       "without being mirrored into creds['system']")
    any_test = any(src_key(c.expr) == 'system_scope' for p in t.paths
                   for c in p.conds if c.kind == 'test')
    ctx.ob('C08.MIRROR', any_test and n > 0, ctx.where(enf.module, enf.node),
           enf.qual, 'system_scope spelling',
           'the oslo.context spelling system_scope is honoured' if any_test
           and n else 'enforce never mirrors system_scope into '
           "creds['system']: system-scoped context tokens are treated as "
           'project scoped')


def check_creds(ctx):
    prog = ctx.prog
    enf = prog.func(POLICY + '.Enforcer.enforce')
    t = enforce_table(ctx, inline_gate=False)
    # the mapper
    from ..enforce_model import context_mapper
    mapper = context_mapper(prog)
    if mapper is None:
        raise AnalysisError('context -> credentials mapper not found')
    ctxp = mapper.params[1]
    ok = False
    detail = 'the mapper does not copy every policy value under its own key'
    src = None
    for n in ast.walk(mapper.node):
        if isinstance(n, ast.Call) and method_call(n, 'to_policy_values') \
                and U(method_call(n)[0]) == ctxp:
            src = n
    if src is None:
        detail = 'the mapper does not use RequestContext.to_policy_values()'
    else:
        for n in ast.walk(mapper.node):
            if isinstance(n, ast.For) and isinstance(n.target, ast.Tuple) \
                    and len(n.target.elts) == 2 and method_call(
                        n.iter, 'items'):
                k, v = U(n.target.elts[0]), U(n.target.elts[1])
                body = [s for s in n.body]
                if len(body) == 1 and isinstance(body[0], ast.Assign) and \
                        isinstance(body[0].targets[0], ast.Subscript) and \
                        U(body[0].targets[0].slice) == k and U(
                            body[0].value) == v:
                    ok = True
            if isinstance(n, ast.DictComp) and len(n.generators) == 1 and \
                    not n.generators[0].ifs and isinstance(
                        n.generators[0].target, ast.Tuple):
                g = n.generators[0]
                if U(n.key) == U(g.target.elts[0]) and U(n.value) == U(
                        g.target.elts[1]):
                    ok = True
            if isinstance(n, ast.Call) and U(n.func) == 'dict' and len(
                    n.args) == 1 and not n.keywords:
                ok = True
        if ok:
            detail = 'every item of to_policy_values() is copied under ' \
                     'its own key'
    ctx.ob('C08.CREDS', ok, ctx.where(mapper.module, mapper.node),
           mapper.qual, 'context mapper', detail)
    # type gate in enforce
    raises = [p for p in t.paths if p.outcome.kind == 'raise' and
              t.raised_class(p) == POLICY + '.InvalidContextObject']
    def refused(p):
        """classes a path knows the credentials are *not* an instance of"""
        out = set()
        for c in p.conds:
            e = t.expand(c.expr)
            if c.kind == 'test' and not c.pol and isinstance(
                    e, ast.Call) and U(e.func) == 'isinstance' and len(
                        e.args) == 2 and U(e.args[0]) == 'creds':
                a1 = e.args[1]
                if isinstance(a1, (ast.Name, ast.Attribute)):
                    c_ = prog.const_expr(t.module_of(c.frame), a1,
                                         names_ok=True)
                    if isinstance(c_, ast.Tuple):
                        a1 = c_
                ts = a1.elts if isinstance(a1, ast.Tuple) else [a1]
                out |= {U(x).rsplit('.', 1)[-1] for x in ts}
        return out
    okg = bool(raises) and all(
        'RequestContext' in refused(p) and (
            'MutableMapping' in refused(p) or 'dict' in refused(p))
        for p in raises)
    ctx.ob('C08.CREDS', okg, ctx.where(enf.module, enf.node), enf.qual,
           'credentials type gate',
           'anything that is neither a RequestContext nor a mutable '
           'mapping is rejected with InvalidContextObject' if okg else
           'the credentials type gate no longer demands a RequestContext or '
           'a *mutable* mapping although enforce writes creds[\'system\']: '
           'other objects fail later with an undocumented exception')
    # RequestContext is mapped, mappings are used as they are
    def is_ctx_test(c):
        e = c.expr
        return c.kind == 'test' and c.pol and isinstance(e, ast.Call) and \
            U(e.func) == 'isinstance' and len(e.args) == 2 and not \
            isinstance(e.args[1], ast.Tuple) and 'RequestContext' in U(
                e.args[1])
    mapped = [p for p in t.paths if any(is_ctx_test(c) for c in p.conds)]
    okm = bool(mapped) and all(any(
        e.kind == 'call' and prog.callee_of(
            prog.functions.get(e.frame, enf), e.node) is mapper
        for e in p.events) for p in mapped if p.outcome.kind != 'raise'
        or True)
    ctx.ob('C08.CREDS', okm, ctx.where(enf.module, enf.node), enf.qual,
           'RequestContext -> mapper',
           'a RequestContext is converted by the mapper' if okm else
           'a RequestContext is not converted into its policy values')


def check_opt(ctx):
    prog = ctx.prog
    opt = prog.options().get('enforce_scope')
    ok = opt is not None and opt['type'] == 'ext:oslo_config.cfg.BoolOpt' \
        and is_const(opt['default'], True)
    ctx.ob('C08.OPT', ok, ctx.where(prog.module(PKG + '.opts'),
                                    opt['node'] if opt else None),
           PKG + '.opts._options', 'option enforce_scope',
           'boolean, default True' if ok else
           'option enforce_scope is not a boolean defaulting to True')


def check(ctx):
    ctx.use(POLICY, PKG + '.opts')
    ctx.explain('C08: the complete branch structure of the scope gate is '
                'extracted and compared with the documented table for all '
                '252 rows; the gate\'s placement, subject, arguments and '
                'result handling in enforce are checked on every path; the '
                'system_scope mirror, the context mapper and the option '
                'default are checked structurally.')
    ctx.assume('oslo.context RequestContext.to_policy_values is trusted')
    gate = check_table(ctx)
    check_gate(ctx, gate)
    check_mirror(ctx, gate)
    check_creds(ctx)
    check_opt(ctx)
    # C08.OBJ: scope types declared on one check object stay on that object
    from .c12 import check_identity
    check_identity(ctx, 'C08.OBJ')
    # the token scope is taken from this call's credentials and the scope
    # types from the registered rule as it is: nothing is remembered per
    # context object, the rule is not modified (= C07.STATELESS)
    from .c07 import check_stateless
    check_stateless(ctx, 'C08.STATELESS')
    # a scope mismatch is reported whatever the policy's check string says:
    # the texts of the gate's messages are built from constant templates
    # (= C14.FORMAT)
    from .c14 import check_format
    ctx.borrow('C08.GATE', check_format, only=['C14.FORMAT'])

"""C11 - deprecated-policy merging follows the documented override table."""
import ast
import itertools

from .. import PKG
from .. import grammar as G
from ..dte import Table
from ..load_model import (roles, load_table, classify_event,
                          check_record_wins)
from ..model import AnalysisError
from ..util import U, is_const, method_call

POLICY = PKG + '.policy'
CHECKS = PKG + '._checks'

ATOMS = ('renamed', 'old_in_file', 'same_obj', 'alias', 'new_in_file',
         'enforce_new', 'same_str')


def make_recogniser(t, dflt):
    """Map a primitive condition to (atom, value-when-condition-true)."""
    D = dflt + '.deprecated_rule'
    NEW_NAME = dflt + '.name'
    OLD_NAME = D + '.name'
    FILE_OLD = 'self.file_rules[%s]' % OLD_NAME

    def canon(txt):
        # the file rule recorded under the old name, however it is fetched
        for a in ('self.file_rules.get(%s)' % OLD_NAME,
                  'self.file_rules.get(%s, None)' % OLD_NAME):
            txt = txt.replace(a, FILE_OLD)
        return txt

    def rec(expr):
        x = t.expand(expr)
        if U(x) == D:
            return ('has_dep', True)
        if isinstance(x, ast.Compare) and len(x.ops) == 1:
            l, r = canon(U(x.left)), canon(U(x.comparators[0]))
            op = x.ops[0]
            if isinstance(op, ast.Is) and r == 'None' and l == FILE_OLD:
                return ('old_in_file', False)
            if isinstance(op, ast.Is) and r == 'None' and l in (
                    FILE_OLD + '.check', dflt + '.check', D + '.check'):
                # a RuleDefault / DeprecatedRule always holds a parsed check
                # (set by its constructor, see C12.COPY-IN / C03)
                return ('never', True)
            if isinstance(op, ast.Eq):
                pair = {l, r}
                if pair == {OLD_NAME, NEW_NAME}:
                    return ('renamed', False)
                if pair == {D + '.check_str', dflt + '.check_str'}:
                    return ('same_str', True)
                if pair == {FILE_OLD + '.check', D + '.check'}:
                    return ('same_obj', True)
                if pair == {'str(%s.check)' % FILE_OLD + '', None} - {None}:
                    pass
                for a, b in ((x.left, x.comparators[0]),
                             (x.comparators[0], x.left)):
                    if canon(U(a)) == 'str(%s.check)' % FILE_OLD:
                        if is_alias_text(b, NEW_NAME):
                            return ('alias', True)
                if pair == {FILE_OLD + '.check_str', D + '.check_str'}:
                    return ('same_obj', True)
            if isinstance(op, ast.In):
                cont = r[:-len('.keys()')] if r.endswith('.keys()') else r
                if cont == 'self.file_rules':
                    if l == OLD_NAME:
                        return ('old_in_file', True)
                    if l == NEW_NAME:
                        return ('new_in_file', True)
        # the alias test made on the parsed override instead of its printed
        # form: a `kind:match` check of kind `rule` whose match is the new
        # name (kinds hold no colon, so this is `str(check) == 'rule:<new>'`)
        OVR = FILE_OLD + '.check'
        if isinstance(x, ast.Call) and isinstance(x.func, ast.Name) and \
                x.func.id == 'isinstance' and len(x.args) == 2 and canon(
                    U(x.args[0])) == OVR and U(x.args[1]).split('.')[-1] in (
                        'Check', 'RuleCheck'):
            return ('alias#1', True)
        if isinstance(x, ast.Compare) and len(x.ops) == 1 and isinstance(
                x.ops[0], ast.Eq):
            l, r = canon(U(x.left)), canon(U(x.comparators[0]))
            if {l, r} == {OVR + '.kind', "'rule'"}:
                return ('alias#2', True)
            if {l, r} == {OVR + '.match', NEW_NAME}:
                return ('alias#3', True)
        txt = canon(U(x))
        if txt.endswith('.oslo_policy.enforce_new_defaults'):
            return ('enforce_new', True)
        if txt == FILE_OLD:
            return ('old_in_file', True)
        return None
    rec.canon = canon
    return rec


def is_alias_text(node, new_name):
    """'rule:%s' % default.name  /  'rule:' + default.name  /  f-string"""
    if isinstance(node, ast.BinOp) and isinstance(node.op, ast.Mod) and \
            is_const(node.left, 'rule:%s') and U(node.right) == new_name:
        return True
    if isinstance(node, ast.BinOp) and isinstance(node.op, ast.Add) and \
            is_const(node.left, 'rule:') and U(node.right) == new_name:
        return True
    if isinstance(node, ast.JoinedStr) and len(node.values) == 2 and \
            is_const(node.values[0], 'rule:') and isinstance(
                node.values[1], ast.FormattedValue) and U(
                    node.values[1].value) == new_name:
        return True
    if isinstance(node, ast.Call) and method_call(node, 'format') and \
            is_const(method_call(node)[0], 'rule:{}') and len(
                node.args) == 1 and U(node.args[0]) == new_name:
        return True
    return False


def check_table(ctx):
    prog = ctx.prog
    r = roles(ctx)
    f = r.deprecated
    dflt = f.params[1]
    from ..dte import inline_helpers
    t = Table(prog, f, inline=inline_helpers(
        prog, modules={POLICY}, exclude={r.load_rules.qual, r.loader.qual,
                                         POLICY + '.Enforcer.check_rules'}),
        max_depth=4)
    rec = make_recogniser(t, dflt)
    classes = G.check_classes(prog)
    W = ctx.where(f.module, f.node)
    F = W.split(':')[0]
    D = dflt + '.deprecated_rule'
    FILE_OLD = 'self.file_rules[%s.name]' % D

    def classify(p):
        if p.outcome.kind != 'return' or p.outcome.expr is None:
            return 'other:' + p.outcome.text()
        e = G.fold_builders(prog, t.module_of(p.outcome.frame),
                            t.expand(p.outcome.expr), classes)
        txt = rec.canon(U(e))
        if txt == FILE_OLD + '.check':
            return 'file-old'
        if txt == dflt + '.check':
            return 'new'
        if isinstance(e, ast.Call):
            cc = classes.get(prog.resolve(t.module_of(p.outcome.frame),
                                          e.func))
            if cc is not None and cc.sem == 'or' and len(e.args) == 1 and \
                    isinstance(e.args[0], (ast.List, ast.Tuple)):
                parts = sorted(U(x) for x in e.args[0].elts)
                if parts == sorted([dflt + '.check', D + '.check']):
                    return 'or'
            if cc is not None and cc.sem == 'and':
                return 'other:AND of the two defaults'
        return 'other:' + txt

    tries = {}
    for g in [f] + [x for x in prog.region(f).values() if x is not f
                    and x.module is f.module]:
        for n in ast.walk(g.node):
            if isinstance(n, ast.Try):
                tries[n.lineno] = (g, n)

    def exc_atom(c):
        """`try: x = self.file_rules[<old name>] / except KeyError` - the
        handler path means the old name has no file rule."""
        txt = str(getattr(c.expr, 'value', ''))
        if 'KeyError' not in txt or 'try@' not in txt:
            return None
        try:
            g, tr = tries[int(txt.rsplit('try@', 1)[1])]
        except (KeyError, ValueError):
            return None
        if len(tr.body) != 1:
            return None
        keys = [U(n.slice) for n in ast.walk(tr.body[0])
                if isinstance(n, ast.Subscript) and U(n.value) ==
                'self.file_rules']
        if len(keys) != 1 or any(isinstance(n, ast.Call)
                                 for n in ast.walk(tr.body[0])):
            return None
        k = keys[0]
        # a local alias of the deprecated rule / its name
        al = {}
        for n in ast.walk(g.node):
            if isinstance(n, ast.Assign) and len(n.targets) == 1 and \
                    isinstance(n.targets[0], ast.Name):
                al[n.targets[0].id] = U(n.value)
        head = k.split('.', 1)[0]
        if head in al:
            k = al[head] + k[len(head):]
        if k == D + '.name':
            return ('old_in_file', False)
        if k == dflt + '.name':
            return ('new_in_file', False)
        return None

    # per path: atom literals + unrecognised conditions
    rows = []
    for p in t.paths:
        lits = {}
        unknown = []
        consistent = True
        for c in p.conds:
            if c.kind == 'exc':
                a = exc_atom(c)
                if a is None:
                    unknown.append(c)
                    continue
                atom, v = a
                if atom in lits and lits[atom] != v:
                    consistent = False
                lits[atom] = v
                continue
            if c.kind != 'test':
                unknown.append(c)
                continue
            a = rec(c.expr)
            if a is None:
                unknown.append(c)
                continue
            atom, val_when_true = a
            v = val_when_true if c.pol else (not val_when_true)
            if atom == 'has_dep':
                # the handler is only called for a default that has one
                if not v:
                    consistent = False
                continue
            if atom == 'never':
                if v:
                    consistent = False
                continue
            if atom in lits and lits[atom] != v:
                consistent = False
            lits[atom] = v
        parts = [lits.pop('alias#%d' % i, None) for i in (1, 2, 3)]
        if any(x is not None for x in parts):
            if any(x is False for x in parts):
                v = False
            elif all(x is True for x in parts):
                v = True
            else:
                v = None
                unknown.append(p.conds[0])
            if v is not None:
                if 'alias' in lits and lits['alias'] != v:
                    consistent = False
                lits['alias'] = v
        if consistent:
            rows.append((lits, unknown, classify(p), p))
    nrows = 0
    bad = {}
    influential_unknown = {}
    for vals in itertools.product((True, False), repeat=len(ATOMS)):
        a = dict(zip(ATOMS, vals))
        # feasibility: the handler runs only when the new name has no file
        # override; an unrenamed old name in the file *is* the new name
        if a['new_in_file']:
            continue
        if not a['renamed'] and a['old_in_file']:
            continue
        if not a['old_in_file'] and (a['same_obj'] or a['alias']):
            continue        # atoms about a file rule that does not exist
        if a['same_obj'] and a['alias'] and False:
            continue
        nrows += 1
        outs = {}
        for lits, unknown, out, p in rows:
            if all(a[k] == v for k, v in lits.items()):
                outs.setdefault(out, []).append((p, unknown))
        if a['renamed'] and a['old_in_file'] and not a['alias']:
            want = {'file-old'}
            if a['same_obj']:
                want = {'file-old', 'or', 'new'}
                # ...but then only what the fall-through would give
                want = {'file-old'} | ({'or'} if (not a['enforce_new']
                                                   and not a['same_str'])
                                       else {'new'} | (
                    {'or'} if not a['enforce_new'] else set()))
        elif not a['enforce_new'] and not a['same_str']:
            want = {'or'}
        elif not a['enforce_new'] and a['same_str']:
            want = {'new', 'or'}
        else:
            want = {'new'}
        got = set(outs)
        if not got or not got <= want:
            wrong = sorted(got - want) or ['(no path)']
            p0, unk0 = outs[wrong[0]][0] if wrong[0] in outs else (None, [])
            for c in unk0:
                xe = t.expand(c.expr) if isinstance(c.expr, ast.AST) else None
                if xe is not None and any(
                        isinstance(n, ast.BinOp) and isinstance(
                            n.op, (ast.BitAnd, ast.BitOr, ast.BitXor))
                        for n in ast.walk(xe)):
                    raise AnalysisError(
                        'the deprecated-rule handler decides through a set '
                        'expression (`%s`): which of the documented '
                        'questions (old name overridden, new name '
                        'overridden) it asks is not read' % U(xe)[:80])
            key = (tuple(sorted(want)), tuple(wrong))
            bad.setdefault(key, dict(a, expected=sorted(want),
                                     got=sorted(got),
                                     path=p0.cond_text() if p0 else None,
                                     line=p0.outcome.line if p0
                                     else f.node.lineno))
        elif len(got) > 1 and not a['same_obj'] and not (
                not a['enforce_new'] and a['same_str']):
            # more than one outcome for a fully determined row: some
            # unrecognised condition influences the decision
            for o, lst in outs.items():
                for p, unk in lst:
                    for c in unk:
                        influential_unknown.setdefault(c.text(), (a, p))
    ctx.count(nrows, [('C11.TABLE', i) for i in range(nrows)])
    ctx.extra['table_rows'] = nrows
    for key, w in list(bad.items())[:6]:
        ctx.ob('C11.TABLE', False, '%s:%s' % (F, w['line']), f.qual,
               'row ' + ', '.join('%s=%s' % (k, w[k]) for k in ATOMS
                                  if k != 'new_in_file'),
               'the handler yields %s where the documented override table '
               'says %s' % (w['got'], w['expected']), witness=w)
    for txt, (a, p) in list(influential_unknown.items())[:3]:
        ctx.ob('C11.TABLE', False, '%s:%s' % (F, p.outcome.line), f.qual,
               'condition ' + txt,
               'the decision depends on a condition outside the documented '
               'table: %s' % txt, witness={'row': a})
    if not bad and not influential_unknown:
        ctx.ob('C11.TABLE', True, W, f.qual,
               'override table (%d paths, %d feasible rows)' % (
                   len(t.paths), nrows),
               'every feasible assignment of (renamed, old_in_file, '
               'same_obj, alias, enforce_new, same_str) gives the '
               'documented outcome; no other condition influences it')
    return f


def _handler_guards_plain(ctx, r):
    """The handler starts by answering `default.check` when there is no
    deprecated rule (so the merge may call it for every default)."""
    cache = ctx.__dict__.setdefault('_cache', {})
    if 'guards_plain' in cache:
        return cache['guards_plain']
    from ..dte import inline_helpers
    prog = ctx.prog
    f = r.deprecated
    dflt = f.params[1]
    t = Table(prog, f, inline=inline_helpers(
        prog, modules={POLICY}, exclude={r.load_rules.qual, r.loader.qual,
                                         POLICY + '.Enforcer.check_rules'}),
        max_depth=4)
    n = 0
    ok = True
    for p in t.paths:
        neg = [c for c in p.conds if c.kind == 'test' and not c.pol and U(
            t.expand(c.expr)) == dflt + '.deprecated_rule']
        if not neg:
            # every other path must have tested it positively first
            if not any(c.kind == 'test' and c.pol and U(t.expand(
                    c.expr)) == dflt + '.deprecated_rule' for c in p.conds):
                ok = False
            continue
        n += 1
        if p.outcome.kind != 'return' or p.outcome.expr is None or U(
                t.expand(p.outcome.expr)) != dflt + '.check':
            ok = False
    cache['guards_plain'] = ok and n > 0
    return cache['guards_plain']


def check_gate(ctx):
    prog = ctx.prog
    t = load_table(ctx)
    r = t.roles
    lr = r.load_rules
    F = ctx.where(lr.module, lr.node).split(':')[0]
    n_dep = n_plain = 0
    bad = None
    for p in t.paths:
        evs = [(classify_event(t, e), e) for e in p.events]
        for i, (k, e) in enumerate(evs):
            if k != 'MERGE':
                continue
            name = e.node.slice
            base = name.value if isinstance(name, ast.Attribute) else None
            if base is None:
                bad = bad or (e, 'stored under something other than '
                              'default.name')
                continue
            b = U(base)
            conds = p.conds[:e.nconds]
            dep_true = any(c.kind == 'test' and c.pol and U(c.expr) ==
                           b + '.deprecated_rule' for c in conds)
            dep_false = any(c.kind == 'test' and not c.pol and U(
                c.expr) == b + '.deprecated_rule' for c in conds)
            v = e.value
            vx = t.expand(v)
            from_handler = isinstance(vx, ast.Call) and prog.callee_of(
                r.load_body, vx) is r.deprecated and len(
                    vx.args) == 1 and U(
                    vx.args[0]) == b
            if dep_true:
                n_dep += 1
                if not from_handler:
                    bad = bad or (e, 'a default with a deprecated rule is '
                                  'stored without going through the '
                                  'deprecated-rule handler')
            elif dep_false:
                n_plain += 1
                if U(vx) != b + '.check':
                    bad = bad or (e, 'a plain default is not stored as its '
                                  'own check (%s)' % U(vx))
            elif from_handler and _handler_guards_plain(ctx, r):
                # the handler itself answers default.check for a default
                # without a deprecated rule
                n_dep += 1
                n_plain += 1
            else:
                bad = bad or (e, 'the merge does not distinguish defaults '
                              'with a deprecated rule')
    ctx.ob('C11.GATE', bad is None,
           '%s:%d' % (F, bad[0].line) if bad else ctx.where(lr.module,
                                                            lr.node),
           lr.qual, 'default merge (%d deprecated, %d plain paths)' % (
               n_dep, n_plain),
           'the handler\'s result is what is stored for a default with a '
           'deprecated rule, and only for names without a file override'
           if bad is None else bad[1])
    ctx.floor('C11.GATE', n_dep, 1, 'deprecated merges')
    ctx.floor('C11.GATE', n_plain, 1, 'plain merges')


def check_opt(ctx):
    prog = ctx.prog
    opt = prog.options().get('enforce_new_defaults')
    ok = opt is not None and opt['type'] == 'ext:oslo_config.cfg.BoolOpt' \
        and is_const(opt['default'], True)
    ctx.ob('C11.OPT', ok, ctx.where(prog.module(PKG + '.opts'),
                                    opt['node'] if opt else None),
           PKG + '.opts._options', 'option enforce_new_defaults',
           'boolean, default True' if ok else
           'option enforce_new_defaults is not a boolean defaulting to True')


def check(ctx):
    ctx.use(POLICY, CHECKS, PKG + '.opts')
    ctx.explain('C11: the complete branch structure of the deprecated-rule '
                'handler is extracted; its primitive conditions are mapped '
                'to seven atoms and every feasible assignment is compared '
                'with the documented override table; conditions outside the '
                'table must not influence the outcome.')
    ctx.assume('old_in_file is decided on the file-rule record; its '
               'maintenance is checked by the C10.PAIR / C10.RESET rules, '
               're-run here as C11.RECORD')
    check_table(ctx)
    check_gate(ctx)
    check_opt(ctx)
    from ..load_model import check_conf_source
    check_conf_source(ctx, 'C11.OPT(CONF-SRC)')
    check_record_wins(ctx, 'C11.RECORD')
    # C11.RECORD: the record of operator overrides the handler consults
    # (file_rules) is maintained together with the rule store (= C10.PAIR,
    # C10.RESET, reported here under C11's name)
    from . import c10
    nf, no = len(ctx.findings), len(ctx.obligations)
    c10.check_pair(ctx)
    c10.check_reapply_and_reset(ctx)
    for f in ctx.findings[nf:]:
        f.rule = 'C11.RECORD(' + f.rule + ')'
    for o in ctx.obligations[no:]:
        o['rule'] = 'C11.RECORD(' + o['rule'] + ')'

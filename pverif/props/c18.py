"""C18 - policy-file rewriting tools preserve every decision (structural
necessary conditions)."""
import ast

from .. import PKG
from ..dte import Table
from ..model import AnalysisError
from ..strshape import segments, merge, Lit, Hole, Join, Unknown
from ..util import (U, is_const, method_call, kwarg, walk_no_nested,
                    parent_map)

GEN = PKG + '.generator'
POLICY = PKG + '.policy'

DECODERS = ('jsonutils.loads', 'json.loads', 'yaml.safe_load', 'yaml.load',
            'parse_file_contents', 'jsonutils.load')
SERIALIZERS = ('jsonutils.dumps', 'json.dumps', 'yaml.safe_dump',
               'yaml.dump')
RULE_CLASSES = (POLICY + '.RuleDefault', POLICY + '.DocumentedRuleDefault')


class OpTaint:
    """Which names hold values read from an operator's policy file.

    kinds: MAP (the parsed mapping), VAL (a rule value), OBJ (a RuleDefault
    whose check_str is such a value), COLL (collection of OBJ)."""

    def __init__(self, prog, funcs):
        self.prog = prog
        self.funcs = funcs
        self.params = {f.qual: {} for f in funcs}
        self.local = {}
        self.ret = {f.qual: None for f in funcs}

    def kind(self, f, e, env):
        prog = self.prog
        if e is None:
            return None
        if isinstance(e, ast.Name):
            return env.get(e.id)
        if isinstance(e, ast.Call):
            r = prog.resolve(f.module, e.func) or ''
            if r.endswith(DECODERS):
                return 'MAP'
            if r.endswith(SERIALIZERS):
                return None
            if r in RULE_CLASSES:
                cs = kwarg(e, 'check_str', 1)
                return 'OBJ' if self.kind(f, cs, env) == 'VAL' else None
            g = prog.callee_of(f, e)
            if g is not None and g.qual in self.ret and self.ret[g.qual]:
                return self.ret[g.qual]
            mc = method_call(e)
            if mc:
                k = self.kind(f, mc[0], env)
                if k == 'MAP' and mc[1] in ('pop', 'get', '__getitem__'):
                    return 'VAL'
                if k == 'MAP' and mc[1] in ('items', 'values', 'copy',
                                            'keys'):
                    return 'MAP:' + mc[1] if mc[1] != 'copy' else 'MAP'
            if isinstance(e.func, ast.Name) and e.func.id in (
                    'dict', 'list', 'sorted') and e.args:
                return self.kind(f, e.args[0], env)
            return None
        if isinstance(e, ast.Attribute):
            if e.attr == 'file_rules':
                return 'OBJMAP'
            k = self.kind(f, e.value, env)
            if k == 'OBJ' and e.attr == 'check_str':
                return 'VAL'
            if k == 'OBJ' and e.attr == 'name':
                return 'KEY'    # the rule object of a file entry carries
                                # the name as the file spells it
            if k == 'OBJ' and e.attr == 'check':
                return None
            return None
        if isinstance(e, ast.Subscript):
            k = self.kind(f, e.value, env)
            if k == 'MAP':
                return 'VAL'
            if k == 'OBJMAP':
                return 'OBJ'
            if k == 'COLL':
                return 'OBJ'
            return None
        if isinstance(e, ast.BinOp) and isinstance(e.op, ast.Add):
            ks = {self.kind(f, e.left, env), self.kind(f, e.right, env)}
            return 'COLL' if 'COLL' in ks else None
        if isinstance(e, (ast.ListComp, ast.GeneratorExp)):
            env2 = dict(env)
            for g in e.generators:
                self.bind_iter(f, g.target, g.iter, env2)
            k = self.kind(f, e.elt, env2)
            return 'COLL' if k == 'OBJ' else None
        if isinstance(e, ast.Dict):
            ks = {self.kind(f, v, env) for v in e.values}
            return 'COLLMAP' if 'COLL' in ks else None
        if isinstance(e, (ast.List, ast.Tuple)):
            ks = {self.kind(f, v, env) for v in e.elts}
            return 'COLL' if 'OBJ' in ks else None
        return None

    def bind_iter(self, f, target, it, env):
        k = self.kind(f, it, env)
        mc = method_call(it) if isinstance(it, ast.Call) else None
        if k in ('MAP:items',) and isinstance(target, ast.Tuple) and len(
                target.elts) == 2:
            env[U(target.elts[1])] = 'VAL'
            env[U(target.elts[0])] = 'KEY'
        elif k in ('MAP', 'MAP:keys') and isinstance(target, ast.Name):
            env[target.id] = 'KEY'      # a policy name as the file spells it
        elif k == 'MAP:values' and isinstance(target, ast.Name):
            env[target.id] = 'VAL'
        elif mc and mc[1] == 'items' and self.kind(
                f, mc[0], env) == 'OBJMAP' and isinstance(
                    target, ast.Tuple) and len(target.elts) == 2:
            env[U(target.elts[1])] = 'OBJ'
            env[U(target.elts[0])] = 'KEY'
        elif mc and mc[1] == 'values' and self.kind(
                f, mc[0], env) == 'OBJMAP' and isinstance(target, ast.Name):
            env[target.id] = 'OBJ'
        elif k == 'COLL' and isinstance(target, ast.Name):
            env[target.id] = 'OBJ'
        elif k == 'COLLMAP':
            pass
        elif isinstance(it, ast.Subscript) and self.kind(
                f, it.value, env) == 'COLLMAP' and isinstance(
                    target, ast.Name):
            env[target.id] = 'OBJ'

    def analyse(self, f):
        env = dict(self.params[f.qual])
        for _ in range(6):
            before = dict(env)
            for n in walk_no_nested(f.node):
                if isinstance(n, ast.Assign) and len(n.targets) == 1:
                    k = self.kind(f, n.value, env)
                    if k and isinstance(n.targets[0], ast.Name):
                        env[n.targets[0].id] = k
                elif isinstance(n, ast.For):
                    self.bind_iter(f, n.target, n.iter, env)
                    # for x in policies[section]  (dict of collections)
                    if isinstance(n.iter, ast.Name) and env.get(
                            n.iter.id) == 'COLL' and isinstance(
                                n.target, ast.Name):
                        env[n.target.id] = 'OBJ'
            # values picked out of a COLLMAP by subscription
            for n in walk_no_nested(f.node):
                if isinstance(n, ast.Assign) and isinstance(
                        n.value, ast.Subscript) and self.kind(
                            f, n.value.value, env) == 'COLLMAP' and \
                        isinstance(n.targets[0], ast.Name):
                    env[n.targets[0].id] = 'COLL'
            if env == before:
                break
        self.local[f.qual] = env
        return env

    def site_feasible(self, f, node):
        """Is a call site in f reachable under at least one of the constant
        contexts with which tainted values enter f?  Only guards of the form
        `param == const` / `param != const` are interpreted."""
        ctxs = self.ctxs.get(f.qual)
        if not ctxs:
            return True
        pm = parent_map(f.node)
        guards = []
        cur, anc = node, pm.get(node)
        while anc is not None:
            if isinstance(anc, ast.If):
                in_body = any(cur is b for b in anc.body)
                in_else = any(cur is b for b in anc.orelse)
                t = anc.test
                neg = False
                while isinstance(t, ast.UnaryOp) and isinstance(t.op,
                                                                ast.Not):
                    t = t.operand
                    neg = not neg
                if isinstance(t, ast.Compare) and len(t.ops) == 1 and \
                        isinstance(t.ops[0], (ast.Eq, ast.NotEq)) and (
                            in_body or in_else):
                    a, b = t.left, t.comparators[0]
                    if isinstance(b, ast.Name) and isinstance(
                            a, ast.Constant):
                        a, b = b, a
                    if isinstance(a, ast.Name) and isinstance(
                            b, ast.Constant):
                        eq = isinstance(t.ops[0], ast.Eq) != neg
                        guards.append((a.id, b.value, eq == in_body))
            cur, anc = anc, pm.get(anc)
        for c in ctxs:
            ok = True
            for name, val, must_equal in guards:
                if name in c and (c[name] == val) != must_equal:
                    ok = False
            if ok:
                return True
        return False

    def run(self):
        self.ctxs = {}
        work = list(self.funcs)
        rounds = 0
        while work and rounds < 200:
            rounds += 1
            f = work.pop(0)
            env = self.analyse(f)
            for n in walk_no_nested(f.node):
                if isinstance(n, ast.Call):
                    g = self.prog.callee_of(f, n)
                    if g is None or g.qual not in self.params:
                        continue
                    if not self.site_feasible(f, n):
                        continue
                    bound = list(zip(g.params, n.args)) + [
                        (k.arg, k.value) for k in n.keywords if k.arg]
                    tainted = False
                    for pn, a in bound:
                        k = self.kind(f, a, env)
                        if k:
                            tainted = True
                        if k and self.params[g.qual].get(pn) != k:
                            self.params[g.qual][pn] = k
                            if g not in work:
                                work.append(g)
                    if tainted:
                        consts = {}
                        for pn, d in g.defaults().items():
                            if isinstance(d, ast.Constant):
                                consts[pn] = d.value
                        for pn, a in bound:
                            if isinstance(a, ast.Constant):
                                consts[pn] = a.value
                            else:
                                # forwarded own parameter with known const
                                own = None
                                if isinstance(a, ast.Name):
                                    vals = {c.get(a.id, '?') for c in
                                            self.ctxs.get(f.qual, [])}
                                    if len(vals) == 1 and '?' not in vals:
                                        own = vals.pop()
                                if own is not None:
                                    consts[pn] = own
                                else:
                                    consts.pop(pn, None)
                        lst = self.ctxs.setdefault(g.qual, [])
                        if consts not in lst:
                            lst.append(consts)
                            if g not in work:
                                work.append(g)


_RAW_CACHE = {}


def raw_output_text(prog, f):
    """Literal text that can reach what f returns / writes / collects
    without passing through the comment formatter (per function, over all
    its paths, helpers of the module inlined)."""
    if f.qual in _RAW_CACHE and _RAW_CACHE[f.qual][0] is prog:
        return _RAW_CACHE[f.qual][1]
    from ..dte import inline_helpers
    san = GEN + '._format_help_text'
    try:
        t = Table(prog, f, inline=inline_helpers(
            prog, modules={GEN}, classes=False, exclude={san}),
            handler_paths=False, max_depth=3, max_paths=20000)
    except AnalysisError:
        _RAW_CACHE[f.qual] = (prog, None)
        return None
    en = t.en

    def hook(e):
        if isinstance(e, ast.Name) and e.id in en.defs and isinstance(
                en.defs[e.id], ast.AST):
            return segments(en.defs[e.id], hook)
        if isinstance(e, ast.Call) and prog.resolve(f.module, e.func) == san:
            return [Hole('comment', 'SANITIZED', e)]
        return None
    texts = set()

    def add(expr):
        try:
            segs = merge(segments(expr, hook))
        except Unknown:
            return

        def flat(sg):
            out = []
            for x in sg:
                if isinstance(x, Lit):
                    out.append(x.text)
                elif isinstance(x, Join):
                    out.append('\x01' + flat(x.sep) + '\x01')
                    if x.elem is not None:
                        out.append(flat(x.elem))
                    out.append('\x01')
                else:
                    out.append('\x01')
            return ''.join(out)
        texts.add(flat(segs))
    for p in t.paths:
        if p.outcome.kind == 'return' and p.outcome.expr is not None:
            add(p.outcome.expr)
        for ev in p.events:
            if ev.kind == 'yield':
                add(ev.node)
            elif ev.kind == 'call':
                mc = method_call(ev.node)
                if (mc and mc[1] in ('append', 'write', 'writelines',
                                     'extend')) or U(ev.node.func) == 'print':
                    for a in ev.node.args:
                        add(a)
    out = '\x00'.join(sorted(texts))
    _RAW_CACHE[f.qual] = (prog, out)
    return out


def only_commented(prog, f, expr):
    """Does the text of this template reach the output of f only through
    the help-text (comment) formatter?  Decided by its literal fragments:
    none of them occurs in what f returns / writes unsanitised."""
    try:
        segs = merge(segments(expr))
    except Unknown:
        return False
    frags = [x.text for x in segs if isinstance(x, Lit) and x.text.strip()]
    if not frags or max(len(x) for x in frags) < 4:
        return False
    raw = raw_output_text(prog, f)
    if raw is None:
        return False
    # the template reaches an output raw when all its literal pieces occur
    # there in order
    import re
    pat = '.*?'.join(re.escape(x) for x in frags)
    return not any(re.search(pat, txt, re.S) for txt in raw.split('\x00'))


def quoted_holes(f, prog=None):
    """[(node, hole)] holes written between literal double quotes."""
    out = []
    for n in walk_no_nested(f.node):
        expr = None
        if isinstance(n, ast.BinOp) and isinstance(n.op, ast.Mod) and \
                isinstance(n.left, ast.Constant) and isinstance(
                    n.left.value, str):
            expr = n
        elif isinstance(n, ast.JoinedStr):
            expr = n
        elif isinstance(n, ast.Call) and method_call(n, 'format') and \
                isinstance(method_call(n)[0], ast.Constant):
            expr = n
        if expr is None:
            continue
        if prog is not None and only_commented(prog, f, expr):
            continue
        try:
            segs = merge(segments(expr))
        except Unknown:
            continue
        for i, s in enumerate(segs):
            if isinstance(s, Hole) and 0 < i < len(segs) - 1 and \
                    isinstance(segs[i - 1], Lit) and isinstance(
                        segs[i + 1], Lit) and segs[i - 1].text.endswith(
                            '"') and segs[i + 1].text.startswith('"'):
                # rule *values* (the hole after `": "`) and names (the
                # hole before `":`)
                if segs[i - 1].text.endswith(': "') or segs[
                        i - 1].text.endswith(':"'):
                    out.append((expr, s))
                elif segs[i + 1].text.startswith('":'):
                    s.is_name = True
                    out.append((expr, s))
    return out


def _named_template(f, n):
    """TEMPLATE % args / TEMPLATE.format(..) with the template kept in a
    module-level constant: the same expression with the text in place"""
    import copy
    def text_of(x):
        if isinstance(x, ast.Name):
            v = f.module.assigns.get(x.id)
            if isinstance(v, ast.Constant) and isinstance(v.value, str):
                return v
        return None
    if isinstance(n, ast.BinOp) and isinstance(n.op, ast.Mod):
        v = text_of(n.left)
        if v is not None:
            m = copy.copy(n)
            m.left = ast.copy_location(ast.Constant(value=v.value), n.left)
            return m
    return None


def string_builders(f):
    for n in walk_no_nested(f.node):
        if isinstance(n, ast.BinOp) and isinstance(n.op, ast.Mod) and \
                isinstance(n.left, ast.Constant) and isinstance(
                    n.left.value, str):
            yield n
        elif _named_template(f, n) is not None:
            yield _named_template(f, n)
        elif isinstance(n, ast.JoinedStr):
            yield n
        elif isinstance(n, ast.Call) and method_call(n, 'format') and \
                isinstance(method_call(n)[0], ast.Constant):
            yield n


def rule_line_templates(f):
    """[(expr, value hole)] for templates of the shape
    `"` <name> `": ` <value> ...  (a rule line of a policy file)."""
    out = []
    for x in string_builders(f):
        try:
            segs = merge(segments(x))
        except Unknown:
            continue
        if len(segs) >= 4 and isinstance(segs[0], Lit) and \
                segs[0].text == '"' and isinstance(segs[1], Hole) and \
                isinstance(segs[2], Lit) and segs[2].text.startswith(
                    '":') and isinstance(segs[3], Hole):
            out.append((x, segs[2], segs[3]))
        elif len(segs) >= 3 and isinstance(segs[0], Hole) and isinstance(
                segs[0].node, ast.Call) and isinstance(
                    segs[1], Lit) and segs[1].text.strip() == ':' and \
                isinstance(segs[2], Hole):
            # <name as a serialised scalar>: <value>
            out.append((x, segs[1], segs[2]))
    return out


def check_quoted_hole(ctx):
    prog = ctx.prog
    mod = prog.module(GEN)
    funcs = list(mod.functions.values())
    tn = OpTaint(prog, funcs)
    tn.run()
    n = 0
    for f in funcs:
        env = tn.local.get(f.qual, {})
        for expr, hole in quoted_holes(f, prog):
            n += 1
            k = tn.kind(f, hole.node, env) if hole.node is not None \
                else None
            # a loop variable is what its own loop binds it to (the same
            # name may hold something else elsewhere in the function)
            if isinstance(hole.node, ast.Name):
                pm = parent_map(f.node)
                anc = pm.get(expr)
                while anc is not None:
                    if isinstance(anc, ast.For) and any(
                            isinstance(x, ast.Name) and x.id == hole.node.id
                            for x in ast.walk(anc.target)):
                        env2 = dict(env)
                        env2.pop(hole.node.id, None)
                        tn.bind_iter(f, anc.target, anc.iter, env2)
                        k = env2.get(hole.node.id)
                        break
                    anc = pm.get(anc)
            # comment lines may show anything
            if getattr(hole, 'is_name', False) and k != 'KEY':
                n -= 1
                continue        # a registered name (the quantifier's alphabet)
            ok = k not in ('VAL', 'KEY')
            ctx.ob('C18.QUOTED-HOLE', ok, ctx.where(f.module, expr), f.qual,
                   'value `%s` between double quotes' % hole.source,
                   'comes from registered defaults (free of quotes and '
                   'backslashes by the quantifier) or is serialised' if ok
                   else ('a policy name read from the operator\'s policy '
                         'file is pasted between double quotes: YAML reads '
                         'a backslash in it as an escape (`a\\b` becomes a '
                         'different name, so references to it turn '
                         'undefined) and a `"` yields an unloadable file'
                         if k == 'KEY' else
                         'a rule value read from the operator\'s policy file '
                         '(a string with arbitrary characters or a '
                         'list-of-lists rule) is pasted between double '
                         'quotes: a list is rewritten to the string of its '
                         'repr (= `!`), a value containing `"` yields an '
                         'unloadable file'))
    # rule lines written by templates: the value must be serialised or
    # quoted; count the rule-line templates so the rule is not vacuous
    rule_lines = sum(1 for f in funcs for _x in rule_line_templates(f))
    ctx.floor('C18.QUOTED-HOLE', rule_lines, 1, 'rule-line templates')
    if not any(o['rule'] == 'C18.QUOTED-HOLE' for o in ctx.obligations):
        ctx.ob('C18.QUOTED-HOLE', True, ctx.where(mod, mod.tree), GEN,
               '%d rule-line templates' % rule_lines,
               'no rule value is pasted between literal double quotes')
    ctx.extra['tainted_params'] = {q: v for q, v in tn.params.items() if v}


def check_serialized(ctx):
    """A rule value written through a serializer is written unchanged."""
    prog = ctx.prog
    mod = prog.module(GEN)
    n = 0
    for f in mod.functions.values():
        for x, sep, hole in rule_line_templates(f):
            if sep.text.rstrip().endswith('"'):
                continue            # quoted form: C18.QUOTED-HOLE
            val = hole.node
            if val is None or not isinstance(val, ast.Call):
                continue
            n += 1
            call = val
            g = prog.callee_of(f, call)
            ok, detail = True, 'written as the JSON form of the value itself'
            arg = call.args[0] if call.args else None
            if g is not None:
                def inert(b):
                    if isinstance(b, ast.Expr) and isinstance(
                            b.value, ast.Constant):
                        return True
                    if isinstance(b, ast.Expr) and isinstance(
                            b.value, ast.Call) and U(
                                b.value.func).split('.')[0] in (
                                    'LOG', 'logging', 'warnings'):
                        return True
                    return False
                body = [b for b in g.node.body if not inert(b)]
                # straight-line locals bound once are read through
                local = {}
                while len(body) > 1 and isinstance(
                        body[0], ast.Assign) and len(
                            body[0].targets) == 1 and isinstance(
                                body[0].targets[0], ast.Name) and \
                        body[0].targets[0].id not in local:
                    local[body[0].targets[0].id] = body[0].value
                    body = body[1:]
                ret = body[0].value if len(body) == 1 and isinstance(
                    body[0], ast.Return) else None

                def thru(x):
                    return local[x.id] if isinstance(
                        x, ast.Name) and x.id in local else x
                ret = thru(ret)
                # ... possibly re-spelled character by character (escapes
                # for what is not printable ASCII) on the way out
                respell_bad = None
                if isinstance(ret, ast.Call) and len(ret.args) == 1 and \
                        not ret.keywords:
                    h = prog.callee_of(g, ret)
                    if h is not None:
                        from ..respell import respelling, json_alphabet
                        r = respelling(prog, h, json_alphabet(
                            thru(ret.args[0])))
                        if r is None:
                            raise AnalysisError(
                                'the rule value is written through %s, '
                                'which is not one of the per-character '
                                're-spelling forms read (respell.py): '
                                'whether the file still holds the value is '
                                'not decided' % h.qual)
                        if r[0] == 'bad':
                            respell_bad = (h, r[1])
                        ret = thru(ret.args[0])
                if respell_bad is not None:
                    ok = False
                    detail = 'the value is re-spelled by %s before it is ' \
                        'written, and %s' % (respell_bad[0].name,
                                             respell_bad[1])
                    ctx.ob('C18.SERIALIZED', ok, ctx.where(f.module, x),
                           f.qual, 'rule value ' + U(val)[:60], detail)
                    continue
                if not (isinstance(ret, ast.Call)
                        and (prog.resolve(g.module, ret.func)
                             or '').endswith(SERIALIZERS)
                        and len(ret.args) == 1
                        and U(ret.args[0]) == g.params[0]
                        and not any(k.arg in ('indent', 'separators',
                                              'default', 'cls')
                                    for k in ret.keywords)):
                    ok = False
                    detail = 'the helper %s does more than serialise its ' \
                        'argument: the rule value written to the file is ' \
                        'not the value the operator had' % g.name
            elif not (prog.resolve(f.module, call.func) or '').endswith(
                    SERIALIZERS):
                ok = False
                detail = 'the rule value goes through %s, which is not a ' \
                    'serializer' % U(call.func)
            if ok and not isinstance(arg, (ast.Name, ast.Attribute)):
                ok = False
                detail = 'the serialised expression %s is not the rule ' \
                    'value itself' % (U(arg) if arg is not None else None)
            ctx.ob('C18.SERIALIZED', ok, ctx.where(f.module, x), f.qual,
                   'rule value ' + U(val)[:60], detail)
    ctx.floor('C18.SERIALIZED', n, 1, 'serialised rule values')


def check_pop_guard(ctx):
    prog = ctx.prog
    mod = prog.module(GEN)
    n = 0
    for f in mod.functions.values():
        pops = [c for c in walk_no_nested(f.node) if isinstance(c, ast.Call)
                and method_call(c, 'pop') and len(c.args) == 1
                and not c.keywords and not isinstance(
                    c.args[0], ast.Constant)]
        if not pops:
            continue
        t = Table(prog, f)
        for pc in pops:
            n += 1
            dtext = dname = U(method_call(pc)[0])
            ktext = U(pc.args[0])
            guarded_all = True
            seen_ev = False
            bad_path = None
            # ... or a missing key is what the enclosing try expects
            from .c14 import covering_handlers, catches
            in_keyerror_try = any(
                catches(names, 'builtin:KeyError') and not any(
                    isinstance(x, ast.Raise) for x in ast.walk(h))
                for h, names in covering_handlers(
                    prog, f, parent_map(f.node), pc))
            for p in t.paths:
                for e in p.events:
                    if e.kind == 'call' and e.line == pc.lineno and \
                            method_call(e.node, 'pop') and len(
                                e.node.args) == 1:
                        seen_ev = True
                        kx = U(e.node.args[0])
                        dtext = U(method_call(e.node)[0])
                        g = any(
                            c.kind == 'test' and c.pol and isinstance(
                                c.expr, ast.Compare) and isinstance(
                                    c.expr.ops[0], ast.In) and U(
                                        c.expr.left) == kx and U(
                                            c.expr.comparators[0]) in (
                                                dtext, dtext + '.keys()')
                            for c in p.conds[:e.nconds])
                        if not g and not in_keyerror_try:
                            guarded_all = False
                            bad_path = p
            if not seen_ev:
                continue
            ctx.ob('C18.POP-GUARD', guarded_all, ctx.where(f.module, pc),
                   f.qual, U(pc)[:80],
                   'the key is known to be in this very dict when it is '
                   'popped' if guarded_all else
                   '%s.pop(%s) has no default and is not guarded by a '
                   'membership test in %s itself (a snapshot of the keys '
                   'does not count): when two policies share the popped '
                   'name the second pop raises KeyError' % (dname, ktext,
                                                            dname))
    ctx.extra['pop_sites'] = n


def check_keep_override(ctx):
    from ..dte import inline_helpers
    prog = ctx.prog
    f = prog.func(GEN + '._convert_policy_json_to_yaml')
    fmt = prog.func(GEN + '._format_rule_default_yaml')
    san = GEN + '._format_help_text'
    t = Table(prog, f, inline=inline_helpers(
        prog, modules={GEN}, classes=False, exclude={fmt.qual, san}),
        max_depth=4)
    W = ctx.where(f.module, f.node)
    n_eq = n_ne = 0
    bad = None

    def is_equality(x):
        x = t.expand(x)
        return isinstance(x, ast.Compare) and len(x.ops) == 1 and \
            isinstance(x.ops[0], ast.Eq) and 'SYM_e' in U(x)
    for p in t.paths:
        for e in p.events:
            if e.kind != 'call' or prog.callee_of(
                    prog.functions.get(e.frame, f), e.node) is not fmt:
                continue
            cr = kwarg(e.node, 'comment_rule', 2)
            if cr is not None and is_equality(cr):
                # comment_rule=(file rule == default): both cases at once
                n_eq += 1
                n_ne += 1
                continue
            eq = [c for c in p.conds[:e.nconds] if c.kind == 'test'
                  and is_equality(c.expr)]
            # the comparison of the two rules themselves decides, not a
            # later comparison of some of their attributes
            whole = [c for c in eq if not any(
                isinstance(s_, ast.Attribute) or (
                    isinstance(s_, ast.Call) and U(s_.func) in ('str',
                                                                'repr'))
                for s_ in (c.expr.left, c.expr.comparators[0]))]
            if whole:
                eq = whole
            if not eq:
                bad = bad or (e, 'the formatter is called without comparing '
                              'the file rule with the default')
                continue
            if eq[-1].pol:
                n_eq += 1
                if cr is not None and not is_const(t.expand(cr), True):
                    bad = bad or (e, 'a rule equal to its default is not '
                                  'commented out')
            else:
                n_ne += 1
                if not (cr is not None and is_const(t.expand(cr), False)):
                    bad = bad or (e, 'an overridden rule (different from '
                                  'its default) is rendered commented out: '
                                  'the override is lost')
    ctx.ob('C18.KEEP-OVERRIDE', bad is None and n_ne > 0,
           ctx.where(f.module, bad[0].raw) if bad and bad[0].raw is not None
           and hasattr(bad[0].raw, 'lineno') else W, f.qual,
           'convert: equal -> commented (%d paths), different -> kept (%d '
           'paths)' % (n_eq, n_ne),
           'overrides stay effective in the converted file' if bad is None
           and n_ne else (bad[1] if bad else 'the converter never renders '
                          'an overridden rule uncommented'))
    # extra rules (not among the defaults) are emitted uncommented: on a
    # path with such a rule a plain `"name": value` line is collected
    ok = False
    for p in t.paths:
        for e in p.events:
            if e.kind != 'call' or not e.node.args or not (
                    method_call(e.node, 'append')
                    or method_call(e.node, 'extend')):
                continue
            a0 = t.expand(e.node.args[0])
            elem_names = ()
            if method_call(e.node, 'extend'):
                # lines.extend(<line> for name, value in <file dict>.items())
                if not (isinstance(a0, (ast.GeneratorExp, ast.ListComp))
                        and len(a0.generators) == 1
                        and not a0.generators[0].ifs):
                    continue
                elem_names = {x.id for x in ast.walk(a0.generators[0].target)
                              if isinstance(x, ast.Name)}
                a0 = a0.elt
            try:
                segs = merge(segments(a0))
            except Unknown:
                continue
            def of_elem(x):
                return isinstance(x, Hole) and ('SYM_e' in x.source or any(
                    nm in x.source for nm in elem_names))
            if len(segs) >= 3 and ((isinstance(segs[0], Lit) and not
                                    segs[0].text.lstrip().startswith('#'))
                                   or of_elem(segs[0])) and isinstance(
                        segs[-1], Lit) and segs[-1].text.endswith('\n') \
                    and any(isinstance(x, Hole) and (
                        'SYM_e' in x.source or any(
                            nm in x.source for nm in elem_names))
                        for x in segs):
                ok = True
    ctx.ob('C18.KEEP-OVERRIDE', ok, W, f.qual,
           'rules absent from the defaults',
           'are written out uncommented' if ok else
           'rules of the file that are not among the defaults are dropped '
           'or commented out')


def _names_of(e):
    """text of a mapping behind set()/frozenset()/list()/tuple()/sorted()
    wrappers and .keys()"""
    while True:
        if isinstance(e, ast.Call) and isinstance(e.func, ast.Name) and \
                e.func.id in ('set', 'frozenset', 'list', 'tuple',
                              'sorted') and len(e.args) == 1:
            e = e.args[0]
        elif isinstance(e, ast.Call) and method_call(e, 'keys') and \
                not e.args:
            e = method_call(e)[0]
        else:
            return U(e)


def _dict_merge_form(prog, t, en, emitted):
    """effective = dict(E.file_rules); for n, d in E.registered_rules
    .items(): effective.setdefault(n, d); output <- effective.items()"""
    def copy_of_file_rules(d):
        if isinstance(d, ast.Call):
            if isinstance(d.func, ast.Name) and d.func.id == 'dict' and \
                    len(d.args) == 1 and not d.keywords:
                return U(en.expand(d.args[0])).endswith('.file_rules')
            mc = method_call(d, 'copy')
            if mc and not d.args:
                return U(en.expand(mc[0])).endswith('.file_rules')
        if isinstance(d, ast.Dict) and len(d.keys) == 1 and \
                d.keys[0] is None:
            return U(en.expand(d.values[0])).endswith('.file_rules')
        return False
    merged = [s_ for s_, d in en.defs.items() if isinstance(d, ast.AST)
              and copy_of_file_rules(d)]
    if len(merged) != 1:
        return False
    E = merged[0]
    seen_fill = seen_emit = False
    fill_stores = set()
    for p in t.paths:
        if p.outcome.kind == 'raise':
            continue
        loops = []
        for c in p.conds:
            if c.kind != 'loop' or not c.pol:
                continue
            sym = [s_ for s_, d in en.defs.items() if isinstance(
                d, tuple) and d and d[0] == 'elem' and d[1] is c.expr]
            loops.append((U(en.expand(c.expr)), U(c.expr),
                          sym[0] if sym else None))
        for itx, raw, sym in loops:
            if sym is None:
                continue
            if itx.endswith('.registered_rules.items()'):
                fill = any(
                    e.kind == 'call' and method_call(e.node, 'setdefault')
                    and U(method_call(e.node)[0]) == E and len(
                        e.node.args) == 2 and U(e.node.args[0]) ==
                    '%s[0]' % sym and U(e.node.args[1]) == '%s[1]' % sym
                    for e in p.events)
                # the same thing spelled `if name not in E: E[name] = d`
                guarded = [e for e in p.events if e.kind == 'store'
                           and isinstance(e.node, ast.Subscript)
                           and U(e.node.value) == E and U(
                               e.node.slice) == '%s[0]' % sym and U(
                                   e.value) == '%s[1]' % sym and any(
                               c.kind == 'test' and isinstance(
                                   c.expr, ast.Compare) and isinstance(
                                       c.expr.ops[0], (ast.In, ast.NotIn))
                               and U(c.expr.left) == '%s[0]' % sym and U(
                                   c.expr.comparators[0]) == E and (
                                       c.pol == isinstance(c.expr.ops[0],
                                                           ast.NotIn))
                               for c in p.conds[:e.nconds])]
                skipped = any(
                    c.kind == 'test' and isinstance(
                        c.expr, ast.Compare) and isinstance(
                            c.expr.ops[0], (ast.In, ast.NotIn)) and U(
                                c.expr.left) == '%s[0]' % sym and U(
                                    c.expr.comparators[0]) == E and (
                                        c.pol == isinstance(c.expr.ops[0],
                                                            ast.In))
                    for c in p.conds)
                fill_stores |= {id(e) for e in guarded}
                if not fill and not guarded and not skipped:
                    return False
                seen_fill = True
            elif raw == '%s.items()' % E:
                if not emitted(p, sym):
                    return False
                seen_emit = True
        # nothing else may change the merged dict
        for e in p.events:
            if e.kind == 'store' and isinstance(e.node, ast.Subscript) \
                    and U(e.node.value) == E and id(e) not in fill_stores:
                return False
            if e.kind == 'call':
                mc = method_call(e.node)
                if mc and U(mc[0]) == E and mc[1] in (
                        'update', 'pop', 'clear', 'popitem'):
                    return False
    return seen_fill and seen_emit


def check_merge(ctx):
    """The effective policy: every file rule, plus the registered defaults
    of the names no file defines - read off the generator's paths."""
    from ..dte import inline_helpers
    prog = ctx.prog
    f = prog.func(GEN + '._generate_policy')
    W = ctx.where(f.module, f.node)
    sec = prog.func(GEN + '._sort_and_format_by_section')
    t = Table(prog, f, inline=inline_helpers(
        prog, modules={GEN}, classes=False,
        exclude={sec.qual, GEN + '._get_enforcer'}), comps=True,
        handler_paths=False, max_depth=4, max_paths=100000)
    en = t.en

    def loops_over(p, attr):
        """[(cond, elem symbol)] of loops over <enforcer>.<attr>.items()"""
        out = []
        for c in p.conds:
            if c.kind != 'loop':
                continue
            it = en.expand(c.expr)
            mc = method_call(it, 'items') if isinstance(it, ast.Call) \
                else None
            if mc and U(mc[0]).endswith('.' + attr):
                sym = [s_ for s_, d in en.defs.items() if isinstance(
                    d, tuple) and d and d[0] == 'elem' and d[1] is c.expr]
                out.append((c, sym[0] if sym else None))
        return out

    def emitted(p, sym):
        """is RuleDefault(<elem name>, <elem rule>.check_str) collected?"""
        for e in p.events:
            if e.kind == 'call' and method_call(e.node, 'append') and \
                    e.node.args:
                a0 = en.expand(e.node.args[0])
                if isinstance(a0, ast.Call) and prog.resolve(
                        t.module_of(e.frame), a0.func) in RULE_CLASSES and \
                        len(a0.args) >= 2 and U(a0.args[0]) == \
                        '%s[0]' % sym and U(a0.args[1]) == \
                        '%s[1].check_str' % sym:
                    return True
        return False

    n_file = n_reg = 0
    bad_f = bad_r = None
    for p in t.paths:
        if p.outcome.kind == 'raise':
            continue
        for c, sym in loops_over(p, 'file_rules'):
            if not c.pol or sym is None:
                continue
            n_file += 1
            if not emitted(p, sym) and bad_f is None:
                bad_f = p
        for c, sym in loops_over(p, 'registered_rules'):
            if not c.pol or sym is None:
                continue
            n_reg += 1
            infile = None
            for cd in p.conds:
                x = cd.expr
                if cd.kind == 'test' and isinstance(x, ast.Compare) and \
                        isinstance(x.ops[0], ast.In) and U(x.left) in (
                            '%s[0]' % sym, '%s.name' % sym) and _names_of(
                                en.expand(
                            x.comparators[0])).endswith('.file_rules'):
                    infile = cd.pol
            em = emitted(p, sym)
            if infile is None or em != (not infile):
                bad_r = bad_r or p
    ok_f = bad_f is None and n_file > 0
    ok_r = bad_r is None and n_reg > 0
    if not (ok_f and ok_r):
        # the same merge spelled on a dict: a copy of the file rules, filled
        # up with setdefault() from the registered rules, then emitted
        if _dict_merge_form(prog, t, en, emitted):
            ok_f = ok_r = True
    ctx.count(len(t.paths))
    ctx.ob('C18.MERGE', ok_f, W, f.qual, 'all file rules',
           'every rule of the operator\'s files is in the output' if ok_f
           else 'the effective-policy generator does not emit every file '
           'rule')
    ctx.ob('C18.MERGE', ok_r, W, f.qual, 'registered rules not in files',
           'registered defaults are added exactly for names without a file '
           'rule' if ok_r else
           'registered defaults are not filtered by `name not in '
           'file_rules`: a default can shadow or duplicate an override')
    # rendered uncommented: include_help False
    sec = prog.func(GEN + '._sort_and_format_by_section')
    # ... through the section formatter or the rule formatter itself
    renderers = {sec.qual: sec}
    for g in prog.module(GEN).functions.values():
        if 'include_help' in g.params and 'comment_rule' in g.params:
            renderers[g.qual] = g
    seen_r = []
    for c in ast.walk(f.node):
        g = prog.callee_of(f, c) if isinstance(c, ast.Call) else None
        if g is not None and g.qual in renderers:
            ih = kwarg(c, 'include_help', g.params.index('include_help'))
            cr = kwarg(c, 'comment_rule', g.params.index('comment_rule')) \
                if 'comment_rule' in g.params else None
            seen_r.append((ih is not None and is_const(ih, False))
                          or (cr is not None and is_const(cr, False)))
    if not seen_r:
        raise AnalysisError(
            'the effective-policy generator calls neither the section '
            'formatter nor the rule formatter: how its rule lines are '
            'rendered is not read')
    ok_h = all(seen_r)
    ctx.ob('C18.MERGE', ok_h, W, f.qual, 'rendering',
           'effective rules are written as plain (uncommented) rule lines'
           if ok_h else 'the effective policy is rendered with help text, '
           'i.e. with rule lines commented out')


def check_json_reader(ctx):
    """oslopolicy-convert-json-to-yaml is given a JSON policy file: it
    decodes it with a JSON decoder.  A YAML loader is not one (a TAB between
    two tokens is JSON white space and a YAML scanner error): the tool then
    aborts on a file the enforcer loads."""
    prog = ctx.prog
    f = prog.func(GEN + '._convert_policy_json_to_yaml')
    region = [g for q, g in sorted(prog.region(f).items())
              if g.module.name == GEN and g.name not in (
                  '_get_enforcer', 'get_policies_dict',
                  '_format_rule_default_yaml', '_format_help_text')]
    dec = []
    for g in [f] + [x for x in region if x is not f]:
        for c in walk_no_nested(g.node):
            if isinstance(c, ast.Call):
                r = prog.resolve(g.module, c.func) or ''
                if r.endswith(('jsonutils.loads', 'json.loads', 'json.load',
                               'jsonutils.load')):
                    dec.append((g, c, True))
                elif r.endswith(('yaml.safe_load', 'yaml.load',
                                 'yaml.full_load')) or r.endswith(
                                     'parse_file_contents'):
                    dec.append((g, c, r.endswith('parse_file_contents')))
    if not dec:
        raise AnalysisError('the converter does not decode its input with a '
                            'known decoder')
    bad = [x for x in dec if not x[2]]
    ctx.ob('C18.JSON-IN', not bad, ctx.where(bad[0][0].module, bad[0][1])
           if bad else ctx.where(f.module, f.node),
           bad[0][0].qual if bad else f.qual,
           'input decoder ' + U((bad or dec)[0][1].func),
           'the JSON policy file is read with a JSON decoder' if not bad
           else 'the JSON policy file is read with a YAML loader: valid JSON '
           'that uses a TAB as white space between tokens is rejected '
           '(ScannerError) and the tool aborts on a file the enforcer loads')


def check_redundant(ctx):
    """A rule is reported (printed, or yielded by a helper whose elements
    are printed) only under `file rule == registered default`."""
    prog = ctx.prog
    f = prog.func(GEN + '._list_redundant')
    W = ctx.where(f.module, f.node)
    region = [g for q, g in sorted(prog.region(f).items())
              if g.module.name == GEN and g.name != '_get_enforcer']
    helpers = {g.qual for g in region if g is not f and any(
        isinstance(x, (ast.Yield, ast.YieldFrom)) for x in ast.walk(g.node))}
    bad = None
    n = 0
    for g in [f] + [x for x in region if x.qual in helpers]:
        t = Table(prog, g)
        for p in t.paths:
            # lines collected in a local list that is written out afterwards
            out_lists = set()
            for e in p.events:
                if e.kind == 'call' and U(e.node.func) in (
                        'sys.stdout.writelines', 'sys.stdout.write',
                        'print'):
                    for a in e.node.args:
                        for x in ast.walk(a):
                            if isinstance(x, ast.Name) and x.id.startswith(
                                    'SYM_m'):
                                out_lists.add(x.id)
            for e in p.events:
                is_print = e.kind == 'call' and U(e.node.func) == 'print' \
                    and not any(isinstance(x, ast.Name) and x.id in out_lists
                                for a in e.node.args for x in ast.walk(a))
                is_yield = e.kind == 'yield' and g is not f
                is_collect = e.kind == 'call' and method_call(
                    e.node, 'append') and U(method_call(e.node)[0]) in \
                    out_lists
                if not (is_print or is_yield or is_collect):
                    continue
                n += 1
                conds = p.conds[:e.nconds]
                # printing the elements of a reporting helper as they come
                arg = e.node.args[0] if is_print and e.node.args else None
                if isinstance(arg, ast.Name) and arg.id.startswith('SYM_e'):
                    d = t.en.defs.get(arg.id)
                    src = t.expand(d[1]) if isinstance(d, tuple) else None
                    if isinstance(src, ast.Call) and prog.callee_of(
                            g, src) is not None and prog.callee_of(
                                g, src).qual in helpers:
                        if any(c.kind == 'test' for c in conds):
                            bad = bad or p
                        continue
                eq = [c for c in conds if c.kind == 'test' and isinstance(
                    c.expr, ast.Compare) and isinstance(c.expr.ops[0],
                                                        ast.Eq)]
                ok = bool(eq) and eq[-1].pol and any(
                    'registered_rules' in U(t.expand(x)) for x in (
                        eq[-1].expr.left, eq[-1].expr.comparators[0])) and \
                    any('SYM_e' in U(x) for x in (
                        eq[-1].expr.left, eq[-1].expr.comparators[0]))
                if not ok and any(
                        isinstance(x, ast.Call) and isinstance(
                            x.func, ast.Name) and x.func.id.startswith(
                                'SYM_f') for c in conds
                        if isinstance(c.expr, ast.AST)
                        for x in ast.walk(c.expr)):
                    raise AnalysisError(
                        'list-redundant selects what it reports through a '
                        'local function object (%s): what that predicate '
                        'compares is not read' % conds[-1].text()[:60])
                if not ok:
                    bad = bad or p
    ctx.ob('C18.REDUNDANT', bad is None and n > 0, W, f.qual,
           'report condition (%d report paths)' % n,
           'a rule is reported only when the file rule equals the '
           'registered default' if bad is None and n else
           'list-redundant reports a rule that was not compared equal to '
           'its registered default (path: %s)' % (
               bad.cond_text()[-200:] if bad else 'none'))


def check_upgrade(ctx):
    prog = ctx.prog
    f = prog.func(GEN + '._upgrade_policies')
    from ..dte import inline_helpers
    t = Table(prog, f, inline=inline_helpers(prog, modules={GEN},
                                             classes=False),
              comps=True, max_depth=3)
    W = ctx.where(f.module, f.node)
    pol = f.params[0]
    ok = False
    n = 0
    order_bad = snap_bad = alias_bad = live_bad = None
    live_cand, live_free = [], set()
    for p in t.paths:
        stores = [e for e in p.events if e.kind == 'store' and isinstance(
            e.node, ast.Subscript) and U(e.node.value) == pol]
        # several new policies may name the same deprecated policy: an
        # iteration that asks the *live* mapping whether the deprecated name
        # is there and removes it in the same iteration leaves nothing for
        # the next policy that names it
        loops0 = [i for i, c in enumerate(p.conds) if c.kind == 'loop']
        for e in stores:
            key = U(e.node.slice)
            if not key.endswith('.name') or 'deprecated_rule' in key:
                continue
            subj = key[:-len('.name')]
            dep = subj + '.deprecated_rule.name'
            live_guard = None
            pos = (e.node.lineno, e.node.col_offset)
            for c in p.conds[:e.nconds]:
                x = t.expand(c.expr) if c.kind == 'test' else None
                if c.kind == 'test' and isinstance(
                        x, ast.Compare) and len(x.ops) == 1 and isinstance(
                            x.ops[0], (ast.In, ast.NotIn)) and U(
                                x.left) == dep and U(
                                    x.comparators[0]) == pol:
                    if c.pol == isinstance(x.ops[0], ast.In):
                        live_guard = c
                    else:
                        # the move is also reached when the live mapping
                        # lacks the name: the test gates something else
                        live_free.add(pos)
            if live_guard is None or not loops0:
                continue
            removed_here = '%s.pop(%s' % (pol, dep) in U(t.expand(e.value))
            for x in p.events:
                if getattr(x, 'nconds', 0) <= loops0[0]:
                    continue
                if x.kind == 'call' and method_call(x.node, 'pop') and U(
                        method_call(x.node)[0]) == pol and x.node.args and \
                        U(t.expand(x.node.args[0])) == dep:
                    removed_here = True
                if x.kind == 'del' and dep in U(x.node) and pol in U(x.node):
                    removed_here = True
            if removed_here:
                live_cand.append((pos, e))
        for e in stores:
            n += 1
            key = U(e.node.slice)
            v = t.expand(e.value)
            newname = key.endswith('.name') and 'deprecated_rule' not in key
            # value = what was stored under the deprecated name
            vt = U(v)
            from_old = 'deprecated_rule.name' in vt and (
                '.pop(' in vt or '[' in vt)
            removed = any(
                c.kind == 'test' and not c.pol and isinstance(
                    t.expand(c.expr), ast.Compare) and isinstance(
                        t.expand(c.expr).ops[0], ast.In) and U(t.expand(
                            c.expr).comparators[0]) == pol and U(t.expand(
                                c.expr).left).endswith(
                                    'deprecated_rule.name')
                for c in p.conds[:e.nconds]) or '.pop(' in vt or any(
                x.kind == 'call' and method_call(x.node, 'pop') and U(
                    method_call(x.node)[0]) == pol for x in p.events) or any(
                        x.kind == 'del' for x in p.events)
            if newname and from_old and removed:
                ok = True
            else:
                ok = False
                break
            # an old-name override that merely points at the new policy
            # (`old: rule:new`, the alias the sample file suggests; the
            # enforcer keeps the new default for it, C11 `alias` row) is not
            # moved: under the new name it would refer to itself
            from .c11 import is_alias_text
            newname_txt = U(e.node.slice)
            alias_excluded = False
            for c in p.conds[:e.nconds]:
                if c.kind != 'test' or c.pol:
                    continue
                x = t.expand(c.expr)
                if isinstance(x, ast.Compare) and len(x.ops) == 1 and \
                        isinstance(x.ops[0], ast.Eq) and any(
                            is_alias_text(o, newname_txt)
                            for o in (x.left, x.comparators[0])):
                    alias_excluded = True
            if newname and from_old and not alias_excluded:
                alias_bad = alias_bad or e
            # the old name is removed *before* the new one is written: when
            # a default changed under the same name the two are one key
            i_store = p.events.index(e)
            pops = [i for i, x in enumerate(p.events) if x.kind == 'call'
                    and method_call(x.node, 'pop') and U(
                        method_call(x.node)[0]) == pol] + [
                i for i, x in enumerate(p.events) if x.kind == 'del']
            def names_differ(c):
                # <x>.deprecated_rule.name compared with <x>.name
                x = t.expand(c.expr)
                if not (c.kind == 'test' and isinstance(x, ast.Compare)
                        and len(x.ops) == 1 and isinstance(
                            x.ops[0], (ast.Eq, ast.NotEq))):
                    return False
                a_, b_ = U(x.left), U(x.comparators[0])
                if not ({a_.endswith('.deprecated_rule.name'),
                         b_.endswith('.deprecated_rule.name')} == {True,
                                                                   False}
                        and a_.endswith('.name') and b_.endswith('.name')):
                    return False
                return c.pol != isinstance(x.ops[0], ast.Eq)
            differ = any(names_differ(c) for c in p.conds[:e.nconds])
            if pops and '.pop(' not in vt and min(pops) > i_store and \
                    not differ:
                order_bad = order_bad or e
            # the value comes from a snapshot taken before any rename
            loops = [i for i, c in enumerate(p.conds) if c.kind == 'loop']
            for x in ast.walk(e.value):
                if isinstance(x, ast.Subscript) and isinstance(
                        x.value, ast.Name) and x.value.id.startswith('SYM_'):
                    d = t.en.defs.get(x.value.id)
                    if isinstance(d, ast.Call) and (
                            (isinstance(d.func, ast.Name) and d.func.id ==
                             'dict') or method_call(d, 'copy')) and pol in U(
                                 t.expand(d)):
                        made = [ev for ev in p.events
                                if ev.sym == x.value.id]
                        if made and loops and made[0].nconds > loops[0]:
                            snap_bad = snap_bad or made[0]
    for pos, e in live_cand:
        if pos not in live_free:
            live_bad = live_bad or e
    F = W.split(':')[0]
    ctx.ob('C18.UPGRADE', order_bad is None, '%s:%d' % (F, order_bad.line)
           if order_bad else W, f.qual, 'order of removing and writing',
           'the deprecated name is removed before the new name is written'
           if order_bad is None else
           'the new name is written before the deprecated name is removed: '
           'when a default changed its check under the same name both are '
           'one key, and the operator\'s override is deleted from the '
           'upgraded file')
    ctx.ob('C18.UPGRADE', alias_bad is None, '%s:%d' % (F, alias_bad.line)
           if alias_bad else W, f.qual, 'alias overrides',
           'an override that only refers to the new policy is dropped, not '
           'moved' if alias_bad is None else
           'the value under a deprecated name is moved to the new name '
           'without excluding the alias `rule:<new name>` (which the sample '
           'file suggests for a deprecated name and the enforcer resolves '
           'to the new default): the upgraded file says `new: rule:new`, a '
           'self-reference - every decision on it fails')
    ctx.ob('C18.UPGRADE', live_bad is None, '%s:%d' % (F, live_bad.line)
           if live_bad else W, f.qual, 'shared deprecated names',
           'whether a deprecated name is overridden is not asked of the '
           'mapping the same iteration removes it from'
           if live_bad is None else
           'the loop over the new policies asks the mapping being rewritten '
           'whether the deprecated name is in it and removes the name in the '
           'same iteration: a deprecated policy split into several new ones '
           'is upgraded for the first only, the others fall back to their '
           'defaults')
    ctx.ob('C18.UPGRADE', snap_bad is None, '%s:%d' % (F, snap_bad.line)
           if snap_bad else W, f.qual, 'snapshot of the operator\'s policy',
           'values are read from a copy taken before any rename'
           if snap_bad is None else
           'the copy of the operator\'s policies the values are read from '
           'is taken inside the loop over the namespaces: names removed by '
           'an earlier namespace are gone, so a deprecated policy that was '
           'split over several namespaces is upgraded for the first only')
    ctx.ob('C18.UPGRADE', ok and n > 0, W, f.qual,
           'rename of deprecated names (%d stores)' % n,
           'the value under a deprecated name is moved to the new name'
           if ok and n else 'policy-upgrade does not move the operator\'s '
           'value from the deprecated name to the new name')


def _open_mode(prog, f, call):
    """'w' / 'r' for a call of the builtin open (io.open), else None."""
    if not isinstance(call, ast.Call):
        return None
    r = prog.resolve(f.module, call.func)
    if r not in ('builtin:open', 'ext:io.open', 'ext:codecs.open'):
        return None
    from ..util import kwarg
    m = kwarg(call, 'mode', 1)
    if m is None:
        return 'r'
    if isinstance(m, ast.Constant) and isinstance(m.value, str):
        return 'w' if set(m.value) & set('wax+') else 'r'
    return 'w'          # a computed mode may truncate


def check_read_first(ctx):
    """A tool that reads the operator's policy files and writes a policy file
    opens its output (which truncates it) only after the input has been
    read: the output may be one of the files read (an upgrade in place), and
    a tool that fails while reading must not leave an emptied file behind."""
    prog = ctx.prog
    gen = prog.module(GEN)
    fns = [f for f in prog.functions.values()
           if f.module is gen and f.cls is None]
    # summaries: does the function (transitively, inside the module) open a
    # file for writing / read the operator's input?
    summ = {}

    def direct(f):
        w = r = False
        for n in walk_no_nested(f.node):
            if not isinstance(n, ast.Call):
                continue
            m = _open_mode(prog, f, n)
            if m == 'w':
                w = True
            elif m == 'r':
                r = True
            mc = method_call(n)
            if mc and mc[1] == 'load_rules':
                r = True
        return w, r
    for f in fns:
        summ[f.qual] = list(direct(f))
    changed = True
    while changed:
        changed = False
        for f in fns:
            for call, g in prog.callees(f):
                if g.qual in summ and isinstance(call, ast.Call):
                    for i in (0, 1):
                        if summ[g.qual][i] and not summ[f.qual][i]:
                            summ[f.qual][i] = True
                            changed = True
    n = 0
    for f in sorted(fns, key=lambda x: x.qual):
        if not (summ[f.qual][0] and summ[f.qual][1]):
            continue
        t = Table(prog, f, handler_paths=False, max_paths=50000)
        bad = None
        for p in t.paths:
            wrote = None
            for e in p.events:
                if e.kind not in ('call', 'maycall', 'with') or \
                        not isinstance(e.node, ast.Call):
                    continue
                x = e.node
                m = _open_mode(prog, f, x)
                g = prog.callee_of(f, x)
                gs = summ.get(g.qual) if g is not None else None
                mc = method_call(x)
                is_r = m == 'r' or (mc and mc[1] == 'load_rules') or (
                    gs is not None and gs[1])
                is_w = m == 'w' or (gs is not None and gs[0] and not gs[1])
                if is_r and wrote is not None and bad is None:
                    bad = (wrote, e)
                if is_w and wrote is None:
                    wrote = e
        n += 1
        W = ctx.where(f.module, f.node)
        ctx.ob('C18.READ-FIRST', bad is None, '%s:%d' % (
            W.split(':')[0], bad[0].line) if bad else W, f.qual,
            'order of opening the output and reading the input',
            'the output is opened only after the operator\'s files have '
            'been read' if bad is None else
            'the output is opened for writing (line %d: %s) before the '
            'operator\'s policy is read (line %d: %s): when the output is '
            'one of the files read, the tool reads back the file it has '
            'just emptied and the operator\'s rules are lost' % (
                bad[0].line, U(bad[0].node)[:50], bad[1].line,
                U(bad[1].node)[:50]))
    ctx.floor('C18.READ-FIRST', n, 2, 'tools that read and write files')


def check(ctx):
    ctx.use(GEN, POLICY)
    ctx.explain('C18 (necessary conditions): provenance of every value '
                'written between literal double quotes (operator-file '
                'values must be serialised), dominance of dict.pop without '
                'default by a membership test in the same dict, and branch '
                'rules of the converter, the effective-policy generator, '
                'list-redundant and policy-upgrade.')
    ctx.assume('decision preservation over all files is not decided')
    check_quoted_hole(ctx)
    check_serialized(ctx)
    check_pop_guard(ctx)
    check_keep_override(ctx)
    check_merge(ctx)
    check_json_reader(ctx)
    check_redundant(ctx)
    # what "equal" means for redundancy (= C15.EQ)
    from . import c15
    nf, no = len(ctx.findings), len(ctx.obligations)
    c15.check_eq(ctx)
    for fd in ctx.findings[nf:]:
        fd.rule = 'C18.REDUNDANT(' + fd.rule + ')'
    for o in ctx.obligations[no:]:
        o['rule'] = 'C18.REDUNDANT(' + o['rule'] + ')'
    check_upgrade(ctx)
    check_read_first(ctx)
    # the converter and the effective-policy generator write the operator's
    # value through the sample formatter: the rule line it produces is
    # `"name": <check string>` of the rule it is given, verbatim (= C17.RULE-
    # LINE) - nothing re-reads the value as a template
    def _rule_line(ctx):
        from . import c17
        try:
            sanitizer, ok = c17.check_sanitizer(ctx)
            fmt = c17.check_consts(ctx)
            c17.check_lines(ctx, fmt, sanitizer, ok)
        except AnalysisError as e:
            ctx.assume('C18.KEEP-OVERRIDE(C17.RULE-LINE) not decided (C17 '
                       'declines: %s)' % str(e)[:120])
    ctx.borrow('C18.KEEP-OVERRIDE', _rule_line, only=['C17.RULE-LINE'])
    # the policy generator merges what the enforcer recorded as file rules:
    # that record is renewed together with the rule store (C10.PAIR)
    from . import c10 as _c10
    ctx.borrow_soft('C18.MERGE', _c10.check_pair, only=['C10.PAIR'])
    # the upgrade tool moves an override to the new name because the
    # enforcer lets an old-name override govern the new policy (C11.TABLE)
    from . import c11
    nf, no = len(ctx.findings), len(ctx.obligations)
    c11.check_table(ctx)
    for fd in ctx.findings[nf:]:
        fd.rule = 'C18.UPGRADE(' + fd.rule + ')'
    for o in ctx.obligations[no:]:
        o['rule'] = 'C18.UPGRADE(' + o['rule'] + ')'

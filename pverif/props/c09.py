"""C09 - effective policy is defaults, then policy file, then policy.d in
sorted order."""
import ast
import itertools

from .. import PKG
from ..absval import AV
from ..dte import Table
from ..load_model import roles, load_table, classify_event
from ..model import AnalysisError
from ..util import (U, is_const, method_call, kwarg, walk_no_nested,
                    handler_names, parent_map, self_attr)

POLICY = PKG + '.policy'
ENF = POLICY + '.Enforcer'
LOCS = ('opt_default', 'set_default', 'set_override', 'user')


def check_pick(ctx):
    prog = ctx.prog
    f = prog.func(POLICY + '.pick_default_policy_file')
    conf_p = f.params[0]
    fb_p = f.params[1] if len(f.params) > 1 else None
    if fb_p is None:
        raise AnalysisError('pick_default_policy_file lost its fallback '
                            'switch')
    from ..dte import inline_helpers
    t = Table(prog, f, inline=inline_helpers(prog, modules={POLICY},
                                             classes=False), max_depth=4)
    W = ctx.where(f.module, f.node)
    F = W.split(':')[0]
    opt = conf_p + '.oslo_policy.policy_file'

    def classify(p):
        if p.outcome.kind != 'return' or p.outcome.expr is None:
            return 'other:' + p.outcome.text()
        e = t.expand(p.outcome.expr)
        if is_const(e):
            # a constant the configured value is known to equal on this path
            for c in p.conds:
                x = c.expr
                if c.kind == 'test' and c.pol and isinstance(
                        x, ast.Compare) and isinstance(x.ops[0], ast.Eq):
                    pair = [x.left, x.comparators[0]]
                    if any(U(t.expand(y)) == opt for y in pair) and any(
                            is_const(y, e.value) for y in pair):
                        return 'configured'
            return 'const:%s' % e.value
        if U(e) == opt:
            return 'configured'
        return 'other:' + U(e)

    def loc_names(node):
        if isinstance(node, (ast.Name, ast.Attribute)):
            c = prog.const_expr(f.module, node, names_ok=True)
            if isinstance(c, ast.Tuple):
                node = c
        out = []
        for x in (node.elts if isinstance(node, (ast.List, ast.Tuple,
                                                 ast.Set)) else [node]):
            r = prog.resolve(f.module, x) or U(x)
            out.append(r.rsplit('.', 1)[-1])
        return out

    rows = 0
    bad = {}
    for is_yaml, fallback, yaml_found, loc, json_found in itertools.product(
            (True, False), (True, False), (True, False), LOCS,
            (True, False)):
        def oracle(expr):
            x = t.expand(expr)
            if isinstance(x, ast.Call) and method_call(x, 'find_file') and \
                    len(x.args) == 1:
                a = x.args[0]
                if is_const(a, 'policy.json'):
                    return json_found
                if U(a) == opt:
                    return yaml_found
                if is_const(a, 'policy.yaml'):
                    return yaml_found if is_yaml else None
                return None
            if isinstance(x, ast.Compare) and len(x.ops) == 1:
                l, r = x.left, x.comparators[0]
                if 'get_location' in U(l) or '.location' in U(l):
                    if isinstance(x.ops[0], ast.In):
                        return loc in loc_names(r)
                    if isinstance(x.ops[0], (ast.Eq, ast.Is)):
                        return loc_names(r) == [loc]
            return None
        av = AV('policy_file option', True, types=('str',),
                eq={'policy.yaml': is_yaml, 'policy.json': False,
                    '': False}, length=('ge', 1))
        binding = {opt: av,
                   fb_p: AV('fallback', fallback, types=('bool',),
                            eq={True: fallback, False: not fallback})}
        feas = t.feasible(binding, oracle)
        outs = {}
        for p, unk in feas:
            outs.setdefault(classify(p), []).append((p, unk))
        use_json = is_yaml and fallback and not yaml_found and \
            loc in ('opt_default', 'set_default') and json_found
        want = 'const:policy.json' if use_json else 'configured'
        rows += 1
        if set(outs) != {want}:
            wrong = [o for o in outs if o != want] or ['(none)']
            p0, unk0 = outs[wrong[0]][0] if wrong[0] in outs else (None, [])
            key = (use_json, tuple(sorted(outs)), is_yaml, fallback,
                   yaml_found)
            bad.setdefault(key, {
                'option_is_policy_yaml': is_yaml, 'fallback': fallback,
                'policy_yaml_found': yaml_found, 'location': loc,
                'policy_json_found': json_found, 'expected': want,
                'got': sorted(outs),
                'path': p0.cond_text() if p0 else None,
                'line': p0.outcome.line if p0 else f.node.lineno,
                'unknown': [c.text() for c in unk0]})
    ctx.count(rows, [('C09.PICK', i) for i in range(rows)])
    for key, w in list(bad.items())[:6]:
        ctx.ob('C09.PICK', False, '%s:%s' % (F, w['line']), f.qual,
               'row yaml-default=%s fallback=%s yaml-found=%s location=%s '
               'json-found=%s' % (w['option_is_policy_yaml'], w['fallback'],
                                  w['policy_yaml_found'], w['location'],
                                  w['policy_json_found']),
               'picks %s where the documented rule says %s%s' % (
                   w['got'], w['expected'],
                   '; depends on unrecognised condition %s' % w['unknown']
                   if w['unknown'] else ''), witness=w)
    if not bad:
        ctx.ob('C09.PICK', True, W, f.qual,
               'policy-file choice (%d paths)' % len(t.paths),
               'all %d rows equal the documented rule: policy.json only for '
               'an unconfigured policy.yaml default that is absent while '
               'policy.json exists and fallback is on' % rows)
    d = f.defaults().get(fb_p)
    ctx.ob('C09.FILE-SRC', is_const(d, True), W, f.qual,
           'fallback default ' + (U(d) if d is not None else 'none'),
           'fallback is on by default' if is_const(d, True) else
           'the JSON fallback is not on by default')
    return f


def check_file_src(ctx, pick):
    prog = ctx.prog
    init = prog.func(ENF + '.__init__')
    from ..dte import inline_helpers
    ti = Table(prog, init, inline=inline_helpers(
        prog, modules={POLICY}, exclude={pick.qual, ENF + '.load_rules',
                                         ENF + '.set_rules'}),
        handler_paths=False)

    def is_pick(c):
        if not (isinstance(c, ast.Call) and prog.callee_of(init, c) is pick):
            return False
        a0 = c.args[0] if c.args else kwarg(c, pick.params[0])
        fb = kwarg(c, pick.params[1], 1)
        return a0 is not None and U(a0) in ('self.conf', 'conf') and \
            fb is not None and U(fb) == 'fallback_to_json_file'
    bad = None
    nst = 0
    for p in ti.paths:
        st = [e for e in p.events if e.kind == 'store'
              and U(e.node) == 'self.policy_file']
        if not st:
            if p.outcome.kind != 'raise':
                bad = bad or (p, None, 'never stored')
            continue
        nst += 1
        e = st[-1]
        v = ti.expand(e.value)
        given = [c.pol for c in p.conds if c.kind == 'test'
                 and U(c.expr) == 'policy_file'] + [
            not c.pol for c in p.conds if c.kind == 'test'
            and U(c.expr) == 'policy_file is None']
        if isinstance(v, ast.BoolOp) and isinstance(v.op, ast.Or) and len(
                v.values) == 2 and U(v.values[0]) == 'policy_file' and \
                is_pick(v.values[1]):
            continue
        if given and given[-1] and U(v) == 'policy_file':
            continue
        if given and not given[-1] and is_pick(v):
            continue
        bad = bad or (p, e, 'self.policy_file = %s' % U(v)[:70])
    ok = bad is None and nst > 0
    ctx.ob('C09.FILE-SRC', ok, '%s:%d' % (
        ctx.where(init.module, init.node).split(':')[0], bad[1].line)
        if bad and bad[1] is not None else ctx.where(init.module,
                                                     init.node),
        init.qual, 'self.policy_file (%d paths)' % nst,
        'policy file = constructor argument, else the picked default '
        'with the constructor\'s fallback switch' if ok else
        'the enforcer\'s policy file is not `argument or '
        'pick_default_policy_file(conf, fallback switch)` (%s)' % (
            bad[2] if bad else 'never stored'))
    d = init.defaults().get('fallback_to_json_file')
    ctx.ob('C09.FILE-SRC', is_const(d, True), ctx.where(init.module,
                                                        init.node),
           init.qual, 'fallback_to_json_file default', 'on by default'
           if is_const(d, True) else 'the constructor\'s JSON fallback '
           'switch is not on by default')


def check_order(ctx):
    prog = ctx.prog
    t = load_table(ctx)
    r = t.roles
    lr = r.load_rules
    F = ctx.where(lr.module, lr.node).split(':')[0]
    ctx.count(len(t.paths))
    bad_order = bad_merge = None
    n_main = n_dir = n_merge = 0
    for p in t.paths:
        seq = [(classify_event(t, e), e) for e in p.events]
        seq = [(k, e) for k, e in seq if k in ('MAIN', 'DIR', 'MERGE')]
        kinds = [k for k, _ in seq]
        n_main += kinds.count('MAIN')
        n_dir += kinds.count('DIR')
        n_merge += kinds.count('MERGE')
        rank = {'MAIN': 0, 'DIR': 1, 'MERGE': 2}
        for (k1, e1), (k2, e2) in zip(seq, seq[1:]):
            if rank[k1] > rank[k2] and bad_order is None:
                bad_order = (k1, e1, k2, e2, p)
        for k, e in seq:
            if k == 'MERGE':
                conds = p.conds[:e.nconds]
                guarded = any(
                    c.kind == 'test' and not c.pol and isinstance(
                        c.expr, ast.Compare) and isinstance(
                            c.expr.ops[0], ast.In) and U(
                                c.expr.comparators[0]) == 'self.rules'
                    and U(c.expr.left) == U(e.node.slice) for c in conds)
                if not guarded and bad_merge is None:
                    bad_merge = (e, p)
    ctx.floor('C09.ORDER', n_main, 1, 'main-file applications')
    ctx.floor('C09.ORDER', n_dir, 1, 'directory applications')
    ctx.floor('C09.ORDER', n_merge, 1, 'default merges')
    ctx.ob('C09.ORDER', bad_order is None,
           '%s:%d' % (F, bad_order[3].line) if bad_order else
           ctx.where(lr.module, lr.node), lr.qual,
           'layer order on %d paths' % len(t.paths),
           'on every path the main file is applied before directories and '
           'directories before registered defaults' if bad_order is None
           else 'a %s step (line %d) runs after a %s step (line %d): later '
           'layers no longer win (path: %s)' % (
               bad_order[2], bad_order[3].line, bad_order[0],
               bad_order[1].line, bad_order[4].cond_text()[-300:]))
    ctx.ob('C09.ORDER', bad_merge is None,
           '%s:%d' % (F, bad_merge[0].line) if bad_merge else
           ctx.where(lr.module, lr.node), lr.qual,
           'default merge guard',
           'a registered default is stored only for names absent from the '
           'rule store' if bad_merge is None else
           'a registered default can overwrite a rule loaded from a file '
           '(%s is not guarded by `name not in self.rules`)'
           % bad_merge[0].text())


def check_find(ctx):
    """While no policy file has been located, every load looks for it."""
    prog = ctx.prog
    t = load_table(ctx)
    r = t.roles
    lr = r.load_rules
    bad = None
    n = 0
    for p in t.paths:
        unknown = [c for c in p.conds if c.kind == 'test' and not c.pol
                   and U(c.expr) == 'self.policy_path']
        if not unknown:
            continue
        first = p.conds.index(unknown[0])
        # only the first test of policy_path on the path matters
        if any(U(c.expr) == 'self.policy_path' for c in p.conds[:first]):
            continue
        n += 1
        looked = False
        for e in p.events:
            if e.kind in ('call', 'maycall') and classify_event(
                    t, e) == 'GETPATH' or (
                        e.kind == 'maycall' and prog.callee_of(
                            prog.functions.get(e.frame, lr), e.node)
                        is r.get_path):
                a0 = e.node.args[0] if e.node.args else None
                if a0 is not None and U(a0) == 'self.policy_file':
                    looked = True
        if not looked and bad is None:
            bad = p
    ctx.ob('C09.FIND', bad is None and n > 0, ctx.where(lr.module, lr.node),
           lr.qual, 'lookup of the policy file (%d paths without a located '
           'file)' % n,
           'as long as no policy file has been located, every load looks '
           'for it again' if bad is None and n else
           'on a load where no policy file has been located yet the file is '
           'not looked for (path: %s): a policy file created later is never '
           'picked up' % (bad.cond_text()[-300:] if bad else 'none'))


def _ancestors(pm, node):
    n = pm.get(node)
    while n is not None:
        yield n
        n = pm.get(n)


def _dir_order_on_paths(ctx, t, r):
    """Every directory application on every path of load_rules is given
    the located path of an entry of option policy_dirs, drawn from a
    collection that keeps the configured order (no sorted()/reversed())."""
    prog = ctx.prog
    n = 0
    for p in t.paths:
        for e in p.events:
            if classify_event(t, e) != 'DIR' or not e.node.args:
                continue
            n += 1
            a0 = e.node.args[0]
            d = t.en.defs.get(a0.id) if isinstance(a0, ast.Name) else None
            if not (isinstance(d, ast.Call) and prog.callee_of(
                    prog.functions.get(e.frame, r.load_rules), d)
                    is r.get_path and d.args):
                return False
            src = d.args[0]
            sd = t.en.defs.get(src.id) if isinstance(src, ast.Name) else None
            if not (isinstance(sd, tuple) and sd and sd[0] == 'elem'
                    and U(t.expand(sd[1])).endswith(
                        '.oslo_policy.policy_dirs')):
                return False
        for c in p.conds:
            if c.kind == 'loop' and any(
                    isinstance(x, ast.Call) and U(x.func) in (
                        'sorted', 'reversed', 'set', 'frozenset')
                    for x in ast.walk(t.expand(c.expr))) and any(
                        classify_event(t, e) == 'DIR' for e in p.events):
                if 'policy_dirs' in U(t.expand(c.expr)) or 'SYM_m' in U(
                        c.expr):
                    return False
    return n > 0


def check_dirs(ctx):
    prog = ctx.prog
    t = load_table(ctx)
    r = t.roles
    bodies = list(r.bodies)
    lr = r.load_body
    W = lambda n, f=None: ctx.where((f or lr).module, n)
    # loop over the option accumulating existing dirs (function A); loop over
    # them calling the walker (function B, possibly the same)
    opt = None
    for b in bodies:
        for n in walk_no_nested(b.node):
            if isinstance(n, ast.For) and (U(n.iter).endswith(
                    '.oslo_policy.policy_dirs') or (
                        isinstance(n.iter, ast.Attribute)
                        and n.iter.attr == 'policy_dirs')):
                opt = (b, n)
    walker_calls = [(b, n) for b in bodies for n in walk_no_nested(b.node)
                    if isinstance(n, ast.Call)
                    and prog.callee_of(b, n) is r.walker]
    ctx.floor('C09.DIR-ORDER', len(walker_calls), 1, 'walker calls')
    if opt is None:
        any_loop = [(b, n) for b in bodies for n in walk_no_nested(b.node)
                    if isinstance(n, ast.For) and 'policy_dirs' in U(n.iter)]
        ctx.ob('C09.DIR-ORDER', False,
               W(any_loop[0][1], any_loop[0][0]) if any_loop
               else W(lr.node), lr.qual,
               'iteration over policy_dirs: ' + (
                   U(any_loop[0][1].iter) if any_loop else 'none'),
               'the configured policy directories are not visited in '
               'configured order')
        return
    fa, ol = opt
    pma = parent_map(fa.node)
    appends = [c for c in ast.walk(ol) if isinstance(c, ast.Call)
               and method_call(c, 'append')]
    acc_names = {U(method_call(c)[0]) for c in appends}
    returns_acc = any(isinstance(x, ast.Return) and x.value is not None
                      and U(x.value) in acc_names
                      for x in walk_no_nested(fa.node))
    # (i) a missing directory only skips itself: the handler of the lookup
    # sits inside the loop
    softs = soft_lookups(prog, r)
    soft_guards = []      # `if X is None / not X: continue` for X = lookup

    def none_guard(call):
        """the lookup result is kept in a name and the very next statement
        of the loop leaves the iteration when it is None / falsy"""
        st = pma.get(call)
        if not (isinstance(st, ast.Assign) and len(st.targets) == 1
                and isinstance(st.targets[0], ast.Name)):
            return None
        holder = pma.get(st)
        body = getattr(holder, 'body', [])
        if st not in body:
            return None
        nxt = body[body.index(st) + 1] if body.index(st) + 1 < len(
            body) else None
        x = st.targets[0].id
        if isinstance(nxt, ast.If) and not nxt.orelse and U(
                nxt.test).replace(' ', '') in (
                    '%sisNone' % x, 'not%s' % x) and nxt.body and \
                isinstance(nxt.body[-1], ast.Continue):
            return nxt
        return None
    for c in ast.walk(ol):
        if isinstance(c, ast.Call) and prog.callee_of(
                fa, c) is not None and prog.callee_of(fa, c).qual in softs:
            g = none_guard(c)
            if g is not None:
                soft_guards.append(g)
            ctx.ob('C09.SKIP', g is not None, W(c, fa), fa.qual,
                   'per-directory lookup ' + U(c)[:60],
                   'a configured directory that does not exist (the lookup '
                   'answers None) is skipped on its own' if g is not None
                   else 'the lookup answers None for a directory that does '
                   'not exist and the loop does not skip that directory '
                   'right away')
            continue
        if isinstance(c, ast.Call) and prog.callee_of(fa, c) is r.get_path:
            cur, anc, inside = c, pma.get(c), False
            while anc is not None and anc is not ol:
                if isinstance(anc, ast.Try) and any(cur is b
                                                    for b in anc.body):
                    inside = True
                cur, anc = anc, pma.get(anc)
            ctx.ob('C09.SKIP', inside, W(c, fa), fa.qual,
                   'per-directory lookup ' + U(c)[:60],
                   'a configured directory that does not exist is skipped '
                   'on its own' if inside else
                   'the lookup of one policy directory is not guarded inside '
                   'the loop: a missing directory drops every directory '
                   'configured after it (or makes the load fail)')
    # (ii) every located directory is kept, in order: the append is not
    # under a condition and no `continue` outside a handler precedes it
    for c in appends:
        cur, anc, cond = c, pma.get(c), None
        while anc is not None and anc is not ol:
            if isinstance(anc, (ast.If, ast.IfExp, ast.While)):
                cond = anc
            cur, anc = anc, pma.get(anc)
        skips = [x for x in ast.walk(ol) if isinstance(x, (ast.Continue,
                                                           ast.Break))
                 and x.lineno < c.lineno and not any(
                     isinstance(a, ast.ExceptHandler)
                     for a in _ancestors(pma, x)) and not any(
                     x in g.body for g in soft_guards)]
        ok = cond is None and not skips
        ctx.ob('C09.DIR-ORDER', ok, W(c, fa), fa.qual, U(c)[:80],
               'every configured directory that exists is kept, in '
               'configured order' if ok else
               'a configured directory that exists can be left out (the '
               'collection step is conditional: %s): a directory configured '
               'twice or matching the condition loses its place in the '
               'order' % (U(cond.test)[:60] if cond is not None
                          else 'continue/break at line %d' % skips[0].lineno))
    for fb, wc in walker_calls:
        pmb = parent_map(fb.node)
        loop = None
        n = pmb.get(wc)
        while n is not None:
            if isinstance(n, ast.For):
                loop = n
                break
            n = pmb.get(n)
        ok = False
        if loop is not None:
            it = U(loop.iter)
            if loop is ol:
                ok = True
            elif fb is fa and it in acc_names:
                ok = True
            elif fb is not fa and it in fb.params and any(
                    isinstance(c, ast.Call) and prog.callee_of(fa, c) is fb
                    for c in ast.walk(fa.node)):
                # a helper that is handed the collected directories: every
                # call passes the accumulated list for that parameter
                idx = fb.params.index(it) - (
                    1 if fb.cls is not None and not fb.is_static else 0)
                calls = [c for c in ast.walk(fa.node) if isinstance(
                    c, ast.Call) and prog.callee_of(fa, c) is fb]
                def passed(c):
                    for k in c.keywords:
                        if k.arg == it:
                            return U(k.value)
                    return U(c.args[idx]) if 0 <= idx < len(c.args) else None
                ok = bool(calls) and all(passed(c) in acc_names
                                         for c in calls)
            elif returns_acc:
                # iterates the list returned by the collecting helper
                for a in walk_no_nested(fb.node):
                    if isinstance(a, ast.Assign) and U(
                            a.targets[0]) == it and isinstance(
                                a.value, ast.Call) and prog.callee_of(
                                    fb, a.value) is fa:
                        ok = True
                if isinstance(loop.iter, ast.Call) and prog.callee_of(
                        fb, loop.iter) is fa:
                    ok = True
        first = wc.args[0] if wc.args else None
        ok = ok and first is not None and U(first) == U(loop.target)
        if not ok:
            ok = _dir_order_on_paths(ctx, t, r)
        ctx.ob('C09.DIR-ORDER', bool(ok), W(wc, fb), fb.qual, U(wc)[:100],
               'directories are applied in the order of option policy_dirs'
               if ok else 'directories are not applied in configured order '
               '(iterating %s)' % (U(loop.iter) if loop else '?'))
        # MODES: directory files loaded with overwrite False
        lp = r.loader.params[1:]          # path, force_reload, overwrite
        extra = wc.args[2:]
        bound = dict(zip(lp[1:], extra))
        ov = bound.get('overwrite')
        okm = ov is not None and is_const(ov, False)
        ctx.ob('C09.MODES', okm, W(wc, fb), fb.qual,
               'directory load overwrite=' + (U(ov) if ov is not None
                                              else 'default'),
               'files of a policy directory update the rule set in place '
               '(overwrite off), so they layer over the main file'
               if okm else 'policy-directory files are loaded with '
               'overwrite on: each file would wipe what was loaded before')
    # main file uses self.overwrite
    # (read off the paths of load_rules: local aliases and helpers resolved)
    mains = []
    seen_main = set()
    for p in t.paths:
        for e in p.events:
            if classify_event(t, e) == 'MAIN':
                x = t.expand(e.node)
                k = (e.line, U(x))
                if k not in seen_main:
                    seen_main.add(k)
                    if not hasattr(x, 'lineno'):
                        x.lineno = e.line
                        x.col_offset = 0
                    mains.append(x)
    for mc in mains:
        ov = kwarg(mc, 'overwrite', 2)
        ok = ov is not None and U(ov) == 'self.overwrite'
        pth = kwarg(mc, 'path', 0)
        okp = pth is not None and U(pth) == 'self.policy_path'
        ctx.ob('C09.MODES', ok and okp, '%s:%d' % (
            W(lr.node).split(':')[0], mc.lineno), lr.qual, U(mc)[:100],
               'the main file is loaded from policy_path in the enforcer\'s '
               'overwrite mode' if ok and okp else
               'the main policy file is not loaded as (self.policy_path, '
               'overwrite=self.overwrite)')
    ctx.floor('C09.MODES', len(mains), 1, 'main-file loads')
    # set_rules: overwrite off -> update in place
    sr = prog.func(ENF + '.set_rules')
    ts = Table(prog, sr)
    for p in ts.paths:
        ovc = [c for c in p.conds if c.kind == 'test' and U(c.expr) ==
               'overwrite']
        if not ovc or p.outcome.kind == 'raise':
            continue
        if ovc[0].pol:
            ok = any(e.kind == 'store' and U(e.node) == 'self.rules'
                     for e in p.events)
            what = 'overwrite on rebinds the store'
        else:
            ok = any(e.kind == 'call' and method_call(e.node, 'update')
                     and U(method_call(e.node)[0]) == 'self.rules'
                     and U(e.node.args[0]) == sr.params[1]
                     for e in p.events)
            what = 'overwrite off updates the store in place (later wins)'
        ctx.ob('C09.MODES', ok, ctx.where(sr.module, sr.node), sr.qual,
               'set_rules overwrite=%s' % ovc[0].pol, what if ok else
               'set_rules with overwrite=%s does not %s' % (
                   ovc[0].pol, 'rebind the store' if ovc[0].pol
                   else 'update the store in place'))
    # loader forwards its overwrite to set_rules
    ld = r.loader
    for n in walk_no_nested(ld.node):
        if isinstance(n, ast.Call) and prog.callee_of(ld, n) is sr:
            ov = kwarg(n, 'overwrite', 1)
            ok = ov is not None and U(ov) == 'overwrite'
            ctx.ob('C09.MODES', ok, ctx.where(ld.module, n), ld.qual,
                   U(n)[:100], 'the loader applies the file in the mode it '
                   'was given' if ok else 'the loader ignores its overwrite '
                   'argument when applying the file')


def check_walker(ctx):
    """Files of a policy directory: top level only, plain sorted order,
    dot-files skipped, each loaded as join(directory, name) - read off the
    walker's paths (comprehensions unfolded, helpers inlined)."""
    from ..dte import inline_helpers
    from ..pathutil import (contents, elem_source, resolve_elem, strip_order,
                            deref)
    prog = ctx.prog
    r = roles(ctx)
    w = r.walker
    W = lambda n: ctx.where(w.module, n)
    off = 0 if (w.cls is None or w.is_static) else 1
    if len(w.params) < off + 2 or w.node.args.vararg is None:
        raise AnalysisError('directory walker signature changed')
    path_p, func_p = w.params[off], w.params[off + 1]
    va = w.node.args.vararg.arg
    t = Table(prog, w, inline=inline_helpers(
        prog, modules={POLICY}, exclude={r.loader.qual, r.load_rules.qual}),
        comps=True, handler_paths=False, max_depth=4)
    en = t.en
    F = W(w.node).split(':')[0]
    n_calls = 0
    res = {'top': None, 'sorted': None, 'dot': None, 'call': None}
    where = {}
    skipped = None

    def note(key, ok, detail, line):
        # one bad path is enough; a good verdict needs every path good
        cur = res[key]
        if cur is None or (cur[0] and not ok):
            res[key] = (ok, detail)
            where[key] = line

    def is_path(e):
        return isinstance(e, ast.Name) and e.id == path_p

    dot_seen = []

    def listing_of(p, name):
        """(kind, listing expr, sorted?, why) following NAME back."""
        cont, opaque = contents(p)
        sorted_ok, bad_order = False, None
        e = name
        for _ in range(8):
            e0 = resolve_elem(en, p, e)
            src = elem_source(en, e0) if isinstance(e0, ast.Name) else None
            if src is None:
                return 'unknown', e0, sorted_ok, bad_order
            inner, wr = strip_order(deref(en, src))
            for x in wr:
                if x.func.id == 'sorted':
                    if any(k.arg in ('key', 'reverse') for k in x.keywords):
                        bad_order = 'sorted with key=/reverse='
                    else:
                        sorted_ok = True
                elif x.func.id == 'reversed':
                    bad_order = 'reversed'
            inner = deref(en, inner) if isinstance(inner, ast.Name) and \
                not inner.id.startswith('SYM_m') else inner
            raw = strip_order(src)[0]
            # X.sort() before the loop
            for ev in p.events:
                if ev.kind == 'call' and method_call(ev.node, 'sort') and \
                        U(method_call(ev.node)[0]) in (U(raw), U(inner)):
                    if ev.node.args or any(
                            k.arg in ('key', 'reverse')
                            for k in ev.node.keywords):
                        bad_order = 'sort with key=/reverse='
                    else:
                        sorted_ok = True
            # for x in sorted(ACC) where ACC collected this very element
            # (a filtering generator / comprehension the engine has run)
            for ev in p.events:
                if ev.kind == 'iter' and isinstance(
                        ev.node, ast.Call) and isinstance(
                            ev.node.func, ast.Name) and ev.node.func.id in (
                                'sorted', 'reversed') and ev.node.args and \
                        isinstance(ev.node.args[0], ast.Name) and any(
                            not isinstance(it, tuple) and U(it) == U(e0)
                            for it in cont.get(ev.node.args[0].id, [])):
                    if ev.node.func.id == 'reversed':
                        bad_order = 'reversed'
                    elif any(k.arg in ('key', 'reverse')
                             for k in ev.node.keywords):
                        bad_order = 'sorted with key=/reverse='
                    else:
                        sorted_ok = True
            if isinstance(inner, (ast.GeneratorExp, ast.ListComp)) and len(
                    inner.generators) == 1 and U(inner.elt) == U(
                        inner.generators[0].target):
                # names filtered by a comprehension: note a dot filter and
                # go on with what it iterates
                g0 = inner.generators[0]
                for cnd in g0.ifs:
                    x = cnd
                    neg = False
                    while isinstance(x, ast.UnaryOp) and isinstance(
                            x.op, ast.Not):
                        x, neg = x.operand, not neg
                    if neg and isinstance(x, ast.Call) and method_call(
                            x, 'startswith') and x.args and is_const(
                                x.args[0], '.') and U(
                                    method_call(x)[0]) == U(g0.target):
                        dot_seen.append(True)
                fake = en.fresh(('elem', g0.iter), 'e')
                e = fake
                continue
            if isinstance(inner, ast.Name) and inner.id.startswith('SYM_m'):
                items = cont.get(inner.id, [])
                if len(items) == 1 and not isinstance(items[0], tuple):
                    e = items[0]
                    continue
                return 'unknown', inner, sorted_ok, bad_order
            x = en.expand(inner)
            if isinstance(x, ast.Subscript) and is_const(x.slice, 2) and \
                    isinstance(x.value, ast.Call) and U(
                        x.value.func) == 'next' and x.value.args and \
                    isinstance(x.value.args[0], ast.Call) and prog.resolve(
                        w.module, x.value.args[0].func) == 'ext:os.walk' \
                    and x.value.args[0].args and is_path(
                        x.value.args[0].args[0]):
                return 'top', x, sorted_ok, bad_order
            if isinstance(x, ast.Call) and prog.resolve(
                    w.module, x.func) in ('ext:os.listdir',) and x.args \
                    and is_path(x.args[0]):
                return 'listdir', x, sorted_ok, bad_order
            if any(isinstance(n, ast.Call) and prog.resolve(
                    w.module, n.func) == 'ext:os.walk'
                    for n in ast.walk(x)):
                return 'walk', x, sorted_ok, bad_order
            return 'unknown', x, sorted_ok, bad_order
        return 'unknown', e, sorted_ok, bad_order

    for p in t.paths:
        calls = [ev for ev in p.events if ev.kind == 'call' and isinstance(
            ev.node.func, ast.Name) and ev.node.func.id == func_p]
        dotc = []
        for c in p.conds:
            if c.kind != 'test':
                continue
            ce = en.expand(c.expr)
            if isinstance(ce, ast.Call) and method_call(ce, 'startswith') \
                    and ce.args and is_const(ce.args[0], '.'):
                dotc.append(c)
        if not calls:
            loops = [c for c in p.conds if c.kind == 'loop' and c.pol]
            # an entry that is a directory (or not a file) is not a file of
            # the directory
            not_a_file = any(
                c.kind == 'test' and isinstance(
                    en.expand(c.expr), ast.Call) and en.expand(
                        c.expr).args and not is_path(
                            en.expand(c.expr).args[0]) and (
                    (c.pol and prog.resolve(
                        w.module, en.expand(c.expr).func) ==
                     'ext:os.path.isdir') or
                    (not c.pol and prog.resolve(
                        w.module, en.expand(c.expr).func) ==
                     'ext:os.path.isfile')) for c in p.conds)
            if loops and p.outcome.kind != 'raise' and dotc and all(
                    not c.pol for c in dotc) and skipped is None and \
                    not not_a_file:
                skipped = p
            continue
        for lc in calls:
            n_calls += 1
            a = lc.node.args
            a0 = en.expand(a[0]) if a else None
            okc = isinstance(a0, ast.Call) and prog.resolve(
                w.module, a0.func) == 'ext:os.path.join' and len(
                    a0.args) == 2 and is_path(a0.args[0]) and len(a) == 2 \
                and isinstance(a[1], ast.Starred) and U(a[1].value) == va \
                and not lc.node.keywords
            note('call', bool(okc), 'each file is loaded as join(directory, '
                 'name) with the forwarded arguments' if okc else
                 'the walker does not call the loader with join(directory, '
                 'name) and the forwarded arguments (%s)' % U(lc.node)[:80],
                 lc.line)
            if not okc:
                continue
            raw_a0 = a[0]
            name = a0.args[1]
            # the unexpanded name keeps the element symbol
            raw = deref(en, raw_a0)
            if isinstance(raw, ast.Call) and len(raw.args) == 2:
                name = raw.args[1]
            del dot_seen[:]
            kind, lst, sorted_ok, bad_order = listing_of(p, name)
            filtered_in_comp = bool(dot_seen)
            if kind == 'top':
                note('top', True, 'lists the files of the top level only '
                     '(next(os.walk))', lc.line)
            elif kind == 'listdir':
                filt = any(c.kind == 'test' and isinstance(
                    en.expand(c.expr), ast.Call) and (
                        (c.pol and prog.resolve(
                            w.module, en.expand(c.expr).func) ==
                         'ext:os.path.isfile') or
                        (not c.pol and prog.resolve(
                            w.module, en.expand(c.expr).func) ==
                         'ext:os.path.isdir' and not is_path(
                             en.expand(c.expr).args[0])))
                    for c in p.conds)
                note('top', filt, 'lists the directory and keeps files only'
                     if filt else 'directory entries are not filtered to '
                     'files: sub-directories would be loaded as policy files',
                     lc.line)
            elif kind == 'walk':
                note('top', False, 'os.walk is iterated beyond the top '
                     'level: sub-directories are descended into', lc.line)
            else:
                note('top', False, 'cannot see how the directory is listed '
                     '(names come from %s)' % U(lst)[:60], lc.line)
            ok_sorted = sorted_ok and bad_order is None
            note('sorted', ok_sorted, 'file names are sorted (plain '
                 'lexicographic order) before they are applied' if ok_sorted
                 else 'files of a policy directory are not applied in plain '
                 'lexicographic name order (%s)' % (
                     bad_order or 'no sort'), lc.line)
            e0 = resolve_elem(en, p, name)
            ok_dot = False
            for c in dotc:
                ce = en.expand(c.expr)
                recv = method_call(ce)[0]
                rr = resolve_elem(en, p, recv)
                same = U(rr) == U(e0) or U(recv) == U(name)
                if not same:
                    # the filter ran on the listing the name was drawn from
                    k2, l2, _s, _b = listing_of(p, recv)
                    same = k2 == kind and U(l2) == U(lst)
                if same and not c.pol:
                    ok_dot = True
            ok_dot = ok_dot or filtered_in_comp
            note('dot', ok_dot, 'names starting with a dot are skipped'
                 if ok_dot else 'dot-files in a policy directory are applied '
                 'as policy files', lc.line)
    ctx.count(len(t.paths))
    ctx.floor('C09.WALK', n_calls, 1, 'loader calls in the walker')
    for key, construct in (('top', 'directory listing'),
                           ('sorted', 'iteration order'),
                           ('dot', 'dot-file filter'),
                           ('call', 'loader call')):
        if res[key] is None:
            res[key] = (False, 'not established on any path')
        ok, detail = res[key]
        ctx.ob('C09.WALK', ok, '%s:%d' % (F, where[key]) if key in where
               else W(w.node), w.qual, construct, detail)
    ctx.ob('C09.WALK', skipped is None, '%s:%d' % (F, skipped.outcome.line)
           if skipped else W(w.node), w.qual, 'every listed file is applied',
           'no listed, non-hidden file is left out' if skipped is None else
           'a file of the directory that is not hidden can be left out '
           '(path: %s)' % skipped.cond_text()[-200:])


def check_applied_whole(ctx):
    """What a file defines is what is applied: the loader hands the store
    parsed from the file to set_rules() as it is.  An entry taken out in
    between (a name that "only restates the default") lets an earlier
    layer's different definition survive a later file."""
    prog = ctx.prog
    r = roles(ctx)
    fns = [r.loader] + [g for n in walk_no_nested(r.loader.node)
                        if isinstance(n, ast.Call)
                        for g in [prog.callee_of(r.loader, n)]
                        if g is not None and g.cls is r.loader.cls
                        and g is not r.recorder and g is not r.load_rules
                        and g.name != 'set_rules']
    n = 0
    for f in fns:
        parsed = set()
        for a in walk_no_nested(f.node):
            if isinstance(a, ast.Assign) and len(a.targets) == 1 and \
                    isinstance(a.targets[0], ast.Name) and isinstance(
                        a.value, ast.Call) and (prog.resolve(
                            f.module, a.value.func) or '').startswith(
                                POLICY + '.Rules'):
                parsed.add(a.targets[0].id)
        if not parsed:
            continue
        n += 1
        bad = None
        for x in walk_no_nested(f.node):
            tgt = None
            if isinstance(x, ast.Delete):
                for d in x.targets:
                    if isinstance(d, ast.Subscript) and U(d.value) in parsed:
                        tgt = d
            elif isinstance(x, ast.Assign):
                for d in x.targets:
                    if isinstance(d, ast.Subscript) and U(d.value) in parsed:
                        tgt = d
            elif isinstance(x, ast.Call) and method_call(x) and U(
                    method_call(x)[0]) in parsed and method_call(x)[1] in (
                        'pop', 'popitem', 'clear', 'update', 'setdefault',
                        '__delitem__', '__setitem__'):
                tgt = x
            if tgt is not None and bad is None:
                bad = tgt
        ctx.ob('C09.ORDER', bad is None, ctx.where(f.module, bad or f.node),
               f.qual, 'parsed file rules %s' % sorted(parsed),
               'the rules parsed from a file are applied as parsed'
               if bad is None else
               'the store parsed from a policy file is changed before it is '
               'applied (`%s`): a file no longer overrides the layers '
               'before it with everything it defines' % U(bad)[:60])
    ctx.floor('C09.ORDER', n, 1, 'file-applying functions')


def soft_lookups(prog, r):
    """Functions that answer the located path, or None / a falsy value for a
    path the configuration's file search does not find, and never raise
    ConfigFilesNotFoundError: the lookup role itself when it has no raise,
    and one-line wrappers `try: return <lookup>(p) / except
    ConfigFilesNotFoundError: return None`."""
    out = set()
    g = r.get_path
    if not any(isinstance(x, ast.Raise) for x in ast.walk(g.node)):
        out.add(g.qual)
    for f in prog.functions.values():
        if f.module is not g.module or f is g:
            continue
        body = [b for b in f.node.body if not (
            isinstance(b, ast.Expr) and isinstance(b.value, ast.Constant))]
        if len(body) == 1 and isinstance(body[0], ast.Try) and len(
                body[0].body) == 1 and isinstance(
                    body[0].body[0], ast.Return) and isinstance(
                        body[0].body[0].value, ast.Call) and prog.callee_of(
                            f, body[0].body[0].value) is g and all(
                    'ConfigFilesNotFoundError' in U(h.type or '')
                    and len(h.body) == 1 and isinstance(
                        h.body[0], ast.Return) and (
                            h.body[0].value is None or is_const(
                                h.body[0].value, None))
                    for h in body[0].handlers) and not body[0].finalbody \
                and not body[0].orelse:
            out.add(f.qual)
    return out


def check_skip(ctx):
    prog = ctx.prog
    r = roles(ctx)
    n = 0
    softs = soft_lookups(prog, r)
    for lr in r.bodies:
        for c in walk_no_nested(lr.node):
            g = prog.callee_of(lr, c) if isinstance(c, ast.Call) else None
            if g is not None and g.qual in softs:
                n += 1
                ctx.ob('C09.SKIP', True, ctx.where(lr.module, c), lr.qual,
                       'lookup ' + U(c)[:70],
                       'the lookup answers None for a missing policy file / '
                       'directory instead of raising')
    for lr in r.bodies:
        pm = parent_map(lr.node)
        for c in walk_no_nested(lr.node):
            if not (isinstance(c, ast.Call)
                    and prog.callee_of(lr, c) is r.get_path
                    and r.get_path.qual not in softs):
                continue
            n += 1
            cur, anc, caught, reraises = c, pm.get(c), [], False
            while anc is not None:
                if isinstance(anc, ast.Try) and any(cur is b
                                                    for b in anc.body):
                    for h in anc.handlers:
                        caught += handler_names(prog, lr.module, h)
                        if any(isinstance(x, ast.Raise)
                               for x in ast.walk(h)):
                            reraises = True
                cur, anc = anc, pm.get(anc)
            ok = any(x.endswith('ConfigFilesNotFoundError') or x in (
                'builtin:Exception',) for x in caught) and not reraises
            ctx.ob('C09.SKIP', ok, ctx.where(lr.module, c), lr.qual,
                   'lookup ' + U(c)[:70],
                   'a missing policy file / directory is skipped' if ok else
                   'a missing policy file or directory makes load_rules '
                   'raise (the lookup is not guarded against '
                   'ConfigFilesNotFoundError, or the handler re-raises)')
    ctx.floor('C09.SKIP', n, 2, 'path lookups')


def check_lookup_helper(ctx):
    """The path lookup helper answers only with what the configuration's
    file search found; otherwise it raises ConfigFilesNotFoundError, which is
    how load_rules learns that a configured file / directory is missing."""
    prog = ctx.prog
    r = roles(ctx)
    g = r.get_path
    from ..dte import inline_helpers
    t = Table(prog, g, inline=inline_helpers(prog, modules={POLICY},
                                             classes=False), max_depth=3)
    W = ctx.where(g.module, g.node)
    bad = None
    n_ret = n_raise = 0
    for p in t.paths:
        if p.outcome.kind == 'raise':
            cls = t.raised_class(p) or ''
            if cls.endswith('ConfigFilesNotFoundError'):
                n_raise += 1
            continue
        if p.outcome.kind != 'return' or p.outcome.expr is None:
            bad = bad or (p, 'can return None')
            continue
        n_ret += 1
        e = p.outcome.expr
        d = t.en.defs.get(e.id) if isinstance(e, ast.Name) else None
        found = isinstance(d, ast.Call) and method_call(d, 'find_file')
        tested = any(c.kind == 'test' and c.pol and isinstance(
            c.expr, ast.Name) and isinstance(e, ast.Name)
            and c.expr.id == e.id for c in p.conds)
        if not (found and tested):
            bad = bad or (p, 'returns %s, which is not a path the '
                          'configuration\'s file search found' % U(
                              t.expand(e))[:60])
    if g.qual in soft_lookups(prog, r):
        # the None-answering form: every return is the file search's answer
        # (or None in its place)
        bad = None
        for p in t.paths:
            e = t.expand(p.outcome.expr) if p.outcome.kind == 'return' and \
                p.outcome.expr is not None else None
            parts = e.values if isinstance(e, ast.BoolOp) and isinstance(
                e.op, ast.Or) else [e]
            okp = e is not None and isinstance(parts[0], ast.Call) and \
                method_call(parts[0], 'find_file') and all(
                    is_const(x, None) for x in parts[1:])
            if not okp:
                bad = bad or (p, 'returns %s' % (
                    U(e)[:60] if e is not None else None))
        ctx.ob('C09.SKIP', bad is None, W, g.qual,
               'path lookup (None-answering form, %d paths)' % len(t.paths),
               'answers with what the configuration\'s file search found, '
               'None otherwise' if bad is None else
               'the path lookup %s, which is not the answer of the '
               'configuration\'s file search' % bad[1])
        return
    ok = bad is None and n_ret > 0 and n_raise > 0
    ctx.ob('C09.SKIP', ok, '%s:%d' % (W.split(':')[0], bad[0].outcome.line)
           if bad else W, g.qual,
           'path lookup (%d found / %d not-found paths)' % (n_ret, n_raise),
           'answers with the located path or raises '
           'ConfigFilesNotFoundError' if ok else
           'the path lookup %s: a configured file or directory that does '
           'not exist is no longer reported as missing, so it is not '
           'skipped' % (bad[1] if bad else 'never raises '
                        'ConfigFilesNotFoundError' if not n_raise
                        else 'never returns'))


def check_opts(ctx):
    prog = ctx.prog
    o = prog.options()
    m = prog.module(PKG + '.opts')
    pf = o.get('policy_file')
    ok = pf is not None and is_const(pf['default'], 'policy.yaml')
    ctx.ob('C09.OPTS', ok, ctx.where(m, pf['node'] if pf else None),
           PKG + '.opts._options', 'option policy_file',
           "defaults to 'policy.yaml'" if ok else
           "option policy_file does not default to 'policy.yaml'")
    pd = o.get('policy_dirs')
    ok = pd is not None and isinstance(pd['default'], ast.List) and [
        x.value for x in pd['default'].elts
        if isinstance(x, ast.Constant)] == ['policy.d'] and \
        pd['type'] == 'ext:oslo_config.cfg.MultiStrOpt'
    ctx.ob('C09.OPTS', ok, ctx.where(m, pd['node'] if pd else None),
           PKG + '.opts._options', 'option policy_dirs',
           "multi-string defaulting to ['policy.d']" if ok else
           "option policy_dirs is not a multi-string defaulting to "
           "['policy.d']")


def check_parse(ctx):
    prog = ctx.prog
    f = prog.func(POLICY + '.parse_file_contents')
    from ..dte import inline_helpers
    t = Table(prog, f, inline=inline_helpers(prog, modules={POLICY},
                                             classes=False))
    W = ctx.where(f.module, f.node)
    data_p = f.params[0]
    json_first = yaml_fallback = reraises = empty = False
    for p in t.paths:
        calls = [(e.kind, prog.resolve(t.module_of(e.frame), e.node.func))
                 for e in p.events if e.kind in ('call', 'maycall')]
        excs = [str(c.expr.value) for c in p.conds if c.kind == 'exc']
        names = [c for _, c in calls]
        if p.outcome.kind == 'return':
            e = t.expand(p.outcome.expr)
            if isinstance(e, ast.BoolOp) and isinstance(e.op, ast.Or) and \
                    isinstance(e.values[-1], ast.Dict) and not \
                    e.values[-1].keys:
                empty = True
            dec = [x for x in names if x and x.endswith(
                ('jsonutils.loads', 'json.loads', 'yaml.safe_load',
                 'yaml.load'))]
            if not excs and dec and dec[0].endswith(('jsonutils.loads',
                                                      'json.loads')):
                json_first = True
            if excs and 'ValueError' in excs[0] and any(
                    n and n.endswith('yaml.safe_load') for k, n in calls
                    if k == 'call'):
                yaml_fallback = True
        if p.outcome.kind == 'raise' and t.raised_class(p) == \
                'builtin:ValueError' and any('YAMLError' in x for x in excs):
            reraises = True
    ctx.ob('C09.PARSE', json_first, W, f.qual, 'JSON first',
           'file contents are tried as JSON first' if json_first else
           'file contents are not parsed as JSON first')
    ctx.ob('C09.PARSE', yaml_fallback, W, f.qual, 'YAML on ValueError',
           'anything that is not JSON is parsed as YAML' if yaml_fallback
           else 'non-JSON contents are not parsed with yaml.safe_load')
    ctx.ob('C09.PARSE', reraises, W, f.qual, 'YAML error -> ValueError',
           'a YAML error surfaces as ValueError' if reraises else
           'a YAML error is not converted to ValueError')
    ctx.ob('C09.PARSE', empty, W, f.qual, 'empty file',
           'an empty document is an empty mapping' if empty else
           'an empty document is not turned into an empty mapping')


def check(ctx):
    ctx.use(POLICY, PKG + '.opts')
    ctx.explain('C09: decision-table extraction of the policy-file choice '
                '(64 rows); event-order analysis over every path of '
                'load_rules (main file < directories < default merge; merge '
                'only for absent names); structural rules on the directory '
                'walker, the load modes, skipped lookups, option defaults '
                'and the two-stage file parser.')
    ctx.assume('JSON/YAML spelling equivalence is a property of PyYAML/json')
    ctx.assume('oslo.config find_file / get_location semantics are trusted')
    pick = check_pick(ctx)
    check_file_src(ctx, pick)
    check_order(ctx)
    check_applied_whole(ctx)
    check_find(ctx)
    check_dirs(ctx)
    check_walker(ctx)
    check_skip(ctx)
    check_lookup_helper(ctx)
    check_opts(ctx)
    check_parse(ctx)
    # the file's layer is what the file says *now*: the loader applies what
    # it read unless the cache says the file has not changed (= C10.PAIR)
    from . import c10
    ctx.borrow('C09.MODES', c10.check_pair, only=['C10.PAIR'])

"""C14 - evaluating a rule never crashes; what cannot be evaluated denies
(handler coverage against a may-raise model)."""
import ast

from .. import PKG
from ..model import AnalysisError
from ..paths import exc_subclass
from ..util import (U, is_const, method_call, parent_map, walk_no_nested,
                    handler_names)

CHECKS = PKG + '._checks'
POLICY = PKG + '.policy'

ORDINARY = 'ordinary'
RESOURCE = 'resource'

# may-raise table (frozen; sources in DESIGN.md section 3, C14)
LITERAL_EVAL = {'builtin:ValueError': ORDINARY, 'builtin:TypeError': ORDINARY,
                'builtin:SyntaxError': ORDINARY,
                'builtin:MemoryError': RESOURCE,
                'builtin:RecursionError': RESOURCE,
                # not in the documented list, observed on CPython 3.12:
                # literal_eval('1' + '0' * 400 + '+1j') -> "int too large to
                # convert to float" (a huge int literal added to a complex)
                'builtin:OverflowError': ORDINARY}


def region_functions(prog):
    """__call__ of every built-in local check + _check + their helpers."""
    base = CHECKS + '.BaseCheck'
    anchors = [prog.func(CHECKS + '._check')]
    for q in prog.subclasses(base):
        c = prog.classes[q]
        if c.module.name != CHECKS:
            continue
        f = c.methods.get('__call__')
        if f is not None and q != base:
            anchors.append(f)
    region = {}
    for a in anchors:
        for q, f in prog.region(a).items():
            if f.module.name == CHECKS and f.name not in ('__init__',
                                                          '__str__'):
                region[q] = f
    return region, anchors


def covering_handlers(prog, f, pm, node):
    """[(handler, names)] of try statements whose body contains node."""
    out = []
    cur = node
    anc = pm.get(node)
    while anc is not None and anc is not f.node:
        if isinstance(anc, ast.Try) and any(cur is b for b in anc.body):
            for h in anc.handlers:
                out.append((h, handler_names(prog, f.module, h)))
        cur = anc
        anc = pm.get(anc)
    return out


def catches(names, exc):
    for n in names:
        if n == exc or exc_subclass(exc, n) or n in ('builtin:Exception',
                                                     'builtin:BaseException'):
            if n == 'builtin:Exception' and exc in ('builtin:MemoryError',
                                                    'builtin:RecursionError',
                                                    ):
                return True
            return True
    return False


def handler_denies(h):
    """No raise in the handler; every return is a falsy constant."""
    for n in ast.walk(h):
        if isinstance(n, ast.Raise):
            return False, 're-raises'
        if isinstance(n, ast.Return):
            if not (n.value is None or (isinstance(n.value, ast.Constant)
                                        and not n.value.value)):
                return False, 'returns %s' % U(n.value)
    return True, ''


def dominated_by_membership(f, pm, node, key_text, mapping_text):
    """Is node inside the true-branch of `key in mapping`?"""
    cur = node
    anc = pm.get(node)
    while anc is not None:
        if isinstance(anc, ast.If) and any(cur is b for b in anc.body):
            for c in ast.walk(anc.test):
                if isinstance(c, ast.Compare) and len(c.ops) == 1 and \
                        isinstance(c.ops[0], ast.In) and U(
                            c.left) == key_text and U(
                                c.comparators[0]) == mapping_text:
                    # must be a conjunct, not under `not`/`or`
                    t = anc.test
                    if t is c or (isinstance(t, ast.BoolOp) and isinstance(
                            t.op, ast.And) and any(v is c
                                                   for v in t.values)):
                        return True
        if isinstance(anc, ast.IfExp) and cur is anc.body:
            c = anc.test
            if isinstance(c, ast.Compare) and isinstance(
                    c.ops[0], ast.In) and U(c.left) == key_text and U(
                        c.comparators[0]) == mapping_text:
                return True
        cur = anc
        anc = pm.get(anc)
    return False


def _length_guarded(f, sub):
    """Is `X[k]` preceded, in the function, by a statement that leaves
    when X is empty (`if len(X) == 0: return`, `if not X: return`)?"""
    name = sub.value.id
    for st in walk_no_nested(f.node):
        if isinstance(st, ast.If) and st.lineno < sub.lineno and st.body \
                and isinstance(st.body[-1], (ast.Return, ast.Raise,
                                             ast.Continue)):
            t = U(st.test).replace(' ', '')
            if t in ('len(%s)==0' % name, 'not%s' % name,
                     'len(%s)<1' % name, '0==len(%s)' % name,
                     '%s==[]' % name, 'notlen(%s)' % name):
                return True
    return False


def sites_of(prog, f, miss_raises):
    """[(node, description, {exc: class})] raising operation sites."""
    out = []
    prm = f.params
    proto = set()
    if f.name == '__call__' and len(prm) >= 4:
        proto = {prm[1], prm[2]}          # target, creds
    elif f.qual == CHECKS + '._check':
        proto = set()
    for n in walk_no_nested(f.node):
        if isinstance(n, ast.BinOp) and isinstance(n.op, ast.Mod):
            lt = U(n.left)
            if 'self.match' in lt and not isinstance(n.left, ast.Constant):
                out.append((n, 'placeholder substitution %s' % U(n)[:50],
                            {'builtin:KeyError': ORDINARY}))
        elif isinstance(n, ast.Call) and prog.resolve(
                f.module, n.func) == 'ext:ast.literal_eval':
            out.append((n, 'ast.literal_eval(%s)' % U(n.args[0])[:30],
                        dict(LITERAL_EVAL)))
        elif isinstance(n, ast.Subscript) and isinstance(n.ctx, ast.Load):
            if isinstance(n.slice, ast.Slice):
                continue
            if isinstance(n.slice, ast.Constant) and isinstance(
                    n.slice.value, int):
                if isinstance(n.value, ast.Name) and n.value.id in prm \
                        and n.value.id != 'self' and not \
                        _length_guarded(f, n):
                    out.append((n, 'element %s of a possibly empty sequence'
                                % U(n)[:40], {'builtin:IndexError':
                                              ORDINARY}))
                continue
            base = n.value
            bt = U(base)
            if bt.endswith('.rules') and isinstance(base, ast.Attribute) \
                    and isinstance(base.value, ast.Name) and \
                    base.value.id in prm:
                out.append((n, 'rule-store lookup %s' % U(n)[:50],
                            {r: ORDINARY for r in miss_raises}))
            elif isinstance(base, ast.Name) and base.id in proto:
                out.append((n, 'protocol mapping subscript %s' % U(n)[:50],
                            {'builtin:KeyError': ORDINARY}))
            elif isinstance(base, ast.Name) and base.id != 'self':
                out.append((n, 'subscript of a JSON value %s' % U(n)[:50],
                            {'builtin:KeyError': ORDINARY,
                             'builtin:TypeError': ORDINARY}))
    return out


def check(ctx):
    prog = ctx.prog
    ctx.use(CHECKS, POLICY)
    ctx.explain('C14: for every raising operation site in the evaluation '
                'region of the built-in local checks the frozen may-raise '
                'set (template %, ast.literal_eval, subscripts of JSON '
                'values and protocol mappings, rule-store lookup) must be '
                'covered by an enclosing handler in the region whose paths '
                'deny; a site in a helper may be covered at every call site '
                'instead.')
    ctx.assume('templates contain only well-formed %(name)s placeholders')
    ctx.assume('roles is a list of strings; target/creds are mappings of '
               'JSON values (the property\'s quantifier)')
    ctx.assume('constant integer indices and slices are on lists produced '
               'by str.split and guarded by length tests')
    ctx.trust('may-raise table (CPython docs for ast.literal_eval; language '
              'semantics of subscription)')
    region, anchors = region_functions(prog)
    miss = prog.func(POLICY + '.Rules.__missing__')
    miss_raises = set()
    for n in walk_no_nested(miss.node):
        if isinstance(n, ast.Raise) and n.exc is not None:
            c = n.exc.func if isinstance(n.exc, ast.Call) else n.exc
            miss_raises.add(prog.resolve(miss.module, c))
    nsites = 0
    for q, f in sorted(region.items()):
        pm = parent_map(f.node)
        for node, desc, may in sites_of(prog, f, miss_raises):
            nsites += 1
            hs = covering_handlers(prog, f, pm, node)
            # protocol-mapping subscripts: a membership guard removes KeyError
            if desc.startswith('protocol mapping'):
                if dominated_by_membership(f, pm, node, U(node.slice),
                                           U(node.value)):
                    ctx.ob('C14.COVER', True, ctx.where(f.module, node),
                           f.qual, desc, 'guarded by a presence test of the '
                           'same key in the same mapping')
                    continue
            uncovered = []
            bad_handler = None
            for exc, klass in sorted(may.items()):
                hit = [(h, names) for h, names in hs if catches(names, exc)]
                if not hit:
                    uncovered.append((exc, klass))
                    continue
                ok, why = handler_denies(hit[0][0])
                if not ok:
                    bad_handler = (hit[0][0], why)
            if uncovered:
                # a site in a helper may be covered by every caller
                callers = []
                for g in region.values():
                    gpm = None
                    for c in walk_no_nested(g.node):
                        if isinstance(c, ast.Call) and prog.callee_of(
                                g, c) is f and g is not f:
                            gpm = gpm or parent_map(g.node)
                            callers.append((g, c, gpm))
                if callers and f not in anchors:
                    still = []
                    for exc, klass in uncovered:
                        if not all(any(catches(names, exc) for h, names in
                                       covering_handlers(prog, g, gpm, c))
                                   for g, c, gpm in callers):
                            still.append((exc, klass))
                    uncovered = still
            ordinary = [e for e, k in uncovered if k == ORDINARY]
            resource = [e for e, k in uncovered if k == RESOURCE]
            ok = not ordinary and bad_handler is None
            short = lambda xs: [x.split(':')[-1] for x in xs]
            if ok:
                detail = 'may raise %s: all covered by a denying handler' % (
                    short(sorted(may)))
                if resource:
                    detail += ' (resource-class %s left to propagate)' % \
                        short(resource)
            elif bad_handler is not None:
                detail = 'the handler at line %d %s instead of denying' % (
                    bad_handler[0].lineno, bad_handler[1])
            else:
                detail = '%s can raise %s, which no enclosing handler in ' \
                    'the evaluation region catches (caught: %s): the ' \
                    'request fails instead of being denied' % (
                        desc, short(ordinary), short(sorted(
                            {n for h, ns in hs for n in ns})))
            ctx.ob('C14.COVER', ok, ctx.where(f.module, node), f.qual, desc,
                   detail, witness=None if ok else {
                       'uncaught': short(ordinary)})
    ctx.floor('C14.COVER', nsites, 5, 'raising operation sites')
    ctx.extra['region'] = sorted(region)
    # C14.SURFACE = C07.SURFACE
    from . import c07
    before = len(ctx.findings)
    nob = len(ctx.obligations)
    c07.check_raise_args(ctx)
    for fd in ctx.findings[before:]:
        fd.rule = fd.rule.replace('C07.', 'C14.')
    for o in ctx.obligations[nob:]:
        o['rule'] = o['rule'].replace('C07.', 'C14.')
    # ... including the documented InvalidContextObject for credentials that
    # are neither a context nor a mutable mapping (= C08.CREDS)
    from . import c08
    before, nob = len(ctx.findings), len(ctx.obligations)
    c08.check_creds(ctx)
    for fd in ctx.findings[before:]:
        fd.rule = 'C14.SURFACE(' + fd.rule + ')'
    for o in ctx.obligations[nob:]:
        o['rule'] = 'C14.SURFACE(' + o['rule'] + ')'

"""C14 - evaluating a rule never crashes; what cannot be evaluated denies
(handler coverage against a may-raise model)."""
import ast

from .. import PKG
from ..model import AnalysisError
from ..paths import exc_subclass
from ..util import (U, is_const, method_call, parent_map, walk_no_nested,
                    handler_names)

CHECKS = PKG + '._checks'
POLICY = PKG + '.policy'

ORDINARY = 'ordinary'
RESOURCE = 'resource'

# may-raise table (frozen; sources in DESIGN.md section 3, C14)
LITERAL_EVAL = {'builtin:ValueError': ORDINARY, 'builtin:TypeError': ORDINARY,
                'builtin:SyntaxError': ORDINARY,
                'builtin:MemoryError': RESOURCE,
                'builtin:RecursionError': RESOURCE,
                # not in the documented list, observed on CPython 3.12:
                # literal_eval('1' + '0' * 400 + '+1j') -> "int too large to
                # convert to float" (a huge int literal added to a complex)
                'builtin:OverflowError': ORDINARY}
# str() / repr() of an evaluated literal: ValueError for an int beyond the
# integer string conversion length limit (CPython >= 3.11, default 4300
# digits; literal_eval itself accepts hexadecimal literals of any length)


def region_functions(prog):
    """__call__ of every built-in local check + _check + their helpers."""
    base = CHECKS + '.BaseCheck'
    anchors = [prog.func(CHECKS + '._check')]
    for q in prog.subclasses(base):
        c = prog.classes[q]
        if c.module.name != CHECKS:
            continue
        f = c.methods.get('__call__')
        if f is not None and q != base:
            anchors.append(f)
    region = {}
    for a in anchors:
        for q, f in prog.region(a).items():
            if f.module.name == CHECKS and f.name not in ('__init__',
                                                          '__str__'):
                region[q] = f
    return region, anchors


def covering_handlers(prog, f, pm, node):
    """[(handler, names)] of try statements whose body contains node."""
    out = []
    cur = node
    anc = pm.get(node)
    while anc is not None and anc is not f.node:
        if isinstance(anc, ast.Try) and any(cur is b for b in anc.body):
            for h in anc.handlers:
                out.append((h, handler_names(prog, f.module, h, f.cls)))
        cur = anc
        anc = pm.get(anc)
    # a decorator of the program whose wrapper calls the function inside a
    # try: its handlers cover every site of the function
    w = prog.wrapper_of(f)
    if w is not None:
        wnode, pname = w[0], w[1]
        for t in ast.walk(wnode):
            if isinstance(t, ast.Try) and any(
                    isinstance(c, ast.Call) and isinstance(c.func, ast.Name)
                    and c.func.id == pname
                    for b in t.body for c in ast.walk(b)):
                for h in t.handlers:
                    h2 = h
                    if len(w) > 2 and isinstance(h.type, ast.Name) and \
                            h.type.id in w[2]:
                        # the factory's parameter as written at the site
                        import copy
                        h2 = copy.copy(h)
                        h2.type = w[2][h.type.id]
                    out.append((h, handler_names(prog, f.module, h2, None)))
    return out


def catches(names, exc):
    for n in names:
        if n == exc or exc_subclass(exc, n) or n in ('builtin:Exception',
                                                     'builtin:BaseException'):
            if n == 'builtin:Exception' and exc in ('builtin:MemoryError',
                                                    'builtin:RecursionError',
                                                    ):
                return True
            return True
    return False


def handler_denies(h, prog=None, f=None, region=None):
    """No raise in the handler; every return is a falsy constant - or the
    result of another function of the evaluation region (whose own sites
    are covered in their own right)."""
    for n in ast.walk(h):
        if isinstance(n, ast.Raise):
            return False, 're-raises'
        if isinstance(n, ast.Return):
            if n.value is None or (isinstance(n.value, ast.Constant)
                                   and not n.value.value):
                continue
            if isinstance(n.value, (ast.Tuple, ast.List, ast.Set)) and \
                    not n.value.elts or (isinstance(n.value, ast.Dict)
                                         and not n.value.keys):
                continue        # an empty display is falsy as well
            if prog is not None and isinstance(n.value, ast.Call):
                g = prog.callee_of(f, n.value)
                if g is not None and region is not None and \
                        g.qual in region:
                    continue
            # a helper may answer with a marker its callers turn into a
            # denial: judge the handler by the paths of those callers
            if prog is not None and f is not None and region is not None:
                callers = [g for g in region.values() if g is not f and any(
                    h2 is f for _n, h2 in prog.callees(g))]
                if callers:
                    for g in callers:
                        ok, why = _exits_after_handler_deny(
                            prog, g, h, region, through=f)
                        if not ok:
                            return False, 'returns %s, and its caller %s ' \
                                '%s' % (U(n.value), g.name, why)
                    continue
            return False, 'returns %s' % U(n.value)
    if prog is not None and f is not None and _falls_through(h):
        return _exits_after_handler_deny(prog, f, h, region)
    return True, ''


def _falls_through(h):
    """The handler body can complete without returning (it passes, logs,
    assigns, breaks or continues): what is answered then is decided by the
    code that runs after it."""
    last = h.body[-1] if h.body else None
    if isinstance(last, (ast.Return, ast.Raise)):
        # ... unless an earlier statement already leaves a loop
        return any(isinstance(n, (ast.Break, ast.Continue))
                   for b in h.body for n in ast.walk(b))
    return True


_TABLES = {}


def _exits_after_handler_deny(prog, f, h, region, through=None):
    """Every path of f through handler h ends in a falsy constant, or in the
    answer of another function of the evaluation region (an attempt that
    failed, followed by the next way of evaluating the same check)."""
    from ..dte import Table
    key = (id(prog), f.qual, through.qual if through else None)
    t = _TABLES.get(key)
    if t is None:
        try:
            inl = None
            if through is not None:
                def inl(call, frame, through=through):
                    g = prog.callee_of(frame, call)
                    return g if g is through else None
            t = Table(prog, f, handler_paths=True, inline=inl)
        except Exception as e:          # path explosion and the like
            raise AnalysisError('paths of %s not enumerable: %s' % (f.qual,
                                                                   e))
        _TABLES[key] = t
    mine = [p for p in t.paths if any(
        c.kind == 'exc' and c.line == h.lineno for c in p.conds)]
    if not mine:
        if through is not None:
            return False, 'has no readable path through that handler'
        return True, ''
    for p in mine:
        if p.outcome.kind == 'raise':
            return False, 'leads to a raise (line %d)' % p.outcome.line
        if p.outcome.kind != 'return' or p.outcome.expr is None:
            continue                    # None: falsy
        e = t.expand(p.outcome.expr)
        if isinstance(e, ast.Constant) and not e.value:
            continue
        if isinstance(e, (ast.Tuple, ast.List, ast.Set)) and not e.elts:
            continue
        if isinstance(e, ast.Call):
            g = prog.callee_of(f, e)
            if g is not None and region is not None and g.qual in region \
                    and g is not f:
                continue
        return False, 'is followed by `return %s` (line %d): the check ' \
            'that could not be evaluated is answered by a computed value' % (
                U(e)[:60], p.outcome.line)
    return True, ''


def _is_membership(c, key_text, mapping_text):
    return isinstance(c, ast.Compare) and len(c.ops) == 1 and isinstance(
        c.ops[0], ast.In) and U(c.left) == key_text and U(
            c.comparators[0]) == mapping_text


def _is_absence(t, key_text, mapping_text):
    """`key not in mapping` / `not (key in mapping)`"""
    if isinstance(t, ast.Compare) and len(t.ops) == 1 and isinstance(
            t.ops[0], ast.NotIn) and U(t.left) == key_text and U(
                t.comparators[0]) == mapping_text:
        return True
    return isinstance(t, ast.UnaryOp) and isinstance(t.op, ast.Not) and \
        _is_membership(t.operand, key_text, mapping_text)


def dominated_by_membership(f, pm, node, key_text, mapping_text):
    """Is node reached only after `key in mapping` held?  Recognised: the
    true-branch of the test (if / conditional expression / a later operand
    of `and`), the false-branch of the absence test, and code after an
    `if key not in mapping:` block that leaves."""
    cur = node
    anc = pm.get(node)
    while anc is not None:
        if isinstance(anc, ast.If) and any(cur is b for b in anc.body):
            t = anc.test
            conj = t.values if isinstance(t, ast.BoolOp) and isinstance(
                t.op, ast.And) else [t]
            if any(_is_membership(v, key_text, mapping_text) for v in conj):
                return True
        if isinstance(anc, ast.If) and any(cur is b for b in anc.orelse) \
                and _is_absence(anc.test, key_text, mapping_text):
            return True
        if isinstance(anc, ast.IfExp) and cur is anc.body and \
                _is_membership(anc.test, key_text, mapping_text):
            return True
        if isinstance(anc, ast.IfExp) and cur is anc.orelse and \
                _is_absence(anc.test, key_text, mapping_text):
            return True
        if isinstance(anc, ast.BoolOp) and isinstance(anc.op, ast.And):
            idx = [i for i, v in enumerate(anc.values) if v is cur]
            if idx and any(_is_membership(v, key_text, mapping_text)
                           for v in anc.values[:idx[0]]):
                return True
        if isinstance(anc, ast.BoolOp) and isinstance(anc.op, ast.Or):
            idx = [i for i, v in enumerate(anc.values) if v is cur]
            if idx and any(_is_absence(v, key_text, mapping_text)
                           for v in anc.values[:idx[0]]):
                return True
        # an earlier statement of an enclosing block leaves when absent
        for fld in ('body', 'orelse', 'finalbody'):
            blk = getattr(anc, fld, None)
            if isinstance(blk, list) and any(cur is b for b in blk):
                i = [k for k, b in enumerate(blk) if b is cur][0]
                for st in blk[:i]:
                    if isinstance(st, ast.If) and not st.orelse and \
                            st.body and isinstance(
                                st.body[-1], (ast.Return, ast.Raise,
                                              ast.Continue, ast.Break)):
                        t = st.test
                        disj = t.values if isinstance(
                            t, ast.BoolOp) and isinstance(t.op, ast.Or) \
                            else [t]
                        if any(_is_absence(v, key_text, mapping_text)
                               for v in disj):
                            return True
        cur = anc
        anc = pm.get(anc)
    return False


def _length_guarded(f, sub):
    """Is `X[k]` preceded, in the function, by a statement that leaves
    when X is empty (`if len(X) == 0: return`, `if not X: return`)?"""
    name = sub.value.id
    for st in walk_no_nested(f.node):
        if isinstance(st, ast.If) and st.lineno < sub.lineno and st.body \
                and isinstance(st.body[-1], (ast.Return, ast.Raise,
                                             ast.Continue)):
            t = U(st.test).replace(' ', '')
            if t in ('len(%s)==0' % name, 'not%s' % name,
                     'len(%s)<1' % name, '0==len(%s)' % name,
                     '%s==[]' % name, 'notlen(%s)' % name):
                return True
        # ... or is it the first thing done in a loop (or branch) that runs
        # only while X is non-empty
        if isinstance(st, (ast.While, ast.If)) and st.body and any(
                n is sub for n in ast.walk(st.body[0])):
            t = U(st.test).replace(' ', '')
            if t in ('len(%s)>0' % name, name, 'len(%s)>=1' % name,
                     'len(%s)!=0' % name, 'len(%s)' % name,
                     '0<len(%s)' % name, '%s!=[]' % name):
                return True
    return False


def protocol_params(prog, region):
    """{function qual: names bound to the target / credentials mappings}:
    the 2nd and 3rd parameter of every __call__, and helper parameters that
    every call site in the region binds to such a name."""
    proto = {}
    for q, f in region.items():
        prm = f.params
        if f.name == '__call__' and len(prm) >= 4:
            proto[q] = {prm[1], prm[2]}
        else:
            proto[q] = set()
    changed = True
    while changed:
        changed = False
        for q, g in region.items():
            if g.name == '__call__':
                continue
            sites = []
            for h in region.values():
                for c in walk_no_nested(h.node):
                    if isinstance(c, ast.Call) and prog.callee_of(h, c) is g:
                        sites.append((h, c))
            if not sites:
                continue
            gp = g.params
            if g.cls is not None and not g.is_static:
                gp = gp[1:]
            for i, pn in enumerate(gp):
                if pn in proto[q]:
                    continue
                ok = True
                for h, c in sites:
                    a = c.args[i] if i < len(c.args) else None
                    for k in c.keywords:
                        if k.arg == pn:
                            a = k.value
                    if not (isinstance(a, ast.Name) and a.id in proto[h.qual]):
                        ok = False
                if ok:
                    proto[q].add(pn)
                    changed = True
    return proto


STR_METHODS = ('lower', 'upper', 'casefold', 'split', 'strip', 'lstrip',
               'rstrip', 'startswith', 'endswith', 'format', 'replace',
               'encode', 'join', 'partition', 'rpartition', 'title')


def returns_raw(prog, region, protos):
    """Functions of the region that can return a raw element of a protocol
    mapping (`target[...]`), not converted with str()."""
    out = set()
    for q, g in region.items():
        pr = protos.get(q, set())
        for n in walk_no_nested(g.node):
            if isinstance(n, ast.Return) and isinstance(
                    n.value, ast.Subscript) and isinstance(
                        n.value.value, ast.Name) and n.value.value.id in pr:
                out.add(q)
    return out


def raw_value_sites(prog, f, proto, raw_fns):
    """String-method calls on a raw JSON value (a subscript of a protocol
    mapping, or the result of a helper returning one)."""
    raw = set()

    def is_raw(e):
        if isinstance(e, ast.Subscript) and isinstance(e.value, ast.Name) \
                and e.value.id in proto and not isinstance(e.slice,
                                                           ast.Slice):
            return True
        if isinstance(e, ast.Call):
            g = prog.callee_of(f, e)
            if g is not None and g.qual in raw_fns:
                return True
        return isinstance(e, ast.Name) and e.id in raw
    changed = True
    while changed:
        changed = False
        for n in walk_no_nested(f.node):
            if isinstance(n, ast.Assign) and is_raw(n.value):
                for t in n.targets:
                    if isinstance(t, ast.Name) and t.id not in raw:
                        raw.add(t.id)
                        changed = True
    out = []
    for n in walk_no_nested(f.node):
        if isinstance(n, ast.Call) and isinstance(n.func, ast.Attribute) \
                and n.func.attr in STR_METHODS and is_raw(n.func.value):
            out.append((n, 'string method on a JSON value %s' % U(n)[:50],
                        {'builtin:AttributeError': ORDINARY}))
    return out


def sites_of(prog, f, miss_raises, proto=frozenset()):
    """[(node, description, {exc: class})] raising operation sites."""
    out = []
    prm = f.params
    ann = set()
    for a in ast.walk(f.node.args):
        if isinstance(a, ast.arg) and a.annotation is not None:
            ann |= {id(x) for x in ast.walk(a.annotation)}
    if f.node.returns is not None:
        ann |= {id(x) for x in ast.walk(f.node.returns)}
    for a in walk_no_nested(f.node):
        if isinstance(a, ast.AnnAssign):
            ann |= {id(x) for x in ast.walk(a.annotation)}
    # names holding what ast.literal_eval produced
    lit_names = set()
    for n in walk_no_nested(f.node):
        if isinstance(n, (ast.Assign, ast.AnnAssign, ast.NamedExpr)) and \
                isinstance(n.value, ast.Call) and prog.resolve(
                    f.module, n.value.func) == 'ext:ast.literal_eval':
            tg = n.targets if isinstance(n, ast.Assign) else [n.target]
            lit_names |= {t.id for t in tg if isinstance(t, ast.Name)}

    def from_literal(e):
        return (isinstance(e, ast.Name) and e.id in lit_names) or (
            isinstance(e, ast.Call) and prog.resolve(
                f.module, e.func) == 'ext:ast.literal_eval')
    for n in walk_no_nested(f.node):
        if id(n) in ann:
            continue
        if isinstance(n, ast.Call) and isinstance(n.func, ast.Name) and \
                n.func.id in ('str', 'repr', 'format') and n.args and \
                from_literal(n.args[0]) and prog.resolve(
                    f.module, n.func) in ('builtin:str', 'builtin:repr',
                                          'builtin:format'):
            # an int literal of more than sys.get_int_max_str_digits()
            # digits evaluates, but its conversion back to text raises
            out.append((n, 'text of an evaluated literal %s' % U(n)[:40],
                        {'builtin:ValueError': ORDINARY}))
        if isinstance(n, ast.BinOp) and isinstance(n.op, ast.Mod):
            lt = U(n.left)
            if 'self.match' in lt and not isinstance(n.left, ast.Constant):
                out.append((n, 'placeholder substitution %s' % U(n)[:50],
                            {'builtin:KeyError': ORDINARY}))
        elif isinstance(n, ast.Call) and prog.resolve(
                f.module, n.func) == 'ext:ast.literal_eval':
            out.append((n, 'ast.literal_eval(%s)' % U(n.args[0])[:30],
                        dict(LITERAL_EVAL)))
        elif isinstance(n, ast.Call) and (prog.resolve(
                f.module, n.func) or '') in (
                    'ext:hmac.compare_digest',
                    'ext:secrets.compare_digest'):
            # documented: both arguments str (ASCII only) or bytes-like;
            # TypeError otherwise - a non-ASCII policy or credential text
            out.append((n, 'constant-time comparison %s' % U(n)[:50],
                        {'builtin:TypeError': ORDINARY}))
        elif isinstance(n, ast.Subscript) and isinstance(n.ctx, ast.Load):
            if isinstance(n.slice, ast.Slice):
                continue
            if isinstance(n.slice, ast.Constant) and isinstance(
                    n.slice.value, int):
                if isinstance(n.value, ast.Name) and n.value.id in prm \
                        and n.value.id != 'self' and not \
                        _length_guarded(f, n):
                    out.append((n, 'element %s of a possibly empty sequence'
                                % U(n)[:40], {'builtin:IndexError':
                                              ORDINARY}))
                continue
            base = n.value
            bt = U(base)
            if bt.endswith('.rules') and isinstance(base, ast.Attribute) \
                    and isinstance(base.value, ast.Name) and \
                    base.value.id in prm:
                out.append((n, 'rule-store lookup %s' % U(n)[:50],
                            {r: ORDINARY for r in miss_raises}))
            elif isinstance(base, ast.Name) and base.id in proto:
                out.append((n, 'protocol mapping subscript %s' % U(n)[:50],
                            {'builtin:KeyError': ORDINARY}))
            elif isinstance(base, ast.Name) and prog.const_expr(
                    f.module, base, names_ok=True) is not None:
                continue            # a lookup table of the module
            elif isinstance(base, ast.Name) and base.id != 'self':
                out.append((n, 'subscript of a JSON value %s' % U(n)[:50],
                            {'builtin:KeyError': ORDINARY,
                             'builtin:TypeError': ORDINARY}))
    return out


def check_format(ctx):
    prog = ctx.prog
    # C14.FORMAT: on the decision side of enforce a %-template is a
    # constant: text taken from rules, targets or credentials that ends up
    # *inside* the template is read for conversions of its own
    # (`%(project_id)s` in a check string -> KeyError out of enforce)
    enf = prog.func(POLICY + '.Enforcer.enforce')
    nfmt = 0
    for q, g in sorted(prog.region(enf, stop=(
            POLICY + '.Enforcer.load_rules',
            POLICY + '.Enforcer.check_rules')).items()):
        if g.module.name != POLICY:
            continue
        pmg = parent_map(g.node)
        for n in walk_no_nested(g.node):
            if not (isinstance(n, ast.BinOp) and isinstance(n.op, ast.Mod)
                    and isinstance(n.right, (ast.Dict, ast.Tuple, ast.Name,
                                             ast.Call))):
                continue
            left = n.left
            if isinstance(left, ast.Constant) and isinstance(left.value, str):
                nfmt += 1
                continue
            if isinstance(left, (ast.Name, ast.Attribute)):
                c_ = prog.const_expr(g.module, left, cls=g.cls)
                if isinstance(c_, ast.Constant) and isinstance(c_.value, str):
                    nfmt += 1
                    continue
            dyn = [x for x in ast.walk(left) if isinstance(
                x, (ast.FormattedValue, ast.Name, ast.Attribute,
                    ast.Subscript, ast.Call))]
            if not isinstance(left, (ast.JoinedStr, ast.BinOp)) or not dyn:
                continue
            nfmt += 1
            covered = any(catches(names, 'builtin:Exception')
                          for h, names in covering_handlers(prog, g, pmg, n))
            ctx.ob('C14.FORMAT', covered, ctx.where(g.module, n), g.qual,
                   '%-template ' + U(left)[:60],
                   'inside a catch-all guard' if covered else
                   'the template of this %% operation is built from run-time '
                   'text (%s): a `%%` in a rule, target or credential value '
                   'is read as a conversion, and enforce fails with '
                   'KeyError / ValueError / TypeError instead of deciding'
                   % U(dyn[0])[:40])
    if nfmt:
        ctx.ob('C14.FORMAT', True, ctx.where(enf.module, enf.node), enf.qual,
               '%d %%-templates on the decision side' % nfmt,
               'constant templates (or guarded)', nontrivial=False) \
            if not any(f_.rule == 'C14.FORMAT' for f_ in ctx.findings) \
            else None


def check(ctx):
    prog = ctx.prog
    ctx.use(CHECKS, POLICY)
    ctx.explain('C14: for every raising operation site in the evaluation '
                'region of the built-in local checks the frozen may-raise '
                'set (template %, ast.literal_eval, subscripts of JSON '
                'values and protocol mappings, rule-store lookup) must be '
                'covered by an enclosing handler in the region whose paths '
                'deny; a site in a helper may be covered at every call site '
                'instead.')
    ctx.assume('templates contain only well-formed %(name)s placeholders')
    ctx.assume('roles is a list of strings; target/creds are mappings of '
               'JSON values (the property\'s quantifier)')
    ctx.assume('constant integer indices and slices are on lists produced '
               'by str.split and guarded by length tests')
    ctx.trust('may-raise table (CPython docs for ast.literal_eval; language '
              'semantics of subscription)')
    region, anchors = region_functions(prog)
    miss = prog.func(POLICY + '.Rules.__missing__')
    miss_raises = set()
    for n in walk_no_nested(miss.node):
        if isinstance(n, ast.Raise) and n.exc is not None:
            from ..util import raised_class_exprs
            for c in raised_class_exprs(miss.node, n):
                miss_raises.add(prog.resolve(miss.module, c))
    nsites = 0
    protos = protocol_params(prog, region)
    raw_fns = returns_raw(prog, region, protos)
    for q, f in sorted(region.items()):
        pm = parent_map(f.node)
        for node, desc, may in sites_of(
                prog, f, miss_raises, protos.get(q, set())) + \
                raw_value_sites(prog, f, protos.get(q, set()), raw_fns):
            nsites += 1
            hs = covering_handlers(prog, f, pm, node)
            # protocol-mapping subscripts: a membership guard removes KeyError
            if desc.startswith('protocol mapping'):
                if dominated_by_membership(f, pm, node, U(node.slice),
                                           U(node.value)):
                    ctx.ob('C14.COVER', True, ctx.where(f.module, node),
                           f.qual, desc, 'guarded by a presence test of the '
                           'same key in the same mapping')
                    continue
            uncovered = []
            bad_handler = None
            for exc, klass in sorted(may.items()):
                hit = [(h, names) for h, names in hs if catches(names, exc)]
                if not hit:
                    uncovered.append((exc, klass))
                    continue
                ok, why = handler_denies(hit[0][0], prog, f, region)
                if not ok:
                    bad_handler = (hit[0][0], why)
            if uncovered:
                # a site in a helper may be covered by every caller
                callers = []
                for g in region.values():
                    gpm = None
                    for c in walk_no_nested(g.node):
                        if isinstance(c, ast.Call) and prog.callee_of(
                                g, c) is f and g is not f:
                            gpm = gpm or parent_map(g.node)
                            callers.append((g, c, gpm))
                if callers and f not in anchors:
                    still = []
                    for exc, klass in uncovered:
                        if not all(any(catches(names, exc) for h, names in
                                       covering_handlers(prog, g, gpm, c))
                                   for g, c, gpm in callers):
                            still.append((exc, klass))
                    uncovered = still
            ordinary = [e for e, k in uncovered if k == ORDINARY]
            resource = [e for e, k in uncovered if k == RESOURCE]
            ok = not ordinary and bad_handler is None
            short = lambda xs: [x.split(':')[-1] for x in xs]
            if ok:
                detail = 'may raise %s: all covered by a denying handler' % (
                    short(sorted(may)))
                if resource:
                    detail += ' (resource-class %s left to propagate)' % \
                        short(resource)
            elif bad_handler is not None:
                detail = 'the handler at line %d %s instead of denying' % (
                    bad_handler[0].lineno, bad_handler[1])
            else:
                detail = '%s can raise %s, which no enclosing handler in ' \
                    'the evaluation region catches (caught: %s): the ' \
                    'request fails instead of being denied' % (
                        desc, short(ordinary), short(sorted(
                            {n for h, ns in hs for n in ns})))
            ctx.ob('C14.COVER', ok, ctx.where(f.module, node), f.qual, desc,
                   detail, witness=None if ok else {
                       'uncaught': short(ordinary)})
    ctx.floor('C14.COVER', nsites, 3, 'raising operation sites')
    ctx.extra['region'] = sorted(region)
    check_format(ctx)
    # C14.SURFACE = C07.SURFACE
    from . import c07
    before = len(ctx.findings)
    nob = len(ctx.obligations)
    c07.check_raise_args(ctx)
    for fd in ctx.findings[before:]:
        fd.rule = fd.rule.replace('C07.', 'C14.')
    for o in ctx.obligations[nob:]:
        o['rule'] = o['rule'].replace('C07.', 'C14.')
    # authorize() hands its arguments to enforce() unchanged (extra
    # positional and keyword arguments included): a mangled call fails with
    # TypeError before anything is decided (= C07.AUTHORIZE)
    ctx.borrow('C14.SURFACE', c07.check_authorize, only=['C07.AUTHORIZE'])
    # ... and the debug-only branch can fail in no way a caller sees: its
    # serialisation of target and credentials is caught broadly (= C07.DEBUG)
    ctx.borrow('C14.SURFACE', c07.check_debug, only=['C07.DEBUG'])
    # an unresolvable placeholder denies: the role check's decision depends
    # on nothing but the substituted name and the roles held (C04.MEMBER /
    # C04.SUBST) - a shortcut around the substitution compares raw template
    # text instead
    from . import c04 as _c04
    ctx.borrow_soft('C14.DENY', _c04.check, only=['C04.MEMBER', 'C04.SUBST'])
    # ... including the documented InvalidContextObject for credentials that
    # are neither a context nor a mutable mapping (= C08.CREDS)
    from . import c08
    before, nob = len(ctx.findings), len(ctx.obligations)
    c08.check_creds(ctx)
    for fd in ctx.findings[before:]:
        fd.rule = 'C14.SURFACE(' + fd.rule + ')'
    for o in ctx.obligations[nob:]:
        o['rule'] = 'C14.SURFACE(' + o['rule'] + ')'

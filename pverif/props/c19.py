"""C19 - oslopolicy-checker reports what the library would decide
(necessary conditions)."""
import ast

from .. import PKG
from ..dte import Table
from ..model import AnalysisError
from ..paths import exc_subclass
from ..util import (U, is_const, method_call, kwarg, walk_no_nested,
                    parent_map, handler_names, self_attr)

SHELL = PKG + '.shell'
POLICY = PKG + '.policy'
CHECKS = PKG + '._checks'


def verdict_of(call):
    """'passed' / 'failed' / None for a print(...) call."""
    if not (isinstance(call, ast.Call) and U(call.func) == 'print'
            and call.args):
        return None
    a = call.args[0]
    txt = None
    if isinstance(a, ast.BinOp) and isinstance(a.left, ast.Constant):
        txt = a.left.value
    elif isinstance(a, ast.Constant):
        txt = a.value
    elif isinstance(a, ast.JoinedStr) and a.values and isinstance(
            a.values[0], ast.Constant):
        txt = a.values[0].value
    elif isinstance(a, ast.Call) and method_call(a, 'format') and \
            isinstance(method_call(a)[0], ast.Constant):
        txt = method_call(a)[0].value
    if isinstance(txt, str):
        if txt.startswith('passed'):
            return 'passed'
        if txt.startswith('failed'):
            return 'failed'
    return None


def find_evaluator(prog, tool):
    """The helper that evaluates one rule and prints the verdict."""
    for call, g in prog.callees(tool):
        if isinstance(call, ast.Call) and g.module.name == SHELL and any(
                verdict_of(c) for c in ast.walk(g.node)
                if isinstance(c, ast.Call)):
            return g
    if any(verdict_of(c) for c in ast.walk(tool.node)
           if isinstance(c, ast.Call)):
        return tool
    raise AnalysisError('verdict printer not found')


def verdict_text(t, call):
    """'passed' / 'failed' / None for a print(...) call event, however the
    text is assembled."""
    from ..strshape import segments, merge, Lit, Unknown
    if not (isinstance(call, ast.Call) and U(call.func) == 'print'
            and call.args):
        return None
    try:
        segs = merge(segments(t.expand(call.args[0])))
    except Unknown:
        return None
    if segs and isinstance(segs[0], Lit):
        if segs[0].text.startswith('passed'):
            return 'passed'
        if segs[0].text.startswith('failed'):
            return 'failed'
    return None


def tool_table(ctx, tool):
    cache = ctx.__dict__.setdefault('_cache', {})
    if 'c19_tool' in cache:
        return cache['c19_tool']
    from ..dte import inline_helpers
    prog = ctx.prog
    t = Table(prog, tool, inline=inline_helpers(
        prog, modules={SHELL}, classes=False,
        exclude={SHELL + '.flatten', SHELL + '.main'}), comps=False,
        max_depth=4, max_paths=200000)
    cache['c19_tool'] = t
    return t


def rules_symbol(prog, t):
    """Symbols holding the loaded rule set (result of Rules.load & co)."""
    out = set()
    for sym, d in t.en.defs.items():
        if isinstance(d, ast.Call) and prog.resolve(
                t.finfo.module, d.func) in (
                    POLICY + '.Rules.load', POLICY + '.Rules.from_dict',
                    POLICY + '.Rules'):
            out.add(sym)
    return out


def rule_origin(prog, t, p, func, rsyms):
    """(name expr text, how) when `func` (the callee of an evaluation) is a
    rule taken from the loaded rule set."""
    e = func
    for _ in range(4):
        if isinstance(e, ast.Name) and isinstance(t.en.defs.get(e.id),
                                                  ast.AST):
            e = t.en.defs[e.id]
        else:
            break
    if isinstance(e, ast.Subscript):
        base = e.value
        if isinstance(base, ast.Name) and base.id in rsyms:
            return U(e.slice), 'lookup'
        if isinstance(base, ast.Name) and base.id.startswith('SYM_e') and \
                is_const(e.slice, 1):
            d = t.en.defs.get(base.id)
            it = t.expand(d[1]) if isinstance(d, tuple) else None
            if it is not None and any(
                    isinstance(n, ast.Call) and method_call(n, 'items')
                    and U(method_call(n)[0]) in rsyms
                    for n in ast.walk(t.en.expand(d[1], 1))) or (
                        it is not None and '.items()' in U(it)):
                return '%s[0]' % base.id, 'items'
    return None, None


def _may_be_none(en, p, ev):
    """Why the stored value may be None on this path, else None."""
    v = en.expand(ev.value)
    known = {U(en.expand(c.expr)) for c in p.conds[:ev.nconds]
             if c.kind == 'test' and c.pol}
    known |= {U(c.expr) for c in p.conds[:ev.nconds]
              if c.kind == 'test' and c.pol}

    def mn(x, depth=4):
        if U(x) in known:
            return None
        if isinstance(x, ast.Constant):
            return 'the constant None' if x.value is None else None
        if isinstance(x, ast.Call):
            mc = method_call(x, 'get')
            if mc and len(x.args) == 1 and not x.keywords:
                return '`%s` answers None for a missing key' % U(x)[:50]
            if mc and len(x.args) == 2:
                return mn(x.args[1], depth - 1)
            return None
        if isinstance(x, ast.IfExp):
            return mn(x.body, depth - 1) or mn(x.orelse, depth - 1)
        if isinstance(x, ast.BoolOp):
            if isinstance(x.op, ast.Or):
                return mn(x.values[-1], depth - 1)
            return mn(x.values[-1], depth - 1) or \
                '`%s` answers its falsy left operand' % U(x)[:50]
        if isinstance(x, ast.Name) and depth > 0 and isinstance(
                en.defs.get(x.id), ast.AST):
            return mn(en.defs[x.id], depth - 1)
        return None
    return mn(v)


def check_tool_paths(ctx, tool):
    """Verdict polarity, argument roles, iteration and target derivation,
    read off the paths of the tool with its helpers inlined."""
    prog = ctx.prog
    t = tool_table(ctx, tool)
    en = t.en
    W = ctx.where(tool.module, tool.node)
    F = W.split(':')[0]
    rsyms = rules_symbol(prog, t)
    if not rsyms:
        raise AnalysisError('the checker does not load a rule set')
    req = tool.params[2] if len(tool.params) > 2 else 'apply_rule'
    tf_param = 'target_file' if 'target_file' in tool.params else None
    flat = prog.functions.get(SHELL + '.flatten')
    if tf_param is None or flat is None:
        raise AnalysisError('target_file parameter / flatten helper '
                            'vanished')
    seen = set()

    def ob(rule, ok, line, construct, detail):
        k = (rule, ok, construct, detail)
        if k in seen:
            return
        seen.add(k)
        ctx.ob(rule, ok, '%s:%d' % (F, line), tool.qual, construct, detail)

    n_eval = n_pol = n_req = n_file = n_default = n_sorted = 0
    bad_iter = bad_target = None
    scope_tests = []
    colon_ok = sorted_ok = None
    for p in t.paths:
        rq = [c for c in p.conds if c.kind == 'test' and U(c.expr) == req]
        requested = rq[0].pol if rq else None
        evals = []
        attempts = 0
        for i, e in enumerate(p.events):
            if e.kind not in ('call', 'maycall'):
                continue
            name, how = rule_origin(prog, t, p, e.node.func, rsyms)
            if name is not None and name.endswith('.default_rule') and any(
                    c.kind == 'test' and not c.pol and isinstance(
                        c.expr, ast.Compare) and isinstance(
                            c.expr.ops[0], ast.In) and U(c.expr.left) == req
                    for c in p.conds[:e.nconds]) and any(
                    c.kind == 'test' and c.pol and isinstance(
                        c.expr, ast.Compare) and isinstance(
                            c.expr.ops[0], ast.In) and U(
                                c.expr.left) == name
                    for c in p.conds[:e.nconds]):
                # the default-rule fallback of Rules.__missing__ spelled
                # out: the requested name is not defined, the default is
                name = req
            if name is not None:
                attempts += 1
                if e.kind == 'call':
                    evals.append((i, e, name, how))
                    ctx.__dict__.setdefault('_c19_evals', set()).add(
                        (e.frame or tool.qual, e.line,
                         len(e.node.args) + len(e.node.keywords)))
        failed_prints = [e for e in p.events if e.kind == 'call'
                         and verdict_text(t, e.node) == 'failed']
        def mentions_rules(x, depth=3):
            for n in ast.walk(x):
                if isinstance(n, ast.Name):
                    if n.id in rsyms:
                        return True
                    d = en.defs.get(n.id)
                    if depth and isinstance(d, ast.AST) and mentions_rules(
                            d, depth - 1):
                        return True
            return False
        looped = [c for c in p.conds if c.kind == 'loop'
                  and mentions_rules(c.expr)]
        exc = any(c.kind == 'exc' for c in p.conds)
        # ---- iteration rules
        if requested is True and p.outcome.kind != 'raise':
            n_req += 1
            if not ((attempts == 1 or (not attempts and failed_prints))
                    and not any(c.pol for c in looped)):
                bad_iter = bad_iter or (p, 'a requested rule does not '
                                        'produce exactly one verdict')
            for i, e, name, how in evals:
                if name != req and U(en.expand(ast.parse(
                        name, mode='eval').body)) != req:
                    bad_iter = bad_iter or (
                        p, 'the verdict is reported under a name other than '
                        'the requested rule')
        if requested is False and p.outcome.kind != 'raise':
            if not looped:
                bad_iter = bad_iter or (p, 'without a requested rule the '
                                        'rule set is not iterated')
            for c in looped:
                it = en.expand(c.expr)
                srt = [n for n in ast.walk(it) if isinstance(n, ast.Call)
                       and U(n.func) == 'sorted']
                good = bool(srt) and not any(
                    k.arg in ('reverse', 'key') for n in srt
                    for k in n.keywords)
                if not good:
                    for ev in p.events:
                        if ev.kind == 'call' and method_call(
                                ev.node, 'sort') and not ev.node.args and \
                                not ev.node.keywords and U(method_call(
                                    ev.node)[0]) in U(c.expr):
                            good = True
                sorted_ok = good if sorted_ok is None else (sorted_ok
                                                            and good)
                n_sorted += 1
            for i, e, name, how in evals:
                # only names containing a colon are evaluated
                pre = p.conds[:e.nconds]
                flt = any(cd.kind == 'test' and cd.pol and isinstance(
                    cd.expr, ast.Compare) and isinstance(
                        cd.expr.ops[0], ast.In) and is_const(
                            cd.expr.left, ':') for cd in pre)
                if not flt:
                    for c in looped:
                        for n in ast.walk(en.expand(c.expr)):
                            if isinstance(n, ast.comprehension) and any(
                                    isinstance(x, ast.Compare) and isinstance(
                                        x.ops[0], ast.In) and is_const(
                                            x.left, ':') for x in n.ifs):
                                flt = True
                colon_ok = flt if colon_ok is None else (colon_ok and flt)
        # ---- derived credentials: a key is added only with a value
        if evals:
            cr0 = evals[0][1].node.args[1] if len(
                evals[0][1].node.args) > 1 else None
            for k in evals[0][1].node.keywords:
                if k.arg == 'creds':
                    cr0 = k.value
            for ev in p.events[:evals[0][0]]:
                if cr0 is None or ev.kind != 'store' or not isinstance(
                        ev.node, ast.Subscript) or U(ev.node.value) != U(cr0):
                    continue
                why = _may_be_none(en, p, ev)
                ob('C19.CREDS', why is None, ev.line,
                   'derived credential %s = %s' % (
                       U(ev.node), U(en.expand(ev.value))[:60]),
                   'the key is added only together with a value' if why is
                   None else
                   'the credentials get the key %s even when the token has '
                   'nothing to derive it from (%s): its value is then None, '
                   'which GenericCheck turns into the text `None` - that '
                   'matches a null target attribute, whereas credentials '
                   'without the key deny' % (U(ev.node.slice), why))
        # ---- every scope entry of the token is looked at on its own: a
        # path that reaches an evaluation without having tested one of them
        # has decided the credentials from the other alone
        if evals:
            tested = set()
            for cd in p.conds[:evals[0][1].nconds]:
                if cd.kind != 'test':
                    continue
                x = en.expand(cd.expr)
                for n_ in ast.walk(x):
                    if isinstance(n_, ast.Call) and method_call(
                            n_, 'get') and n_.args and is_const(
                                n_.args[0]) and isinstance(
                                    n_.args[0].value, str):
                        tested.add(n_.args[0].value)
                    if isinstance(n_, ast.Compare) and isinstance(
                            n_.ops[0], ast.In) and is_const(n_.left) and \
                            isinstance(n_.left.value, str):
                        tested.add(n_.left.value)
            scope_tests.append((p, tested, evals[0][1].line))
        # ---- the is_admin credential is the tool's own is_admin argument
        if evals and 'is_admin' in tool.params:
            cr0 = evals[0][1].node.args[1] if len(
                evals[0][1].node.args) > 1 else None
            for k in evals[0][1].node.keywords:
                if k.arg == 'creds':
                    cr0 = k.value
            vals = []
            for ev in p.events[:evals[0][0]]:
                if cr0 is not None and ev.kind == 'store' and isinstance(
                        ev.node, ast.Subscript) and U(ev.node.value) == U(
                            cr0) and is_const(ev.node.slice, 'is_admin'):
                    vals.append((ev.line, en.expand(ev.value)))
                # creds.update({... 'is_admin': v ...}) / update(is_admin=v)
                if cr0 is not None and ev.kind == 'call' and method_call(
                        ev.node, 'update') and U(method_call(
                            ev.node)[0]) == U(cr0):
                    for a_ in ev.node.args:
                        a_ = en.expand(a_)
                        if isinstance(a_, ast.Dict):
                            for k_, v_ in zip(a_.keys, a_.values):
                                if k_ is not None and is_const(k_,
                                                               'is_admin'):
                                    vals.append((ev.line, en.expand(v_)))
                    for k_ in ev.node.keywords:
                        if k_.arg == 'is_admin':
                            vals.append((ev.line, en.expand(k_.value)))
            d0 = en.defs.get(cr0.id) if isinstance(cr0, ast.Name) else cr0
            if isinstance(d0, ast.Call) and isinstance(d0.func, ast.Name) \
                    and d0.func.id == 'dict':
                for k in d0.keywords:
                    if k.arg == 'is_admin':
                        vals.append((getattr(d0, 'lineno', evals[0][1].line),
                                     en.expand(k.value)))
            okv = bool(vals) and isinstance(vals[-1][1], ast.Name) and \
                vals[-1][1].id == 'is_admin'
            if not vals:
                ctx.assume('C19.CREDS: where the credentials get is_admin '
                           'was not found on the paths; not decided')
                okv = True
            ob('C19.CREDS', okv, vals[-1][0] if vals else evals[0][1].line,
               'credential is_admin = %s' % (U(vals[-1][1]) if vals
                                             else 'not set'),
               'the tool\'s is_admin argument' if okv else
               'the credentials\' is_admin is %s, not the is_admin argument '
               'the tool was called with: policies that consult it (directly '
               'or through the default rule) get a different verdict from '
               'the library' % (U(vals[-1][1]) if vals else 'never set'))
        # ---- each evaluation: roles, polarity, target
        for i, e, name, how in evals:
            n_eval += 1
            c = e.node
            role = dict(zip(['target', 'creds', 'enforcer', 'current_rule'],
                            c.args))
            for k in c.keywords:
                if k.arg:
                    role[k.arg] = k.value
            probs = []
            if set(role) != {'target', 'creds', 'enforcer', 'current_rule'}:
                probs.append('the rule is not evaluated with the four '
                             'protocol arguments')
            cr = role.get('creds')
            crx = en.expand(cr) if cr is not None else None
            if crx is None or "['token']" not in U(crx):
                probs.append('credentials are not the token data (%s)'
                             % (U(cr) if cr is not None else None))
            tg = role.get('target')
            if tg is None or (cr is not None and U(tg) == U(cr)):
                probs.append('target is %s' % (U(tg) if tg is not None
                                               else 'missing'))
            enf = role.get('enforcer')
            enx = en.expand(enf) if enf is not None else None
            if not (isinstance(enx, ast.Call) and prog.resolve(
                    tool.module, enx.func) == SHELL + '.FakeEnforcer'):
                probs.append('enforcer stand-in is %s' % (
                    U(enf) if enf is not None else None))
            nm = role.get('current_rule')
            if nm is None or U(nm) != name:
                probs.append('the evaluated rule is not the one named by '
                             'the reported policy name')
            ob('C19.CALL', not probs, e.line, U(c)[:90],
               'evaluates the named rule with the target, the token '
               'credentials and the enforcer stand-in' if not probs else
               '; '.join(probs))
            # polarity of the verdict printed for this evaluation
            if not exc and e.sym:
                tested = [cd for cd in p.conds if cd.kind == 'test'
                          and isinstance(cd.expr, ast.Name)
                          and cd.expr.id == e.sym]
                verdicts = [(verdict_text(t, x.node), x)
                            for x in p.events[i + 1:] if x.kind == 'call'
                            and verdict_text(t, x.node)]
                if not tested:
                    if verdicts:
                        ob('C19.POLARITY', False, verdicts[0][1].line,
                           'verdict without evaluation',
                           'a verdict is printed on a path that does not '
                           'test the result of evaluating the rule')
                else:
                    n_pol += 1
                    want = 'passed' if tested[0].pol else 'failed'
                    got = [v for v, _x in verdicts]
                    ok = got == [want]
                    ob('C19.POLARITY', ok, verdicts[0][1].line if verdicts
                       else e.line, 'result %s -> prints %s' % (
                           'truthy' if tested[0].pol else 'falsy', got),
                       'exactly one verdict, `%s`' % want if ok else
                       'for a %s evaluation result the checker prints %s '
                       'instead of exactly one `%s`' % (
                           'truthy' if tested[0].pol else 'falsy', got,
                           want))
                    # the verdict carries the evaluated name
                    for v, x in verdicts:
                        if nm is not None and not any(
                                U(nm) in U(en.expand(a_, 1)) or U(nm) in U(a_)
                                for a_ in x.node.args):
                            ob('C19.CALL', False, x.line, U(x.node)[:80],
                               'the verdict is not printed under the name '
                               'of the evaluated policy')
            # target derivation
            given = [cd for cd in p.conds if cd.kind == 'test'
                     and U(cd.expr) == tf_param]
            if not given:
                bad_target = bad_target or (
                    p, 'the target does not depend on whether a target file '
                    'was given')
                continue
            tgx = en.expand(tg) if tg is not None else None
            if given[0].pol:
                n_file += 1
                ok = isinstance(tgx, ast.Call) and prog.resolve(
                    tool.module, tgx.func) == flat.qual and len(
                        tgx.args) == 1 and isinstance(
                            tgx.args[0], ast.Call) and (prog.resolve(
                                tool.module, tgx.args[0].func) or ''
                            ).endswith(('jsonutils.loads', 'json.loads',
                                        'jsonutils.load', 'json.load'))
                if not ok:
                    bad_target = bad_target or (
                        p, 'with a target file the rules are not evaluated '
                        'against exactly the flattened contents of that '
                        'file (got %s)' % (U(tgx)[:80] if tgx is not None
                                           else None))
            else:
                n_default += 1
                ok = isinstance(tgx, ast.Dict) and any(
                    is_const(k, 'user_id') for k in tgx.keys)
                if not ok:
                    bad_target = bad_target or (
                        p, 'without a target file the default target is '
                        'not the token\'s own user / project (got %s)' % (
                            U(tgx)[:80] if tgx is not None else None))
    ctx.count(len(t.paths))
    # the scope entries of the token (`project`, `system`, ...): those that
    # some path tests before it evaluates
    SCOPES = ('project', 'system', 'domain')
    seen_scopes = sorted({k for _p, ts, _l in scope_tests for k in ts
                          if k in SCOPES})
    lacking = None
    for p_, ts, ln in scope_tests:
        miss_ = [k for k in seen_scopes if k not in ts]
        if miss_ and lacking is None:
            lacking = (p_, miss_, ln)
    if seen_scopes:
        ctx.ob('C19.CREDS', lacking is None, '%s:%d' % (
            F, lacking[2]) if lacking else W, tool.qual,
            'scope entries of the token looked at: %s' % seen_scopes,
            'each one is tested on every path before a rule is evaluated'
            if lacking is None else
            'a path reaches the evaluation without looking at the token\'s '
            '%s entry (path: %s): for a token that carries several scopes '
            'the credentials differ from what the library derives, so '
            'scope-dependent rules are reported wrongly' % (
                lacking[1], lacking[0].cond_text()[-200:]))
    if n_pol == 0:
        ctx.ob('C19.POLARITY', False, W, tool.qual,
               'verdict independent of the result',
               'no path tests the result of evaluating the rule before '
               'printing a verdict')
    if not ctx.findings:
        ctx.floor('C19.POLARITY', n_pol, 2, 'verdict paths')
        ctx.floor('C19.CALL', n_eval, 2, 'evaluations')
    ctx.ob('C19.ITER', bool(sorted_ok), W, tool.qual, 'iteration order',
           'policies are reported in sorted name order' if sorted_ok else
           'without a requested rule the policies are not reported in '
           'sorted order')
    ctx.ob('C19.ITER', bool(colon_ok), W, tool.qual, 'name filter',
           'only names containing a colon are reported' if colon_ok else
           'the checker does not restrict its report to policy names '
           'containing a colon')
    ctx.ob('C19.ITER', bad_iter is None and n_req > 0, W, tool.qual,
           'requested rule (%d paths)' % n_req,
           'only the requested rule is evaluated, once' if bad_iter is None
           and n_req else (bad_iter[1] if bad_iter else 'no path handles a '
                           'requested rule'))
    ctx.ob('C19.TARGET', bad_target is None and n_file > 0
           and n_default > 0, W, tool.qual,
           'target derivation (%d file paths, %d default paths)'
           % (n_file, n_default),
           'the target is the flattened target file when one is given, '
           'else the token\'s own user/project' if bad_target is None else
           bad_target[1] + ' (path: %s)' % bad_target[0].cond_text()[-200:])
    # flatten keeps every leaf
    # (in flatten itself or in the helper that walks the mapping for it)
    workers = [g for g in [flat] + [x for x in prog.region(flat).values()
                                    if x is not flat and x.module is
                                    flat.module]
               if any(isinstance(n_, ast.For) and method_call(n_.iter, 'items')
                      for n_ in walk_no_nested(g.node)
                      if isinstance(n_, ast.For) and isinstance(
                          n_.iter, ast.Call))]
    dropped = None
    n = 0
    for g in workers or [flat]:
        tfl = Table(prog, g)
        for p in tfl.paths:
            if not any(c.kind == 'loop' and c.pol for c in p.conds):
                continue
            n += 1
            adds = [e for e in p.events if e.kind == 'call' and method_call(
                e.node) and method_call(e.node)[1] in (
                    'append', 'extend', 'update', '__setitem__')]
            stores = [e for e in p.events if e.kind in ('store', 'aug')]
            yields = [e for e in p.events if e.kind == 'yield']
            # ... or the element is part of what is returned (the list
            # grown by rebinding: items = items + [...])
            elems = {s_ for s_, d_ in tfl.en.defs.items()
                     if isinstance(d_, tuple) and d_ and d_[0] == 'elem'}
            kept = p.outcome.kind == 'return' and p.outcome.expr is not None \
                and any(isinstance(x, ast.Name) and x.id in elems
                        for x in ast.walk(tfl.expand(p.outcome.expr)))
            # ... or it is handed on to the worker itself (the nested
            # mapping is flattened into the same result by the recursion)
            acc_params = {n_.value.id for n_ in walk_no_nested(g.node)
                          if isinstance(n_, ast.Subscript) and isinstance(
                              n_.ctx, ast.Store) and isinstance(
                                  n_.value, ast.Name)
                          and n_.value.id in g.params}
            handed = any(
                e.kind == 'call' and prog.callee_of(g, e.node) in (
                    [g, flat] + workers) and any(
                        isinstance(x, ast.Name) and x.id in elems
                        for a in e.node.args
                        for x in ast.walk(tfl.expand(a))) and any(
                            isinstance(a, ast.Name) and a.id in acc_params
                            for a in e.node.args)
                for e in p.events)
            # ... or walked through the worker itself, whose entries are
            # yielded on (a nested mapping without entries yields none)
            walked = any(
                c.kind == 'loop' and isinstance(tfl.expand(c.expr), ast.Call)
                and prog.callee_of(g, tfl.expand(c.expr)) in (
                    [g, flat] + workers) and any(
                        isinstance(x, ast.Name) and x.id in elems
                        for x in ast.walk(tfl.expand(c.expr)))
                for c in p.conds)
            if not adds and not stores and not yields and not kept \
                    and not handed and not walked:
                dropped = p
    ctx.ob('C19.TARGET', dropped is None and n > 0, ctx.where(
        flat.module, flat.node), flat.qual,
        'flatten keeps every entry (%d element paths)' % n,
        'every key of the target file reaches the flat target, whatever '
        'its value' if dropped is None and n else
        'flatten drops an entry on path %s: rules that test that '
        'attribute decide differently from the library' % (
            dropped.cond_text()[-200:] if dropped else 'none'))


def rules_var(prog, tool):
    for s in walk_no_nested(tool.node):
        if isinstance(s, ast.Assign) and isinstance(s.value, ast.Call) and \
                prog.resolve(tool.module, s.value.func) in (
                    POLICY + '.Rules.load', POLICY + '.Rules.from_dict',
                    POLICY + '.Rules') and isinstance(s.targets[0],
                                                      ast.Name):
            return s.targets[0].id
    raise AnalysisError('the checker does not load a rule set')


def check_default(ctx, tool):
    prog = ctx.prog
    opt = prog.options().get('policy_default_rule')
    want = opt['default'].value if opt and isinstance(
        opt['default'], ast.Constant) else None
    loads = [c for c in walk_no_nested(tool.node) if isinstance(c, ast.Call)
             and prog.resolve(tool.module, c.func) in (
                 POLICY + '.Rules.load', POLICY + '.Rules.from_dict',
                 POLICY + '.Rules')]
    ctx.floor('C19.DEFAULT', len(loads), 1, 'rule-set constructions')
    for c in loads:
        dr = kwarg(c, 'default_rule', 1)
        if isinstance(dr, ast.Name) and isinstance(
                tool.module.consts.get(dr.id), ast.Constant):
            dr = tool.module.consts[dr.id]      # a module-level constant
        ok = dr is not None and is_const(dr) and dr.value == want
        ctx.ob('C19.DEFAULT', ok, ctx.where(tool.module, c), tool.qual,
               U(c)[:80], 'the tool falls back to the same default rule '
               'name as the library option (%r)' % want if ok else
               'the checker loads the rules with default rule %s while the '
               'library\'s option defaults to %r' % (
                   U(dr) if dr is not None else None, want))


def check_duck(ctx):
    prog = ctx.prog
    fe = prog.cls(SHELL + '.FakeEnforcer')
    init = fe.methods.get('__init__')
    if init is None:
        raise AnalysisError('FakeEnforcer has no __init__')
    # attributes assigned unconditionally (top-level statements of __init__)
    defined = set()
    for s in init.node.body:
        if isinstance(s, ast.Assign):
            for tg in s.targets:
                if self_attr(tg):
                    defined.add(self_attr(tg))
    # attributes of `enforcer` read by the built-in checks
    needed = {}
    base = CHECKS + '.BaseCheck'
    fns = {}
    for q in prog.subclasses(base):
        c = prog.classes[q]
        for m in c.methods.values():
            fns[m.qual] = m
            # ... and the helpers the check hands the enforcer on to
            for q2, g in prog.region(m).items():
                if g.module.name.startswith(PKG) and 'enforcer' in g.params:
                    fns.setdefault(q2, g)
    for m in fns.values():
        prm = m.params
        for n in ast.walk(m.node):
            if isinstance(n, ast.Attribute) and isinstance(
                    n.value, ast.Name) and n.value.id == 'enforcer' and \
                    'enforcer' in prm:
                needed.setdefault(n.attr, []).append((m, n))
    ctx.floor('C19.DUCK', len(needed), 2, 'enforcer attributes read by '
              'built-in checks')
    for attr, sites in sorted(needed.items()):
        ok = attr in defined
        m, n = sites[0]
        ctx.ob('C19.DUCK', ok, ctx.where(init.module, init.node), fe.qual,
               'enforcer.%s (read by %s)' % (attr, m.qual),
               'defined by the stand-in' if ok else
               'built-in checks read enforcer.%s, which the checker\'s '
               'enforcer stand-in does not define: such rules print '
               '`exception` instead of the library\'s decision' % attr)
    # rules attribute is the loaded rule set
    ok = any(isinstance(s, ast.Assign) and any(
        self_attr(t) == 'rules' for t in s.targets) and U(s.value) ==
        init.params[1] for s in init.node.body)
    ctx.ob('C19.DUCK', ok, ctx.where(init.module, init.node), fe.qual,
           'enforcer.rules', 'is the rule set given to the stand-in' if ok
           else 'the stand-in\'s rules attribute is not the loaded rule '
           'set: rule: references resolve differently from the library')


def check_lookup(ctx, tool):
    prog = ctx.prog
    miss = prog.func(POLICY + '.Rules.__missing__')
    raised = set()
    for n in walk_no_nested(miss.node):
        if isinstance(n, ast.Raise) and n.exc is not None:
            from ..util import raised_class_exprs
            for c in raised_class_exprs(miss.node, n):
                raised.add(prog.resolve(miss.module, c))
    pm = parent_map(tool.node)
    n_sites = 0
    for n in walk_no_nested(tool.node):
        if isinstance(n, ast.Subscript) and isinstance(n.ctx, ast.Load) \
                and U(n.value) == rules_var(prog, tool):
            n_sites += 1
            caught = set()
            hs = []
            cur, anc = n, pm.get(n)
            while anc is not None:
                if isinstance(anc, ast.Try) and any(cur is b
                                                    for b in anc.body):
                    for h in anc.handlers:
                        caught |= set(handler_names(prog, tool.module, h))
                        hs.append(h)
                cur, anc = anc, pm.get(anc)
            missing = [r for r in raised if not any(
                r == c or exc_subclass(r, c) or c in (
                    'builtin:Exception', 'builtin:BaseException')
                for c in caught)]
            # a lookup under `if <key> in <rules>` cannot miss
            guarded = False
            cur3, anc3 = n, pm.get(n)
            while anc3 is not None:
                if isinstance(anc3, ast.If) and any(
                        cur3 is b for b in anc3.body) and isinstance(
                            anc3.test, ast.Compare) and len(
                                anc3.test.ops) == 1 and isinstance(
                                    anc3.test.ops[0], ast.In) and U(
                                        anc3.test.left) == U(n.slice) and U(
                                            anc3.test.comparators[0]) == U(
                                                n.value):
                    guarded = True
                # ... nor can one for a name drawn from the rule set itself
                # (for name in sorted(rules): ... rules[name])
                if isinstance(anc3, ast.For) and any(
                        cur3 is b for b in anc3.body) and isinstance(
                            anc3.target, ast.Name) and U(
                                anc3.target) == U(n.slice):
                    it3 = anc3.iter
                    while isinstance(it3, ast.Call) and isinstance(
                            it3.func, ast.Name) and it3.func.id in (
                                'sorted', 'list', 'tuple', 'reversed',
                                'iter') and len(it3.args) == 1:
                        it3 = it3.args[0]
                    if isinstance(it3, ast.Call) and method_call(
                            it3, 'keys') and not it3.args:
                        it3 = method_call(it3)[0]
                    stored = any(
                        isinstance(x, ast.Name) and x.id == anc3.target.id
                        and isinstance(x.ctx, ast.Store) and x is not
                        anc3.target for b in anc3.body for x in ast.walk(b))
                    if U(it3) == U(n.value) and not stored:
                        guarded = True
                cur3, anc3 = anc3, pm.get(anc3)
            if guarded:
                ctx.ob('C19.LOOKUP', True, ctx.where(tool.module, n),
                       tool.qual, 'lookup ' + U(n),
                       'made only for a name the rule set defines')
                continue
            denies = any(verdict_of(c) == 'failed' for h in hs
                         for c in ast.walk(h) if isinstance(c, ast.Call))
            if not denies and hs:
                # read off the paths: every path through a handler of this
                # lookup prints exactly `failed`
                t = tool_table(ctx, tool)
                tries = set()
                cur2, anc2 = n, pm.get(n)
                while anc2 is not None:
                    if isinstance(anc2, ast.Try):
                        tries.add('try@%d' % anc2.lineno)
                    cur2, anc2 = anc2, pm.get(anc2)
                got = []
                for p in t.paths:
                    if not any(c.kind == 'exc' and isinstance(
                            c.expr, ast.Constant) and str(
                                c.expr.value).split(' ')[-1] in tries and (
                                    c.frame in (None, tool.qual))
                            for c in p.conds):
                        continue
                    got.append([verdict_text(t, e.node) for e in p.events
                                if e.kind == 'call' and verdict_text(
                                    t, e.node)])
                denies = bool(got) and all(g == ['failed'] for g in got)
            ok = not missing and denies
            ctx.ob('C19.LOOKUP', ok, ctx.where(tool.module, n), tool.qual,
                   'lookup ' + U(n),
                   'an undefined requested rule without usable default is '
                   'reported as failed, as the library denies it' if ok else
                   ('the lookup of the requested rule can raise %s, which '
                    'the tool does not catch: it aborts with a traceback '
                    'where the library denies' % missing if missing else
                    'the handler of the failed lookup does not report '
                    '`failed`'))
    if n_sites == 0:
        ctx.ob('C19.LOOKUP', True, ctx.where(tool.module, tool.node),
               tool.qual, 'no direct rule-store lookup', 'nothing to guard',
               nontrivial=False)


def check_creds_mirror(ctx, tool):
    """What Enforcer.enforce() itself adds to the credentials before it
    evaluates (it presents system_scope under the key `system` as well) the
    tool adds to the credentials it evaluates with: the checks see the same
    mapping either way."""
    from ..enforce_model import enforce_table
    prog = ctx.prog
    te = enforce_table(ctx)
    enf = te.enf
    creds_p = enf.params[3] if len(enf.params) > 3 else 'creds'
    lib = {}
    for p in te.paths:
        for e in p.events:
            if e.kind == 'store' and isinstance(e.node, ast.Subscript) and \
                    isinstance(e.node.slice, ast.Constant) and isinstance(
                        e.node.slice.value, str):
                base = te.expand(e.node.value)
                # the credentials mapping: the parameter, or what the
                # context mapper made of it
                bt = U(base)
                if bt == creds_p or 'to_policy_values' in bt or (
                        isinstance(e.node.value, ast.Name) and
                        e.node.value.id.startswith('SYM_')):
                    src = U(te.expand(e.value))
                    lib.setdefault(e.node.slice.value, (e.line, src))
    t = tool_table(ctx, tool)
    mine = set()
    for p in t.paths:
        for e in p.events:
            if e.kind == 'store' and isinstance(e.node, ast.Subscript) and \
                    isinstance(e.node.slice, ast.Constant):
                mine.add(e.node.slice.value)
            if e.kind == 'call' and method_call(e.node, 'update'):
                for a_ in e.node.args:
                    a_ = t.expand(a_)
                    # keys of the display, also of displays merged into it
                    # (`**({...} if c else {})`)
                    for d_ in ast.walk(a_):
                        if isinstance(d_, ast.Dict):
                            mine |= {k.value for k in d_.keys
                                     if isinstance(k, ast.Constant)}
                mine |= {k.arg for k in e.node.keywords if k.arg}
        for d in t.en.defs.values():
            if isinstance(d, ast.Call) and isinstance(
                    d.func, ast.Name) and d.func.id == 'dict':
                mine |= {k.arg for k in d.keywords if k.arg}
    F = ctx.where(tool.module, tool.node)
    # the role list the checks see is the token's, name by name: a generic
    # check (`roles:Member`) compares the names as they are spelled
    seen_roles = set()
    for p in t.paths:
        for e in p.events:
            if not (e.kind == 'store' and isinstance(
                    e.node, ast.Subscript) and is_const(
                        e.node.slice, 'roles')):
                continue
            v = t.expand(e.value) if e.value is not None else None
            if not isinstance(v, (ast.ListComp, ast.GeneratorExp)) or len(
                    v.generators) != 1 or (e.line, U(v)) in seen_roles:
                continue
            seen_roles.add((e.line, U(v)))
            g0 = v.generators[0]
            plain = isinstance(v.elt, ast.Subscript) and U(
                v.elt.value) == U(g0.target) and is_const(
                    v.elt.slice, 'name') and not g0.ifs
            changed = [c for c in ast.walk(v.elt) if isinstance(c, ast.Call)]
            if plain or changed or g0.ifs:
                ctx.ob('C19.CREDS', plain, '%s:%d' % (F.split(':')[0],
                                                      e.line), tool.qual,
                       'role names ' + U(v)[:60],
                       'the token\'s role names, as spelled there' if plain
                       else 'the checker evaluates with role names that are '
                       'not the token\'s own (%s): a generic check on the '
                       'role list (`roles:Member`) compares them as spelled '
                       'and is decided differently by the tool and by '
                       'Enforcer.enforce' % (U(changed[0])[:40] if changed
                                             else 'filtered'))
    # what the tool derives (is_admin from the command line, roles, ids) is
    # not left to the token document: in a display `{k: v, **token}` the
    # spread comes later and wins
    for d in walk_no_nested(tool.node):
        if not (isinstance(d, ast.Dict) and any(k is None for k in d.keys)):
            continue
        # (a spread of a display written right there has known keys: only
        # a spread of a mapping that comes from outside can hide a key)
        spreads = [i for i, k in enumerate(d.keys) if k is None and not all(
            isinstance(x, ast.Dict) and all(kk is not None for kk in x.keys)
            for x in ([d.values[i]] if not isinstance(
                d.values[i], ast.IfExp) else [d.values[i].body,
                                              d.values[i].orelse]))]
        if not spreads:
            continue
        last = max(spreads)
        early = [k for k in d.keys[:last] if isinstance(k, ast.Constant)]
        ctx.ob('C19.CREDS', not early, ctx.where(tool.module, d), tool.qual,
               'credentials display %s' % U(d)[:60],
               'derived credentials are written after the token\'s members'
               if not early else
               'the derived credential(s) %s stand before `**%s` in the '
               'display: a member of that name in the token document '
               'overrides what the tool derived (the library is given the '
               'derived value)' % (
                   sorted(k.value for k in early),
                   U(d.values[last])[:30]))
    for key, (line, src) in sorted(lib.items()):
        ok = key in mine
        ctx.ob('C19.CREDS', ok, F, tool.qual,
               'credential %r added by enforce() (policy.py:%d, from %s)' % (
                   key, line, src[:40]),
               'added by the checker as well' if ok else
               'Enforcer.enforce() puts %r into the credentials before it '
               'evaluates (%s), the checker does not: a check that reads '
               'that credential (`%s:...`) is decided on different '
               'credentials by the tool and by the library' % (key, src[:50],
                                                               key))
    ctx.floor('C19.CREDS', len(lib), 1, 'credentials enforce() adds')


def check_eval_guard(ctx, tool):
    """An error while evaluating one policy is reported for that policy and
    the listing goes on: the rule call of the evaluator is covered - there,
    or around the evaluator's call in the tool - by a handler for Exception
    that does not raise again.  Otherwise the first such policy ends the
    run and every later policy gets no verdict."""
    from .c14 import covering_handlers, catches
    prog = ctx.prog
    # the rule calls: the call events check_tool_paths recognised as the
    # evaluation of a rule of the loaded set, located in their function
    sites = []
    for frame, line, nargs in sorted(getattr(ctx, '_c19_evals', ())):
        fr = prog.functions.get(frame, tool)
        for c in walk_no_nested(fr.node):
            if isinstance(c, ast.Call) and c.lineno == line and len(
                    c.args) + len(c.keywords) == nargs and not (
                        isinstance(c.func, ast.Name) and c.func.id in (
                            'print', 'str', 'bool')):
                sites.append((fr, c))
    n = 0
    for ev, c in sites:
        pm = parent_map(ev.node)
        hs = covering_handlers(prog, ev, pm, c)
        ok = any(catches(names, 'builtin:Exception') and not any(
            isinstance(x, ast.Raise) for x in ast.walk(h))
            for h, names in hs)
        if not ok and ev is not tool:
            # covered at every call of the evaluator?
            csites = [x for x, g in prog.callees(tool)
                      if g is ev and isinstance(x, ast.Call)]
            pmt = parent_map(tool.node)
            ok = bool(csites) and all(any(
                catches(names, 'builtin:Exception') and not any(
                    isinstance(y, ast.Raise) for y in ast.walk(h))
                for h, names in covering_handlers(prog, tool, pmt, x))
                for x in csites)
        if not ok:
            # inside `with <object of a program class with __exit__>:` -
            # such an object may swallow the error; what its __exit__
            # answers is not read
            cur = c
            anc = pm.get(cur)
            while anc is not None:
                if isinstance(anc, ast.With):
                    for it in anc.items:
                        ce = it.context_expr
                        q = prog.resolve(ev.module, ce.func) if isinstance(
                            ce, ast.Call) else None
                        if q in prog.classes and prog.find_method(
                                q, '__exit__') is not None:
                            raise AnalysisError(
                                'the rule evaluation at line %d runs inside '
                                '`with %s`: whether that context manager '
                                'suppresses an evaluation error (its '
                                '__exit__) is not read' % (c.lineno,
                                                           U(ce)[:40]))
                cur, anc = anc, pm.get(anc)
        n += 1
        caught = sorted({nm.split(':')[-1] for h, names in hs
                         for nm in names})
        ctx.ob('C19.EVERY', ok, ctx.where(ev.module, c), ev.qual,
               'rule evaluation %s' % U(c)[:50],
               'an evaluation error is reported for this policy and the '
               'listing continues' if ok else
               'an evaluation error other than %s leaves the tool: the '
               'listing stops at that policy and every later policy gets no '
               'verdict' % (caught or 'nothing'))
    ctx.floor('C19.EVERY', n, 1, 'rule evaluation calls in the evaluator')


def check(ctx):
    prog = ctx.prog
    ctx.use(SHELL, POLICY, CHECKS, PKG + '.opts')
    ctx.explain('C19 (necessary conditions): verdict polarity on every path '
                'of the evaluator, argument roles traced from the tool\'s '
                'locals, default-rule agreement with the library option, '
                'iteration rules, duck-typing of the enforcer stand-in '
                'against what built-in checks read, and the lookup of a '
                'requested rule.')
    ctx.assume('agreement on all inputs is differential by nature and not '
               'decided')
    tool = prog.func(SHELL + '.tool')
    # evaluation and reporting moved into an object of a class of the
    # checker's own module: the path rules follow the tool's locals, not the
    # attributes of such an object
    for c in walk_no_nested(tool.node):
        q = prog.resolve(tool.module, c.func) if isinstance(
            c, ast.Call) else None
        k = prog.classes.get(q) if isinstance(q, str) else None
        if k is not None and k.module is tool.module and any(
                isinstance(x, ast.Call) and isinstance(x.func, ast.Name)
                and x.func.id == 'print'
                for m in k.methods.values() for x in ast.walk(m.node)):
            raise AnalysisError(
                'the checker evaluates and reports through an object of its '
                'class %s (state kept in attributes): the rules on verdict '
                'polarity, iteration and argument roles read the locals of '
                '%s only' % (q, tool.qual))
    check_tool_paths(ctx, tool)
    check_default(ctx, tool)
    check_duck(ctx)
    check_lookup(ctx, tool)
    check_eval_guard(ctx, tool)
    check_creds_mirror(ctx, tool)
    # C19.STATELESS: a verdict depends on the files of this call only
    from ..modstate import state_uses
    region = {q: f for q, f in prog.region(tool).items()
              if f.module.name in (SHELL, PKG + '._cache_handler')}
    uses = state_uses(prog, region)
    for f, node, name, how in uses:
        ctx.ob('C19.STATELESS', False, ctx.where(f.module, node), f.qual,
               '%s module-level `%s`' % (how, name),
               'the checker %s the module-level object `%s`: what one run '
               'read (policy, token or target file) can be served to a '
               'later run in the same process' % (how, name))
    cached = [c for f in region.values() for c in walk_no_nested(f.node)
              if isinstance(c, ast.Call) and (prog.resolve(
                  f.module, c.func) or '').endswith('read_cached_file')]
    for c in cached:
        ctx.ob('C19.STATELESS', False, 'oslo_policy/shell.py:%d' % c.lineno,
               SHELL, U(c)[:60], 'the checker reads its input files through '
               'the mtime-keyed file cache: a file replaced by an older '
               'copy is answered from stale contents')
    if not uses and not cached:
        ctx.ob('C19.STATELESS', True, ctx.where(tool.module, tool.node),
               tool.qual, 'module-level state / file cache in the tool',
               'none: every run reads its files afresh')

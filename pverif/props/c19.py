"""C19 - oslopolicy-checker reports what the library would decide
(necessary conditions)."""
import ast

from .. import PKG
from ..dte import Table
from ..model import AnalysisError
from ..paths import exc_subclass
from ..util import (U, is_const, method_call, kwarg, walk_no_nested,
                    parent_map, handler_names, self_attr)

SHELL = PKG + '.shell'
POLICY = PKG + '.policy'
CHECKS = PKG + '._checks'


def verdict_of(call):
    """'passed' / 'failed' / None for a print(...) call."""
    if not (isinstance(call, ast.Call) and U(call.func) == 'print'
            and call.args):
        return None
    a = call.args[0]
    txt = None
    if isinstance(a, ast.BinOp) and isinstance(a.left, ast.Constant):
        txt = a.left.value
    elif isinstance(a, ast.Constant):
        txt = a.value
    elif isinstance(a, ast.JoinedStr) and a.values and isinstance(
            a.values[0], ast.Constant):
        txt = a.values[0].value
    elif isinstance(a, ast.Call) and method_call(a, 'format') and \
            isinstance(method_call(a)[0], ast.Constant):
        txt = method_call(a)[0].value
    if isinstance(txt, str):
        if txt.startswith('passed'):
            return 'passed'
        if txt.startswith('failed'):
            return 'failed'
    return None


def find_evaluator(prog, tool):
    """The helper that evaluates one rule and prints the verdict."""
    for call, g in prog.callees(tool):
        if isinstance(call, ast.Call) and g.module.name == SHELL and any(
                verdict_of(c) for c in ast.walk(g.node)
                if isinstance(c, ast.Call)):
            return g
    if any(verdict_of(c) for c in ast.walk(tool.node)
           if isinstance(c, ast.Call)):
        return tool
    raise AnalysisError('verdict printer not found')


def check_polarity(ctx, ev):
    prog = ctx.prog
    t = Table(prog, ev)
    W = ctx.where(ev.module, ev.node)
    F = W.split(':')[0]
    n = 0
    eval_call = None
    for p in t.paths:
        if any(c.kind == 'exc' for c in p.conds):
            continue
        verdicts = [(verdict_of(e.node), e) for e in p.events
                    if e.kind == 'call' and verdict_of(e.node)]
        # the evaluation result tested on this path
        res = None
        for c in p.conds:
            if c.kind == 'test' and isinstance(c.expr, ast.Name) and \
                    c.expr.id in t.en.defs and isinstance(
                        t.en.defs[c.expr.id], ast.Call):
                d = t.en.defs[c.expr.id]
                if U(d.func) in ev.params:
                    res = (c, d)
                    eval_call = d
        if res is None:
            if verdicts:
                ctx.ob('C19.POLARITY', False, '%s:%d' % (F,
                                                         verdicts[0][1].line),
                       ev.qual, 'verdict without evaluation',
                       'a verdict is printed on a path that does not test '
                       'the result of evaluating the rule')
            continue
        n += 1
        want = 'passed' if res[0].pol else 'failed'
        got = [v for v, _e in verdicts]
        ok = got == [want]
        ctx.ob('C19.POLARITY', ok, '%s:%d' % (
            F, verdicts[0][1].line if verdicts else ev.node.lineno),
            ev.qual, 'result %s -> prints %s' % (
                'truthy' if res[0].pol else 'falsy', got),
            'exactly one verdict, `%s`' % want if ok else
            'for a %s evaluation result the checker prints %s instead of '
            'exactly one `%s`' % ('truthy' if res[0].pol else 'falsy', got,
                                  want))
    ctx.count(len(t.paths))
    if eval_call is None:
        for d in t.en.defs.values():
            if isinstance(d, ast.Call) and U(d.func) in ev.params:
                eval_call = d
    if n == 0:
        ctx.ob('C19.POLARITY', False, W, ev.qual,
               'verdict independent of the result',
               'no path tests the result of evaluating the rule before '
               'printing a verdict')
    ctx.floor('C19.POLARITY', n, 2, 'verdict paths')
    return eval_call


def rules_var(prog, tool):
    for s in walk_no_nested(tool.node):
        if isinstance(s, ast.Assign) and isinstance(s.value, ast.Call) and \
                prog.resolve(tool.module, s.value.func) in (
                    POLICY + '.Rules.load', POLICY + '.Rules.from_dict',
                    POLICY + '.Rules') and isinstance(s.targets[0],
                                                      ast.Name):
            return s.targets[0].id
    raise AnalysisError('the checker does not load a rule set')


def check_call(ctx, tool, ev, eval_call):
    prog = ctx.prog
    RV = rules_var(prog, tool)
    if eval_call is None:
        raise AnalysisError('evaluation call not found')
    # roles inside the evaluator
    a = [U(x) for x in eval_call.args]
    kws = {k.arg: U(k.value) for k in eval_call.keywords}
    rule_p = U(eval_call.func)
    prm = ev.params
    bound = dict(zip(['target', 'creds', 'enforcer', 'current_rule'], a))
    bound.update(kws)
    ok = len(set(bound.values())) == len(bound) and all(
        v in prm for v in bound.values()) and set(bound) == {
            'target', 'creds', 'enforcer', 'current_rule'}
    ctx.ob('C19.CALL', ok, ctx.where(ev.module, eval_call), ev.qual,
           U(eval_call), 'the rule is called as rule(target, credentials, '
           'enforcer, current_rule=name)' if ok else
           'the rule is not evaluated with the four protocol arguments')
    if not ok or ev is tool:
        return
    # what tool passes for those parameters
    calls = [c for c in walk_no_nested(tool.node) if isinstance(c, ast.Call)
             and prog.callee_of(tool, c) is ev]
    ctx.floor('C19.CALL', len(calls), 2, 'evaluator calls')
    # provenance of tool's locals
    assigns = {}
    for s in walk_no_nested(tool.node):
        if isinstance(s, ast.Assign) and len(s.targets) == 1 and isinstance(
                s.targets[0], ast.Name):
            assigns.setdefault(s.targets[0].id, []).append(s.value)
    for c in calls:
        args = dict(zip(prm, [x for x in c.args]))
        for k in c.keywords:
            args[k.arg] = k.value
        role = {r: args.get(p) for r, p in bound.items()}
        role['rule'] = args.get(rule_p)
        probs = []
        # credentials: derived from the access (token) file
        cr = role['creds']
        cr_src = ' '.join(U(v) for v in assigns.get(U(cr), [])) if cr \
            is not None else ''
        if "['token']" not in cr_src and 'token' not in cr_src:
            probs.append('credentials are not the token data (%s)' % U(cr))
        tg = role['target']
        tg_src = ' '.join(U(v) for v in assigns.get(U(tg), [])) if tg \
            is not None else ''
        if tg is None or U(tg) == U(cr) or not tg_src:
            probs.append('target is %s' % (U(tg) if tg is not None
                                           else 'missing'))
        en = role['enforcer']
        en_src = assigns.get(U(en), []) if en is not None else []
        if not any(isinstance(v, ast.Call) and prog.resolve(
                tool.module, v.func) == SHELL + '.FakeEnforcer'
                for v in en_src):
            probs.append('enforcer stand-in is %s' % (U(en) if en
                                                      is not None else None))
        nm = role['current_rule']
        rl = role['rule']
        # rule = rules[name] or the loop pair (name, rule) of rules.items()
        pm = parent_map(tool.node)
        okpair = False
        if nm is not None and rl is not None:
            for v in assigns.get(U(rl), []):
                if isinstance(v, ast.Subscript) and U(v.value) == RV:
                    src = U(v.slice)
                    if src == U(nm) or any(U(x) == src for x in assigns.get(
                            U(nm), [])):
                        okpair = True
            anc = pm.get(c)
            while anc is not None:
                if isinstance(anc, ast.For) and isinstance(
                        anc.target, ast.Tuple) and [U(x) for x in
                                                    anc.target.elts] == [
                        U(nm), U(rl)] and RV + '.items()' in U(anc.iter):
                    okpair = True
                anc = pm.get(anc)
        if not okpair:
            probs.append('the evaluated rule is not the one named by the '
                         'reported policy name')
        ctx.ob('C19.CALL', not probs, ctx.where(tool.module, c), tool.qual,
               U(c)[:90],
               'evaluates the named rule with the target, the token '
               'credentials and the enforcer stand-in' if not probs else
               '; '.join(probs))


def check_default(ctx, tool):
    prog = ctx.prog
    opt = prog.options().get('policy_default_rule')
    want = opt['default'].value if opt and isinstance(
        opt['default'], ast.Constant) else None
    loads = [c for c in walk_no_nested(tool.node) if isinstance(c, ast.Call)
             and prog.resolve(tool.module, c.func) in (
                 POLICY + '.Rules.load', POLICY + '.Rules.from_dict',
                 POLICY + '.Rules')]
    ctx.floor('C19.DEFAULT', len(loads), 1, 'rule-set constructions')
    for c in loads:
        dr = kwarg(c, 'default_rule', 1)
        ok = dr is not None and is_const(dr) and dr.value == want
        ctx.ob('C19.DEFAULT', ok, ctx.where(tool.module, c), tool.qual,
               U(c)[:80], 'the tool falls back to the same default rule '
               'name as the library option (%r)' % want if ok else
               'the checker loads the rules with default rule %s while the '
               'library\'s option defaults to %r' % (
                   U(dr) if dr is not None else None, want))


def check_iter(ctx, tool, ev):
    prog = ctx.prog
    t = Table(prog, tool)
    W = ctx.where(tool.module, tool.node)
    req = tool.params[2] if len(tool.params) > 2 else 'apply_rule'
    RV = rules_var(prog, tool)
    loops = [n for n in walk_no_nested(tool.node) if isinstance(n, ast.For)
             and RV + '.items()' in U(n.iter)]
    ok_sorted = ok_colon = False
    for lp in loops:
        it = lp.iter
        if isinstance(it, ast.Call) and U(it.func) == 'sorted' and not any(
                k.arg in ('reverse', 'key') for k in it.keywords):
            ok_sorted = True
        name = U(lp.target.elts[0]) if isinstance(lp.target, ast.Tuple) \
            else None
        for n in ast.walk(lp):
            if isinstance(n, ast.If) and isinstance(
                    n.test, ast.Compare) and isinstance(
                        n.test.ops[0], ast.In) and is_const(
                            n.test.left, ':') and U(
                                n.test.comparators[0]) == name:
                if any(isinstance(c, ast.Call) and prog.callee_of(
                        tool, c) is ev for b in n.body for c in ast.walk(b)):
                    ok_colon = True
    ctx.ob('C19.ITER', ok_sorted, W, tool.qual, 'iteration order',
           'policies are reported in sorted name order' if ok_sorted else
           'without a requested rule the policies are not reported in '
           'sorted order')
    ctx.ob('C19.ITER', ok_colon, W, tool.qual, 'name filter',
           'only names containing a colon are reported' if ok_colon else
           'the checker does not restrict its report to policy names '
           'containing a colon')
    # with a requested rule: exactly one evaluation, no loop
    bad = None
    n_req = 0
    for p in t.paths:
        rq = [c for c in p.conds if c.kind == 'test' and U(c.expr) == req]
        if not rq:
            continue
        evals = [e for e in p.events if e.kind == 'call'
                 and prog.callee_of(tool, e.node) is ev]
        looped = any(e.kind == 'iter' and '.items()' in U(e.node)
                     and 'Rules' in U(t.expand(e.node)) for e in p.events)
        if rq[0].pol:
            n_req += 1
            if p.outcome.kind == 'raise':
                continue
            denied = any(e.kind == 'call' and verdict_of(e.node) == 'failed'
                         for e in p.events)
            if not ((len(evals) == 1 or denied) and not looped):
                bad = bad or (p, 'a requested rule does not produce exactly '
                              'one verdict')
            for e in evals:
                a0 = e.node.args[0] if e.node.args else None
                if a0 is None or U(a0) != req:
                    bad = bad or (p, 'the verdict is reported under a name '
                                  'other than the requested rule')
        else:
            if not looped and p.outcome.kind != 'raise':
                bad = bad or (p, 'without a requested rule the rule set is '
                              'not iterated')
    ctx.ob('C19.ITER', bad is None and n_req > 0, W, tool.qual,
           'requested rule (%d paths)' % n_req,
           'only the requested rule is evaluated, once' if bad is None
           and n_req else (bad[1] if bad else 'no path handles a requested '
                           'rule'))


def check_duck(ctx):
    prog = ctx.prog
    fe = prog.cls(SHELL + '.FakeEnforcer')
    init = fe.methods.get('__init__')
    if init is None:
        raise AnalysisError('FakeEnforcer has no __init__')
    # attributes assigned unconditionally (top-level statements of __init__)
    defined = set()
    for s in init.node.body:
        if isinstance(s, ast.Assign):
            for tg in s.targets:
                if self_attr(tg):
                    defined.add(self_attr(tg))
    # attributes of `enforcer` read by the built-in checks
    needed = {}
    base = CHECKS + '.BaseCheck'
    for q in prog.subclasses(base):
        c = prog.classes[q]
        for m in c.methods.values():
            prm = m.params
            for n in ast.walk(m.node):
                if isinstance(n, ast.Attribute) and isinstance(
                        n.value, ast.Name) and n.value.id == 'enforcer' and \
                        'enforcer' in prm:
                    needed.setdefault(n.attr, []).append((m, n))
    ctx.floor('C19.DUCK', len(needed), 2, 'enforcer attributes read by '
              'built-in checks')
    for attr, sites in sorted(needed.items()):
        ok = attr in defined
        m, n = sites[0]
        ctx.ob('C19.DUCK', ok, ctx.where(init.module, init.node), fe.qual,
               'enforcer.%s (read by %s)' % (attr, m.qual),
               'defined by the stand-in' if ok else
               'built-in checks read enforcer.%s, which the checker\'s '
               'enforcer stand-in does not define: such rules print '
               '`exception` instead of the library\'s decision' % attr)
    # rules attribute is the loaded rule set
    ok = any(isinstance(s, ast.Assign) and any(
        self_attr(t) == 'rules' for t in s.targets) and U(s.value) ==
        init.params[1] for s in init.node.body)
    ctx.ob('C19.DUCK', ok, ctx.where(init.module, init.node), fe.qual,
           'enforcer.rules', 'is the rule set given to the stand-in' if ok
           else 'the stand-in\'s rules attribute is not the loaded rule '
           'set: rule: references resolve differently from the library')


def check_lookup(ctx, tool):
    prog = ctx.prog
    miss = prog.func(POLICY + '.Rules.__missing__')
    raised = set()
    for n in walk_no_nested(miss.node):
        if isinstance(n, ast.Raise) and n.exc is not None:
            c = n.exc.func if isinstance(n.exc, ast.Call) else n.exc
            raised.add(prog.resolve(miss.module, c))
    pm = parent_map(tool.node)
    n_sites = 0
    for n in walk_no_nested(tool.node):
        if isinstance(n, ast.Subscript) and isinstance(n.ctx, ast.Load) \
                and U(n.value) == rules_var(prog, tool):
            n_sites += 1
            caught = set()
            hs = []
            cur, anc = n, pm.get(n)
            while anc is not None:
                if isinstance(anc, ast.Try) and any(cur is b
                                                    for b in anc.body):
                    for h in anc.handlers:
                        caught |= set(handler_names(prog, tool.module, h))
                        hs.append(h)
                cur, anc = anc, pm.get(anc)
            missing = [r for r in raised if not any(
                r == c or exc_subclass(r, c) or c in (
                    'builtin:Exception', 'builtin:BaseException')
                for c in caught)]
            denies = any(verdict_of(c) == 'failed' for h in hs
                         for c in ast.walk(h) if isinstance(c, ast.Call))
            ok = not missing and denies
            ctx.ob('C19.LOOKUP', ok, ctx.where(tool.module, n), tool.qual,
                   'lookup ' + U(n),
                   'an undefined requested rule without usable default is '
                   'reported as failed, as the library denies it' if ok else
                   ('the lookup of the requested rule can raise %s, which '
                    'the tool does not catch: it aborts with a traceback '
                    'where the library denies' % missing if missing else
                    'the handler of the failed lookup does not report '
                    '`failed`'))
    if n_sites == 0:
        ctx.ob('C19.LOOKUP', True, ctx.where(tool.module, tool.node),
               tool.qual, 'no direct rule-store lookup', 'nothing to guard',
               nontrivial=False)


def check_target(ctx, tool, ev):
    """The target handed to the rules is exactly what the files say."""
    prog = ctx.prog
    t = Table(prog, tool)
    W = ctx.where(tool.module, tool.node)
    tf_param = 'target_file' if 'target_file' in tool.params else None
    flat = prog.functions.get(SHELL + '.flatten')
    if tf_param is None or flat is None:
        raise AnalysisError('target_file parameter / flatten helper '
                            'vanished')
    tpos = ev.params.index('target') if 'target' in ev.params else 2
    bad = None
    n_file = n_default = 0
    for p in t.paths:
        given = [c for c in p.conds if c.kind == 'test'
                 and U(c.expr) == tf_param]
        for e in p.events:
            if e.kind != 'call' or prog.callee_of(tool, e.node) is not ev:
                continue
            if not given:
                bad = bad or (p, 'the target does not depend on whether a '
                              'target file was given')
                continue
            a = e.node.args[tpos] if len(e.node.args) > tpos else None
            ax = t.expand(a) if a is not None else None
            if given[0].pol:
                n_file += 1
                ok = isinstance(ax, ast.Call) and prog.callee_of(
                    tool, ax) is flat and len(ax.args) == 1 and isinstance(
                        ax.args[0], ast.Call) and (prog.resolve(
                            tool.module, ax.args[0].func) or '').endswith(
                                ('jsonutils.loads', 'json.loads'))
                if not ok:
                    bad = bad or (p, 'with a target file the rules are not '
                                  'evaluated against exactly the flattened '
                                  'contents of that file (got %s)' % (
                                      U(ax)[:80] if ax is not None else None))
            else:
                n_default += 1
                ok = isinstance(ax, ast.Dict) and any(
                    is_const(k, 'user_id') for k in ax.keys)
                if not ok:
                    bad = bad or (p, 'without a target file the default '
                                  'target is not the token\'s own user / '
                                  'project (got %s)' % (
                                      U(ax)[:80] if ax is not None else None))
    ctx.ob('C19.TARGET', bad is None and n_file > 0 and n_default > 0, W,
           tool.qual, 'target derivation (%d file paths, %d default paths)'
           % (n_file, n_default),
           'the target is the flattened target file when one is given, '
           'else the token\'s own user/project' if bad is None else
           bad[1] + ' (path: %s)' % bad[0].cond_text()[-200:])
    # flatten keeps every leaf
    tfl = Table(prog, flat)
    dropped = None
    n = 0
    for p in tfl.paths:
        if not any(c.kind == 'loop' and c.pol for c in p.conds):
            continue
        n += 1
        adds = [e for e in p.events if e.kind == 'call' and method_call(
            e.node) and method_call(e.node)[1] in ('append', 'extend',
                                                   'update', '__setitem__')]
        stores = [e for e in p.events if e.kind == 'store']
        if not adds and not stores:
            dropped = p
    ctx.ob('C19.TARGET', dropped is None and n > 0, ctx.where(
        flat.module, flat.node), flat.qual,
        'flatten keeps every entry (%d element paths)' % n,
        'every key of the target file reaches the flat target, whatever '
        'its value' if dropped is None and n else
        'flatten drops an entry on path %s: rules that test that '
        'attribute decide differently from the library' % (
            dropped.cond_text()[-200:] if dropped else 'none'))


def check(ctx):
    prog = ctx.prog
    ctx.use(SHELL, POLICY, CHECKS, PKG + '.opts')
    ctx.explain('C19 (necessary conditions): verdict polarity on every path '
                'of the evaluator, argument roles traced from the tool\'s '
                'locals, default-rule agreement with the library option, '
                'iteration rules, duck-typing of the enforcer stand-in '
                'against what built-in checks read, and the lookup of a '
                'requested rule.')
    ctx.assume('agreement on all inputs is differential by nature and not '
               'decided')
    tool = prog.func(SHELL + '.tool')
    ev = find_evaluator(prog, tool)
    eval_call = check_polarity(ctx, ev)
    check_call(ctx, tool, ev, eval_call)
    check_default(ctx, tool)
    check_iter(ctx, tool, ev)
    check_duck(ctx)
    check_lookup(ctx, tool)
    check_target(ctx, tool, ev)
    # C19.STATELESS: a verdict depends on the files of this call only
    from ..modstate import state_uses
    region = {q: f for q, f in prog.region(tool).items()
              if f.module.name in (SHELL, PKG + '._cache_handler')}
    uses = state_uses(prog, region)
    for f, node, name, how in uses:
        ctx.ob('C19.STATELESS', False, ctx.where(f.module, node), f.qual,
               '%s module-level `%s`' % (how, name),
               'the checker %s the module-level object `%s`: what one run '
               'read (policy, token or target file) can be served to a '
               'later run in the same process' % (how, name))
    cached = [c for f in region.values() for c in walk_no_nested(f.node)
              if isinstance(c, ast.Call) and (prog.resolve(
                  f.module, c.func) or '').endswith('read_cached_file')]
    for c in cached:
        ctx.ob('C19.STATELESS', False, 'oslo_policy/shell.py:%d' % c.lineno,
               SHELL, U(c)[:60], 'the checker reads its input files through '
               'the mtime-keyed file cache: a file replaced by an older '
               'copy is answered from stale contents')
    if not uses and not cached:
        ctx.ob('C19.STATELESS', True, ctx.where(tool.module, tool.node),
               tool.qual, 'module-level state / file cache in the tool',
               'none: every run reads its files afresh')

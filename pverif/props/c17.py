"""C17 - a generated sample policy file overrides nothing and states every
default (string-shape / taint analysis of the sample generator)."""
import ast

from .. import PKG
from ..dte import Table
from ..model import AnalysisError
from ..paths import Enumerator
from ..strshape import (TemplateInjection, segments, merge, Lit, Hole, Join, Unknown,
                        shape_text)
from ..util import (U, is_const, method_call, kwarg, walk_no_nested,
                    returns_of, parent_map)

GEN = PKG + '.generator'
POLICY = PKG + '.policy'

SINGLE_ATTRS = {'name', 'check_str', 'deprecated_since', 'scope_types',
                'method', 'path'}
MULTI_ATTRS = {'description', 'deprecated_reason'}


# ---------------------------------------------------------------- sanitizer
def check_sanitizer(ctx):
    """The help-text formatter returns only #-prefixed lines: read off its
    paths (module helpers and nested functions inlined, constants
    propagated)."""
    from ..dte import inline_helpers
    from ..pathutil import deref, elem_source
    prog = ctx.prog
    f = prog.func(GEN + '._format_help_text')
    F = ctx.where(f.module, f.node).split(':')[0]
    t = Table(prog, f, inline=inline_helpers(prog, modules={GEN},
                                             classes=False),
              closures=True, handler_paths=False, max_depth=4)
    en = t.en
    ok_all = True
    seen = set()
    shapes = set()
    sites = set()
    unrecognised = None

    def ob(ok, line, construct, detail):
        nonlocal ok_all
        k = (line, ok, construct)
        if k in seen:
            return
        seen.add(k)
        ok_all = ok_all and ok
        ctx.ob('C17.SANITIZER', ok, '%s:%d' % (F, line), f.qual, construct,
               detail)

    def wrap_ok(call):
        """textwrap.wrap(..., initial_indent='#..', subsequent_indent='#..')"""
        call = en.expand(call)
        if isinstance(call, ast.Call) and method_call(call, 'wrap') and \
                isinstance(method_call(call)[0], ast.Call) and prog.resolve(
                    f.module, method_call(call)[0].func) == \
                'ext:textwrap.TextWrapper':
            # TextWrapper(<options>).wrap(text) = textwrap.wrap(text,
            # <options>)
            call = ast.Call(func=ast.Attribute(
                value=ast.Name(id='textwrap', ctx=ast.Load()), attr='wrap',
                ctx=ast.Load()), args=list(call.args),
                keywords=list(method_call(call)[0].keywords))
        if not (isinstance(call, ast.Call) and prog.resolve(
                f.module, call.func) == 'ext:textwrap.wrap'):
            return False, 'extended by something other than wrapped ' \
                '#-indented lines'
        ii = kwarg(call, 'initial_indent')
        si = kwarg(call, 'subsequent_indent')
        if not (is_const(ii) and isinstance(ii.value, str)
                and ii.value.startswith('#')):
            return False, 'initial_indent does not start with #'
        if not (is_const(si) and isinstance(si.value, str)
                and si.value.startswith('#')):
            return False, 'subsequent_indent does not start with # ' \
                '(continuation lines of a wrapped paragraph are not ' \
                'comments)'
        return True, 'wrapped with #-indents'

    def is_line(node):
        """an element of <text>.splitlines(), possibly stripped"""
        src = node
        while isinstance(src, ast.Call) and method_call(src) and \
                method_call(src)[1] in ('rstrip', 'strip', 'lstrip',
                                        'expandtabs'):
            src = method_call(src)[0]
        it = elem_source(en, src) if isinstance(src, ast.Name) else None
        it = en.expand(it) if it is not None else None
        return isinstance(it, ast.Call) and bool(method_call(it,
                                                             'splitlines'))

    def lines_source(e, depth=6):
        """e is a collection of single lines: <text>.splitlines(), a copy of
        one, or a run of an itertools.groupby over one"""
        if depth <= 0:
            return False
        if isinstance(e, ast.Name) and e.id.startswith('SYM_'):
            d = en.defs.get(e.id)
            if isinstance(d, ast.AST):
                return lines_source(d, depth - 1)
            return False
        if isinstance(e, ast.Call) and method_call(e, 'splitlines'):
            return True
        if isinstance(e, ast.Call) and prog.resolve(
                f.module, e.func) == 'ext:textwrap.wrap' and not any(
                    k.arg in ('replace_whitespace', 'initial_indent',
                              'subsequent_indent', 'placeholder', None)
                    for k in e.keywords):
            # the chunks of a wrapped text: white space (line breaks
            # included) is replaced by blanks before the text is cut
            return True
        if isinstance(e, ast.Call) and isinstance(e.func, ast.Name) and \
                e.func.id in ('list', 'tuple') and len(e.args) == 1:
            return lines_source(e.args[0], depth - 1)
        if isinstance(e, ast.Subscript) and is_const(e.slice, 1) and \
                isinstance(e.value, ast.Name):
            it = elem_source(en, e.value)
            it = en.expand(it) if it is not None else None
            if isinstance(it, ast.Call) and (prog.resolve(
                    f.module, it.func) or '').endswith(
                        'itertools.groupby') and it.args:
                return lines_source(it.args[0], depth - 1)
        return False

    def expand_keep_elems(e):
        return en.expand(e)

    for p in t.paths:
        line = p.outcome.line
        if p.outcome.kind == 'raise':
            continue
        if p.outcome.kind != 'return' or p.outcome.expr is None:
            ob(False, line, 'falls off the end',
               'the help-text formatter can return None')
            continue
        v = deref(en, p.outcome.expr)
        trailing = False
        if isinstance(v, ast.BinOp) and isinstance(v.op, ast.Add) and \
                is_const(deref(en, v.right), '\n'):
            v = deref(en, v.left)
            trailing = True
        acc = None
        if is_const(v) and isinstance(v.value, str):
            txt = v.value
            if txt.endswith('\n') and '\n' not in txt[:-1]:
                txt = txt[:-1]
                trailing = True
            ok = txt.startswith('#') and '\n' not in txt
            ob(ok, line, 'return %r' % v.value, 'a bare comment marker'
               if ok else 'the help-text formatter can return %r, which is '
               'not a comment' % v.value)
        elif isinstance(v, ast.Call) and method_call(v, 'join') and \
                len(v.args) == 1:
            sep = deref(en, method_call(v)[0])
            a0 = v.args[0]
            if is_const(sep, '\n') and isinstance(a0, ast.Name) and \
                    a0.id.startswith('SYM_m'):
                acc = a0.id
                ob(True, line, 'return ' + U(en.expand(v))[:60],
                   'lines joined by a single newline, no trailing newline')
            elif is_const(sep, '') and isinstance(
                    a0, (ast.GeneratorExp, ast.ListComp)) and len(
                        a0.generators) == 1 and not a0.generators[0].ifs \
                    and isinstance(a0.generators[0].iter, ast.Name) and \
                    a0.generators[0].iter.id.startswith('SYM_m') and \
                    isinstance(a0.elt, ast.BinOp) and isinstance(
                        a0.elt.op, ast.Add) and U(a0.elt.left) == U(
                            a0.generators[0].target) and is_const(
                                a0.elt.right, '\n'):
                acc = a0.generators[0].iter.id
                trailing = True
                ob(True, line, 'return ' + U(en.expand(v))[:60],
                   'every collected line followed by a newline')
        if acc is None and not (is_const(v) and isinstance(v.value, str)):
            full = en.expand(v)
            raw = f.params[0] if f.params else None
            # positive evidence: the caller's text itself (or pieces of it
            # that were never given a '#') is handed back
            direct = isinstance(full, ast.Name) and full.id == raw or (
                isinstance(full, ast.Call) and method_call(full) and U(
                    method_call(full)[0]) == raw) or (
                isinstance(full, (ast.BinOp, ast.JoinedStr)) and raw in {
                    x.id for x in ast.walk(full) if isinstance(x, ast.Name)}
                and '#' not in U(full))
            if direct:
                ob(False, line, 'return ' + U(full)[:60],
                   'the help-text formatter returns the description itself '
                   '(%s), not #-prefixed lines' % U(full)[:50])
                continue
            unrecognised = unrecognised or (line, U(full)[:80])
            continue
        shapes.add(trailing)
        if acc is None:
            continue
        d = en.defs.get(acc)
        ok = isinstance(d, ast.List) and not d.elts
        ob(ok, line, 'collected lines start as %s' % (
            U(d) if isinstance(d, ast.AST) else '?'), 'starts empty' if ok
           else 'the collected lines do not start from an empty list')
        for ev in p.events:
            if ev.kind in ('store', 'aug', 'del') and any(
                    isinstance(n, ast.Name) and n.id == acc
                    for n in ast.walk(ev.node)):
                ob(False, ev.line, ev.text()[:80],
                   'unrecognised way of adding a line')
                continue
            if ev.kind != 'call':
                continue
            mc = method_call(ev.node)
            if not mc or U(mc[0]) != acc:
                continue
            if mc[1] == 'append' and len(ev.node.args) == 1:
                sites.add(ev.line)
                a = en.expand(ev.node.args[0])
                try:
                    segs = merge(segments(a))
                except Unknown:
                    segs = None
                ok = False
                detail = 'appended line is not a #-prefixed single line'
                if segs and isinstance(segs[0], Lit) and \
                        segs[0].text.startswith('#') and not any(
                            isinstance(x, Lit) and '\n' in x.text
                            for x in segs):
                    ok = True
                    detail = 'a #-prefixed line'
                    for x in segs[1:]:
                        if isinstance(x, Hole):
                            if not is_line(x.node):
                                ok = False
                                detail = 'the appended line embeds %s, ' \
                                    'which is not a single line taken ' \
                                    'from splitlines()' % x.source
                        elif isinstance(x, Join):
                            ok = False
                ob(ok, ev.line, U(ev.node)[:80], detail)
            elif mc[1] == 'extend' and len(ev.node.args) == 1:
                sites.add(ev.line)
                a = en.expand(ev.node.args[0])
                if isinstance(a, (ast.GeneratorExp, ast.ListComp)) and len(
                        a.generators) == 1 and not a.generators[0].ifs:
                    # one #-prefixed line per line of a run of lines
                    g = a.generators[0]
                    ok = False
                    detail = 'extended by something other than #-prefixed ' \
                        'single lines'
                    try:
                        segs = merge(segments(a.elt))
                    except Unknown:
                        segs = None
                    if segs and isinstance(segs[0], Lit) and \
                            segs[0].text.startswith('#') and not any(
                                isinstance(x, Lit) and '\n' in x.text
                                for x in segs):
                        ok = True
                        detail = 'one #-prefixed line per line'
                        for x in segs[1:]:
                            if isinstance(x, Join):
                                ok = False
                            elif isinstance(x, Hole):
                                src = x.node
                                while isinstance(src, ast.Call) and \
                                        method_call(src) and method_call(
                                            src)[1] in ('rstrip', 'strip',
                                                        'lstrip',
                                                        'expandtabs'):
                                    src = method_call(src)[0]
                                if not (isinstance(src, ast.Name) and U(
                                        src) == U(g.target)
                                        and lines_source(g.iter)):
                                    ok = False
                                    detail = 'the added line embeds %s, ' \
                                        'which is not a single line taken ' \
                                        'from splitlines()' % x.source
                    ob(ok, ev.line, U(a)[:80], detail)
                    continue
                ok, detail = wrap_ok(ev.node.args[0])
                ob(ok, ev.line, U(en.expand(ev.node))[:80], detail)
            elif mc[1] in ('insert', '__setitem__', '__iadd__', 'remove',
                           'pop', 'clear', 'sort', 'reverse'):
                ob(False, ev.line, U(ev.node)[:80],
                   'unrecognised way of adding a line')
    ctx.count(len(t.paths))
    if unrecognised is not None and ok_all:
        raise AnalysisError(
            'the help-text formatter %s returns `%s` (line %d): not one of '
            'the shapes this analysis reads (a # constant, a newline-join '
            'of collected lines); whether every line it produces starts '
            'with # is not decided' % (f.qual, unrecognised[1],
                                       unrecognised[0]))
    if ok_all:
        ctx.floor('C17.SANITIZER', len(sites), 2, 'line insertions')
    f.sanitized_shapes = shapes or {False}
    return f, ok_all


# -------------------------------------------------------------------- consts
def check_consts(ctx):
    prog = ctx.prog
    gs = prog.func(GEN + '.generate_sample')
    inner = prog.func(GEN + '._generate_sample')
    sec = prog.func(GEN + '._sort_and_format_by_section')
    fmt = prog.func(GEN + '._format_rule_default_yaml')
    # entry point -> _generate_sample: include_help not overridden
    calls = [c for c in ast.walk(gs.node) if isinstance(c, ast.Call)
             and prog.callee_of(gs, c) is inner]
    ctx.floor('C17.CONSTS', len(calls), 1, 'sample entry calls')
    for c in calls:
        ih = kwarg(c, 'include_help', 3)
        ok = ih is None or is_const(ih, True)
        ctx.ob('C17.CONSTS', ok, ctx.where(gs.module, c), gs.qual,
               U(c)[:80], 'the sample is generated with help text'
               if ok else 'the sample entry point switches the help text '
               '(and with it the commenting of rule lines) off')
    d = inner.defaults().get('include_help')
    ctx.ob('C17.CONSTS', is_const(d, True), ctx.where(inner.module,
                                                      inner.node),
           inner.qual, 'include_help default ' + (U(d) if d is not None
                                                  else 'none'),
           'help text is on by default' if is_const(d, True) else
           '_generate_sample no longer includes help by default: rule lines '
           'are emitted uncommented')
    # _generate_sample -> sections: forwards include_help
    for c in ast.walk(inner.node):
        if isinstance(c, ast.Call) and prog.callee_of(inner, c) is sec:
            ih = kwarg(c, 'include_help', 2)
            ok = ih is not None and U(ih) == 'include_help'
            ctx.ob('C17.CONSTS', ok, ctx.where(inner.module, c), inner.qual,
                   U(c)[:80], 'forwards include_help' if ok else
                   'include_help is not forwarded to the section formatter')
    n = 0
    for c in ast.walk(sec.node):
        if isinstance(c, ast.Call) and prog.callee_of(sec, c) is fmt:
            n += 1
            ih = kwarg(c, 'include_help', 1)
            cr = kwarg(c, 'comment_rule', 2)
            ok = ih is not None and U(ih) == 'include_help' and (
                cr is None or is_const(cr, True))
            ctx.ob('C17.CONSTS', ok, ctx.where(sec.module, c), sec.qual,
                   U(c)[:80], 'the YAML formatter is called with the '
                   'caller\'s include_help and default comment_rule'
                   if ok else 'the section formatter overrides comment_rule '
                   'or drops include_help')
    ctx.floor('C17.CONSTS', n, 1, 'formatter calls')
    d = fmt.defaults()
    for k in ('include_help', 'comment_rule'):
        ok = is_const(d.get(k), True)
        ctx.ob('C17.CONSTS', ok, ctx.where(fmt.module, fmt.node), fmt.qual,
               '%s default %s' % (k, U(d[k]) if k in d else 'none'),
               'on by default' if ok else
               'the formatter\'s %s no longer defaults to True: sample rule '
               'lines are not commented out' % k)
    return fmt


# --------------------------------------------------------------------- lines
def classify_source(expr_text, node):
    if isinstance(node, ast.Call) and U(node.func).endswith(
            ('jsonutils.dumps', 'json.dumps')) and not any(
                k.arg == 'indent' for k in node.keywords):
        # a JSON scalar / flow sequence never contains a raw line break
        return 'SINGLE-LINE'
    for n in ast.walk(node):
        if isinstance(n, ast.Call) and U(n.func) in (
                'yaml.safe_dump', 'yaml.dump') and not any(
                    k.arg == 'width' for k in n.keywords):
            # the YAML emitter folds a long scalar at 80 columns
            return 'MULTI-LINE'
    callee_parts = set()
    for n in ast.walk(node):
        if isinstance(n, ast.Call):
            callee_parts |= {id(x) for x in ast.walk(n.func)
                             if isinstance(x, ast.Attribute)}
    attrs = {n.attr for n in ast.walk(node) if isinstance(n, ast.Attribute)
             and id(n) not in callee_parts}
    keys = {n.slice.value for n in ast.walk(node)
            if isinstance(n, ast.Subscript) and isinstance(
                n.slice, ast.Constant) and isinstance(n.slice.value, str)}
    names = attrs | keys
    if names & MULTI_ATTRS:
        return 'MULTI-LINE'
    if names and names <= (SINGLE_ATTRS | {'deprecated_rule'}):
        return 'SINGLE-LINE'
    return 'UNKNOWN'


class LineMachine:
    """Splits an abstract output (literal / hole / join segments) into lines
    and collects what is wrong with them."""

    def __init__(self, nl):
        self.nl = nl                 # the comment formatter ends with \n
        self.problems = []
        self.line_start = True
        self.commented = False
        self.rule_lines = []         # segments of each `#"` line
        self.cur_rule = None
        self.prefix = ''             # literal text of the line so far, None
                                     # once a hole was written on it

    def state(self):
        return (self.line_start, self.commented)

    def _rule_add(self, seg):
        if self.cur_rule is not None:
            self.cur_rule.append(seg)

    def lit(self, text):
        parts = text.split('\n')
        for i, part in enumerate(parts):
            if part:
                if part.startswith('#"') and (self.line_start
                                              or self.cur_rule is None):
                    if not self.line_start:
                        self.problems.append(
                            ('rule-line-not-at-line-start', part[:40]))
                    self.cur_rule = []
                    self.rule_lines.append(self.cur_rule)
                if self.line_start:
                    self.commented = part.startswith('#')
                    if not self.commented:
                        self.problems.append(('uncommented-line', part[:60]))
                    self.line_start = False
                self._rule_add(Lit(part))
                if self.prefix is not None:
                    self.prefix += part
            if i < len(parts) - 1:
                self._rule_add(Lit('\n'))
                self.cur_rule = None
                self.line_start = True
                self.commented = False
                self.prefix = ''

    def feed(self, segs):
        for s in segs:
            if isinstance(s, Lit):
                self.lit(s.text)
            elif isinstance(s, Hole):
                prefix, self.prefix = self.prefix, None
                if s.cls == 'SINGLE-LINE':
                    self.prefix = prefix     # consulted below, then dropped
                if s.cls == 'SANITIZED':
                    if not self.line_start and not self.commented:
                        self.problems.append(
                            ('sanitized-in-uncommented-line', s.source))
                    if self.nl:
                        self.line_start, self.commented = True, False
                        self.cur_rule = None
                    else:
                        self.commented = True
                        self.line_start = False
                elif s.cls == 'SINGLE-LINE':
                    if self.prefix == '#' and _json_scalar_of(s.node,
                                                              '.name'):
                        # `#` + the name as a JSON scalar: the rule line
                        # with a serialised name
                        self.cur_rule = [Lit('#')]
                        self.rule_lines.append(self.cur_rule)
                    if self.line_start or not self.commented:
                        self.problems.append(('raw-value-outside-comment',
                                              s.source))
                    self.line_start = False
                    self.prefix = None
                    self._rule_add(s)
                else:
                    if s.cls == 'UNKNOWN' and s.node is not None and any(
                            isinstance(x, ast.Call)
                            for x in ast.walk(s.node)):
                        raise AnalysisError(
                            'the sample holds the value of %s, a computed '
                            'text whose line structure is not read'
                            % s.source[:80])
                    self.problems.append(('multi-line-source-unsanitized',
                                          s.source))
                    self.line_start = False
                    self._rule_add(s)
            elif isinstance(s, Join):
                seps = ''.join(x.text for x in s.sep if isinstance(x, Lit))
                if s.elem is not None and any(
                        isinstance(x, Lit) and '\n' in x.text
                        for x in s.elem):
                    # a block of whole lines repeated zero or more times:
                    # run it twice (separator in between); it must hand the
                    # line state back as it found it
                    before = self.state()
                    for _ in range(2):
                        self.feed(s.elem)
                        if seps:
                            self.lit(seps)
                    if self.state() != before:
                        self.problems.append(('join-breaks-lines',
                                              s.iter_text))
                    continue
                if '\n' in seps:
                    self.problems.append(('join-with-newline', s.iter_text))
                if self.line_start or not self.commented:
                    self.problems.append(('raw-value-outside-comment',
                                          s.iter_text))
                self.line_start = False
                self._rule_add(s)


def _json_scalar_of(node, suffix):
    """node is jsonutils.dumps(<x>) of an attribute ending in suffix."""
    return isinstance(node, ast.Call) and U(node.func).endswith(
        ('jsonutils.dumps', 'json.dumps')) and len(node.args) == 1 and \
        U(node.args[0]).endswith(suffix) and not any(
            k.arg == 'indent' for k in node.keywords)


def analyse_lines(segs, nl=False):
    """Returns (problems [(kind, text)], rule lines) for an abstract output.
    nl: the comment formatter's result ends with a newline."""
    m = LineMachine(nl)
    m.feed(segs)
    if len(m.rule_lines) != 1:
        m.problems.append(('rule-line-count', '%d lines start with #"'
                           % len(m.rule_lines)))
    return m.problems, m.rule_lines


def rule_line_ok(prog, module, line):
    """`#"` name `": ` <JSON scalar of check_str> newline  (or the quoted
    form `": "` check_str `"`)."""
    shape = [(type(x).__name__, getattr(x, 'text', None)
              or getattr(x, 'source', None)) for x in merge(line)]
    if shape == [('Lit', '#"'), ('Hole', 'default.name'), ('Lit', '": "'),
                 ('Hole', 'default.check_str'), ('Lit', '"'), ('Lit', '\n')] \
            or shape == [('Lit', '#"'), ('Hole', 'default.name'),
                         ('Lit', '": "'), ('Hole', 'default.check_str'),
                         ('Lit', '"\n')]:
        return True, ''
    segs = merge(line)
    if len(segs) == 5 and shape[0] == ('Lit', '#') and shape[2] == (
            'Lit', ': ') and shape[4] == ('Lit', '\n') and \
            _json_scalar_of(getattr(segs[1], 'node', None),
                            'default.name') and U(
                                segs[1].node.args[0]) == 'default.name' \
            and _json_scalar_of(getattr(segs[3], 'node', None),
                                'default.check_str') and U(
                                    segs[3].node.args[0]) == \
            'default.check_str':
        return True, ''
    if len(segs) == 5 and shape[:3] == [('Lit', '#"'),
                                        ('Hole', 'default.name'),
                                        ('Lit', '": ')] and \
            shape[4] == ('Lit', '\n') and isinstance(segs[3], Hole):
        h = segs[3].node
        if isinstance(h, ast.Call) and (prog.resolve(module, h.func) or ''
                                        ).endswith(('jsonutils.dumps',
                                                    'json.dumps')) and \
                len(h.args) == 1 and U(h.args[0]) == 'default.check_str' \
                and not any(k.arg == 'indent' for k in h.keywords):
            return True, ''
    return False, ''.join(
        x.text if isinstance(x, Lit) else '<%s>' % getattr(x, 'source', '?')
        for x in merge(line))[:120]


def check_lines(ctx, fmt, sanitizer, sanitizer_ok):
    from ..dte import inline_helpers
    prog = ctx.prog
    true = ast.Constant(value=True)
    from ..respell import respelling
    # per-character re-spelling helpers are judged as such (the engine reads
    # a faithful one as the identity; an unfaithful one is reported below)
    respellers = {g.qual for g in prog.module(GEN).functions.values()
                  if len(g.params) == 1 and respelling(prog, g) is not None}
    en = Enumerator(prog, fmt, env0={'include_help': true,
                                     'comment_rule': true},
                    inline=inline_helpers(prog, modules={GEN}, classes=False,
                                          exclude={sanitizer.qual}
                                          | respellers),
                    handler_paths=False, max_depth=4)
    paths = en.run()
    F = ctx.where(fmt.module, fmt.node).split(':')[0]

    def hook(e):
        if isinstance(e, ast.Name) and e.id in en.defs and isinstance(
                en.defs[e.id], ast.AST):
            return segments(en.defs[e.id], hook)
        if isinstance(e, ast.Call) and prog.resolve(
                fmt.module, e.func) == sanitizer.qual:
            return [Hole('_format_help_text(%s)' % U(e.args[0])[:40],
                         'SANITIZED' if sanitizer_ok else 'MULTI-LINE', e)]
        if isinstance(e, ast.BoolOp):
            return [Hole(U(e), classify_source(U(e), e), e)]
        if isinstance(e, (ast.Attribute, ast.Subscript)):
            ex = en.expand(e)
            return [Hole(U(ex), classify_source(U(ex), ex), ex)]
        if isinstance(e, ast.Call) and len(e.args) == 1 and not e.keywords:
            # a value re-spelled on its way out (the engine reads f(x) as x
            # for a faithful re-spelling, so what arrives here is not one)
            q = prog.resolve(fmt.module, e.func)
            g = prog.functions.get(q) if q else None
            if g is not None and g.qual != sanitizer.qual:
                from ..respell import respelling, json_alphabet
                r = respelling(prog, g, json_alphabet(e.args[0]))
                if r is None:
                    raise AnalysisError(
                        'a value of the sample is written through %s, which '
                        'is not one of the per-character re-spelling forms '
                        'read (respell.py)' % g.qual)
                if r[0] == 'bad':
                    respell_bad.setdefault(g.qual, (e, r[1]))
                return segments(e.args[0], hook)
        return None
    respell_bad = {}
    injected = {}
    cur = {'path': None}

    def deref(nm):
        """the sequence a name stands for on the current path: what it was
        bound to, followed by what was appended to it since"""
        d = en.defs.get(nm.id)
        if not isinstance(d, ast.AST):
            return None
        p = cur['path']
        extra = []
        for ev in (p.events if p is not None else ()):
            mc = method_call(ev.node) if ev.kind == 'call' else None
            if mc and U(mc[0]) == nm.id:
                if mc[1] == 'append' and len(ev.node.args) == 1:
                    extra.append(ast.List(elts=[ev.node.args[0]],
                                          ctx=ast.Load()))
                elif mc[1] == 'extend' and len(ev.node.args) == 1:
                    extra.append(ev.node.args[0])
                elif mc[1] not in ('copy', 'index', 'count'):
                    return None
        out = d
        for x in extra:
            out = ast.BinOp(left=out, op=ast.Add(), right=x)
        return out
    hook.deref = deref
    shapes = {}
    bad = {}
    bad_rule = None
    n = n_rule = 0
    for p in paths:
        cur['path'] = p
        if p.outcome.kind != 'return' or p.outcome.expr is None:
            continue
        n += 1
        try:
            segs = merge(segments(p.outcome.expr, hook))
        except TemplateInjection as e:
            injected.setdefault(str(e), p)
            continue
        except Unknown as e:
            raise AnalysisError('output of the YAML formatter not '
                                'recognised: %s' % e)

        def classify_all(sg):
            for x in sg:
                if isinstance(x, Hole) and x.cls is None:
                    x.cls = classify_source(x.source, x.node) if x.node \
                        is not None else 'UNKNOWN'
                elif isinstance(x, Join):
                    classify_all(x.sep)
                    if x.elem is not None:
                        classify_all(x.elem)
        classify_all(segs)
        shape = shape_text(segs)
        shapes[shape] = shapes.get(shape, 0) + 1
        for nlv in sorted(getattr(sanitizer, 'sanitized_shapes', {False})):
            problems, rule_lines = analyse_lines(segs, nlv)
            for kind, what in problems:
                bad.setdefault((kind, what), (p, shape))
            for rl in rule_lines:
                n_rule += 1
                ok, got = rule_line_ok(prog, fmt.module, rl)
                if not ok and bad_rule is None:
                    bad_rule = (p, got)
    ctx.count(n, [('C17.LINES', s) for s in list(shapes)[:64]])
    ctx.extra['formatter_paths'] = n
    ctx.extra['distinct_output_shapes'] = len(shapes)
    for (kind, what), (p, shape) in sorted(bad.items())[:6]:
        human = {
            'uncommented-line': 'the sample can contain the line `%s...` '
            'which is not commented out' % what,
            'raw-value-outside-comment': 'the value %s is written at the '
            'start of a line or on a line that is not a comment' % what,
            'multi-line-source-unsanitized': 'the free-text %s is written '
            'without passing the comment formatter: an embedded line break '
            'starts an uncommented line that overrides a policy' % what,
            'sanitized-in-uncommented-line': 'formatted help text %s '
            'continues a line that is not a comment' % what,
            'join-with-newline': 'values of %s are joined with line breaks'
            % what,
            'join-breaks-lines': 'the lines generated per element of %s do '
            'not begin and end on line boundaries' % what,
            'rule-line-not-at-line-start': 'the rule line `%s...` does not '
            'start on a line of its own (it is glued to the comment before '
            'it): uncommenting it does not state the default' % what,
            'rule-line-count': 'a section does not contain exactly one '
            'commented rule line (%s)' % what}[kind]
        ctx.ob('C17.LINES', False, '%s:%d' % (F, p.outcome.line), fmt.qual,
               '%s: %s' % (kind, what), human + ' (path: %s)' % (
                   p.cond_text()[-200:]), witness={'shape': shape[:400]})
    if not bad:
        ctx.ob('C17.LINES', True, ctx.where(fmt.module, fmt.node), fmt.qual,
               '%d paths, %d distinct output shapes' % (n, len(shapes)),
               'every line of every possible sample section starts with # '
               '(or is empty); free text occurs only through the comment '
               'formatter; names and check strings only on comment lines')
    for why, p in sorted(injected.items())[:3]:
        ctx.ob('C17.RULE-LINE', False, '%s:%d' % (F, p.outcome.line),
               fmt.qual, 'sample text used as a format template',
               'the rule line is not the name and check string of the '
               'default: ' + why)
    for q, (e, why) in sorted(respell_bad.items()):
        ctx.ob('C17.RULE-LINE', False, ctx.where(fmt.module, e), fmt.qual,
               'value re-spelled by %s' % q.split('.')[-1],
               'the rule line does not read back as the default: ' + why)
    ok_rule = bad_rule is None and n_rule > 0
    if not (injected and n_rule == 0):
        ctx.ob('C17.RULE-LINE', ok_rule, '%s:%d' % (
            F, bad_rule[0].outcome.line) if bad_rule else ctx.where(
                fmt.module, fmt.node), fmt.qual,
            'commented rule line (%d occurrences)' % n_rule,
            'maps the policy name to its default check string' if ok_rule
            else 'the rule line is not `"name": "check_str"` of the default '
            '(shape %s)' % (bad_rule[1] if bad_rule
                            else 'no rule line found'))
    for sh in list(shapes)[:6]:
        ctx.sample('shape: ' + sh[:300].replace('\n', '\\n'))
    ctx.floor('C17.LINES', n, 8, 'formatter paths')
    return en, paths


def _own_printed_form(prog, f, e):
    """`str(<rule default>)` written out: what the __str__ of the rule
    default classes returns, with the parameter in place of self (when all
    of them share one __str__ with a single, call-free return)."""
    import copy
    subj = f.params[0] if f.params else None
    owners = set()
    for q in (POLICY + '.RuleDefault', POLICY + '.DocumentedRuleDefault'):
        m = prog.find_method(q, '__str__')
        owners.add(m.qual if m is not None else None)
    if subj is None or len(owners) != 1 or None in owners:
        return e
    m = prog.functions[owners.pop()]
    from ..util import inert_stmt
    body = [b for b in m.node.body if not inert_stmt(b)]
    if len(body) != 1 or not isinstance(body[0], ast.Return) or \
            body[0].value is None:
        return e
    ret = body[0].value

    class S(ast.NodeTransformer):
        def visit_Name(self, n):
            if n.id == 'self':
                return ast.copy_location(ast.Name(id=subj, ctx=ast.Load()),
                                         n)
            return n

    class T(ast.NodeTransformer):
        def visit_Call(self, n):
            self.generic_visit(n)
            if isinstance(n.func, ast.Name) and n.func.id == 'str' and len(
                    n.args) == 1 and not n.keywords and isinstance(
                        n.args[0], ast.Name) and n.args[0].id == subj:
                return S().visit(copy.deepcopy(ret))
            return n
    return T().visit(copy.deepcopy(e))


def check_json(ctx):
    prog = ctx.prog
    fj = prog.func(GEN + '._format_rule_default_json')
    from ..dte import inline_helpers as _ih
    tj = Table(prog, fj, inline=_ih(prog, modules={GEN}, classes=False),
               handler_paths=False)
    rets = [p for p in tj.paths if p.outcome.kind == 'return'
            and p.outcome.expr is not None]
    ok = False
    raw = False

    def dumped(h, what):
        """hole h is <JSON serializer>(default.<what>)"""
        n = getattr(h, 'node', None)
        return isinstance(h, Hole) and isinstance(n, ast.Call) and (
            prog.resolve(fj.module, n.func) or '').endswith(
                ('jsonutils.dumps', 'json.dumps')) and len(
                    n.args) == 1 and U(n.args[0]) == 'default.' + what \
            and not any(k.arg in ('indent', 'separators')
                        for k in n.keywords)
    if len(rets) == 1 and len(tj.paths) == 1:
        try:
            segs = merge(segments(_own_printed_form(
                prog, fj, tj.expand(rets[0].outcome.expr))))
            shape = [(type(s).__name__, getattr(s, 'text', None)
                      or getattr(s, 'source', None)) for s in segs]
            raw = shape == [('Lit', '"'), ('Hole', 'default.name'),
                            ('Lit', '": "'), ('Hole', 'default.check_str'),
                            ('Lit', '"')]
            # the value as a JSON scalar; the name likewise, or between
            # quotes (registered names are free of quotes and backslashes)
            if len(segs) == 3 and dumped(segs[0], 'name') and isinstance(
                    segs[1], Lit) and segs[1].text.strip() == ':' and \
                    dumped(segs[2], 'check_str'):
                ok = True
            if len(segs) == 4 and shape[:2] == [
                    ('Lit', '"'), ('Hole', 'default.name')] and isinstance(
                        segs[2], Lit) and segs[2].text.strip() == '":' and \
                    dumped(segs[3], 'check_str'):
                ok = True
        except Unknown:
            ok = False
    # a JSON scalar re-spelled on the way out must stay JSON: the only
    # escape JSON has for a code point is \\uXXXX
    from ..respell import respelling, json_alphabet, show
    seen, work = set(), [fj]
    while work:
        g = work.pop()
        if g.qual in seen or len(seen) > 40:
            continue
        seen.add(g.qual)
        for c in ast.walk(g.node):
            if not isinstance(c, ast.Call):
                continue
            h = prog.callee_of(g, c)
            if h is None or h.module.name != GEN:
                continue
            if len(c.args) == 1 and not c.keywords:
                r = respelling(prog, h, json_alphabet(c.args[0]))
                if r is not None and r[0] == 'yes':
                    for tmpl, cond in r[2]:
                        if not tmpl.startswith('\\u'):
                            ok = False
                            ctx.ob('C17.JSON', False, ctx.where(g.module, c),
                                   fj.qual, 'JSON member re-spelled by %s'
                                   % h.name, 'the characters %s are written '
                                   'with the escape %s, which JSON does not '
                                   'have: the JSON sample is not valid JSON'
                                   % (show(cond), tmpl))
                            break
                    else:
                        continue
                    break
            work.append(h)
    ctx.ob('C17.JSON', ok, ctx.where(fj.module, fj.node), fj.qual,
           'JSON member', 'a member `"name": <check_str as a JSON scalar>`'
           if ok else (
               'the check string is pasted between double quotes: a TAB in '
               'it (white space of the rule language, e.g. '
               '`role:x\\tor role:y`; the quantifier excludes only quotes, '
               'backslashes and line breaks) makes the JSON sample invalid '
               'JSON' if raw else
               'the JSON member is not `"name": "check_str"` of the default'),
           witness={'check_str': 'role:x\tor role:y'} if raw else None)
    inner = prog.func(GEN + '._generate_sample')
    from ..dte import inline_helpers
    sec = prog.func(GEN + '._sort_and_format_by_section')
    ti = Table(prog, inner, inline=inline_helpers(
        prog, modules={GEN}, classes=False, exclude={sec.qual}),
        max_depth=4)
    okw = False
    n_json_writes = 0
    for p in ti.paths:
        is_json = any(c.kind == 'test' and c.pol and isinstance(
            c.expr, ast.Compare) and 'output_format' in U(c.expr)
            and "'json'" in U(c.expr) for c in p.conds)
        if not is_json:
            continue
        for ev in p.events:
            if ev.kind != 'call' or not ev.node.args or not (
                    method_call(ev.node, 'writelines')
                    or method_call(ev.node, 'write')):
                continue
            n_json_writes += 1
            a = ti.expand(ev.node.args[0])
            if method_call(ev.node, 'writelines'):
                if not isinstance(a, (ast.Tuple, ast.List)):
                    continue
                pieces = list(a.elts)
            else:
                pieces = [a]        # one text: its pieces in order
            try:
                whole = merge([x for pc in pieces for x in segments(pc)])
            except Unknown:
                continue
            js = [i for i, x in enumerate(whole) if isinstance(x, Join)]
            if len(js) != 1:
                continue
            s0, s1, s2 = whole[:js[0]], [whole[js[0]]], whole[js[0] + 1:]
            txt = lambda sg: ''.join(x.text for x in sg
                                     if isinstance(x, Lit))
            if all(isinstance(x, Lit) for x in s0 + s2) and \
                    txt(s0).strip() == '{' and txt(s2).strip() == '}' and \
                    len(s1) == 1 and isinstance(s1[0], Join) and (
                        s1[0].elem is None or (
                            len(s1[0].elem) == 1 and isinstance(
                                s1[0].elem[0], Hole))) and all(
                        isinstance(x, Lit) for x in s1[0].sep) and \
                    txt(s1[0].sep).strip() == ',':
                okw = True
    if not okw and not n_json_writes:
        raise AnalysisError(
            'the sample writer %s has no path that tests output_format '
            "against 'json' and writes lines: how the JSON sample is put "
            'together is not one of the shapes this analysis reads'
            % inner.qual)
    ctx.ob('C17.JSON', okw, ctx.where(inner.module, inner.node), inner.qual,
           'JSON document', 'members joined by commas inside one object'
           if okw else 'the JSON sample is not one object of comma-joined '
           'members')


def check_every(ctx):
    """Every registered default of every section yields one entry."""
    prog = ctx.prog
    sec = prog.func(GEN + '._sort_and_format_by_section')
    fmt = prog.func(GEN + '._format_rule_default_yaml')
    fj = prog.func(GEN + '._format_rule_default_json')
    # (generator helpers that hand out the defaults section by section are
    # walked through; the formatters themselves stay calls)
    from ..dte import inline_helpers as _ih2
    _gen = _ih2(prog, modules={GEN}, classes=False).gen

    def _only_generators(call, frame):
        return None
    _only_generators.gen = lambda call, frame: (
        None if _gen(call, frame) in (fmt, fj, sec) else _gen(call, frame))
    t = Table(prog, sec, inline=_only_generators)
    W = ctx.where(sec.module, sec.node)
    bad = None
    joined = None
    early = None
    n = 0
    for p in t.paths:
        loops = [c for c in p.conds if c.kind == 'loop']
        # one text per *section* (the entries of a section joined before
        # they are handed on): a section without defaults then contributes
        # an empty member, which the comma-joined JSON document cannot hold
        for e in p.events:
            if e.kind != 'yield' or not loops:
                continue
            v = t.expand(e.node)
            if isinstance(v, ast.Call) and method_call(v, 'join') and any(
                    isinstance(x, ast.Call) and prog.callee_of(sec, x) in (
                        fmt, fj) for x in ast.walk(v)):
                joined = joined or (p, e)
        # a section never ends the generation: once the loop over the
        # sections is entered the function leaves it by exhausting it
        if loops and loops[0].pol and p.outcome.kind == 'return' and \
                not any(e.kind == 'loopdone' and U(e.node) == U(
                    loops[0].expr) for e in p.events) and early is None:
            early = p
        if len(loops) < 2 or not all(c.pol for c in loops):
            continue
        # which format this path is about, from all its tests of it
        cand = {'yaml', 'json', '*'}
        for c in p.conds:
            e = c.expr
            if c.kind != 'test' or not isinstance(e, ast.Compare) or \
                    len(e.ops) != 1:
                continue
            l, r_ = e.left, e.comparators[0]
            if isinstance(l, ast.Constant):
                l, r_ = r_, l
            if U(l) != 'output_format':
                continue
            if isinstance(e.ops[0], (ast.Eq, ast.NotEq)) and isinstance(
                    r_, ast.Constant):
                pos = c.pol == isinstance(e.ops[0], ast.Eq)
                cand = (cand & {r_.value}) if pos else cand - {r_.value}
            elif isinstance(e.ops[0], (ast.In, ast.NotIn)) and isinstance(
                    r_, (ast.Tuple, ast.List, ast.Set)) and all(
                        isinstance(x, ast.Constant) for x in r_.elts):
                vs = {x.value for x in r_.elts}
                pos = c.pol == isinstance(e.ops[0], ast.In)
                cand = (cand & vs) if pos else cand - vs
        fmtc = next(iter(cand)) if len(cand) == 1 and '*' not in cand \
            else None
        ys = [e for e in p.events if e.kind == 'yield']
        if fmtc not in ('yaml', 'json'):
            # no entry is only legitimate for an unknown output format
            neither = 0
            for c in p.conds:
                e = c.expr
                if c.kind == 'test' and not c.pol and isinstance(
                        e, ast.Compare) and isinstance(
                            e.ops[0], ast.Eq) and 'output_format' in U(e):
                    neither += 1
            if not ys and neither < 2 and bad is None:
                bad = (p, 'yaml/json')
            continue
        n += 1
        want = fmt if fmtc == 'yaml' else fj
        ok = len(ys) == 1
        if ok:
            v = t.expand(ys[0].node)
            ok = isinstance(v, ast.Call) and prog.callee_of(sec, v) is want \
                and v.args and isinstance(v.args[0], ast.Name) and \
                v.args[0].id.startswith('SYM_e')
        if not ok and bad is None:
            bad = (p, fmtc)
    if early is not None:
        ctx.ob('C17.EVERY', False, '%s:%d' % (W.split(':')[0],
                                              early.outcome.line), sec.qual,
               'return inside the loop over the sections',
               'one section can end the whole generation (path: %s): every '
               'section sorted after it is missing from the sample'
               % early.cond_text()[-200:])
        return
    if joined is not None:
        ctx.ob('C17.EVERY', False, '%s:%d' % (W.split(':')[0],
                                              joined[1].line), sec.qual,
               'yield ' + U(t.expand(joined[1].node))[:60],
               'the section formatter hands on one text per section (its '
               'entries joined) instead of one per default: a section '
               'without defaults contributes an empty text, and the sample '
               'writer\'s comma-joined JSON document gets an empty member')
        return
    if bad is None and n < 2:
        raise AnalysisError(
            'the section formatter %s has no path on which a loop over the '
            'sections and one over their defaults formats an entry under a '
            'test of output_format: how entries are produced is not one of '
            'the shapes this analysis reads' % sec.qual)
    ctx.ob('C17.EVERY', bad is None and n >= 2, W, sec.qual,
           'one entry per registered default (%d element paths)' % n,
           'every default of every section is formatted and yielded exactly '
           'once, whatever its deprecation status' if bad is None and n >= 2
           else 'a registered default can be left out of the %s sample '
           '(path: %s): the sample no longer states every default' % (
               bad[1] if bad else '?',
               bad[0].cond_text()[-250:] if bad else 'no element path'))
    # the sample writer emits every section it is given
    inner = prog.func(GEN + '._generate_sample')
    from ..dte import inline_helpers
    ti = Table(prog, inner, inline=inline_helpers(
        prog, modules={GEN}, classes=False, exclude={sec.qual}),
        max_depth=4)
    okw = False
    filtered = False
    for p in ti.paths:
        # (a) list(<section generator>) is written as it is
        for ev in p.events:
            if ev.kind == 'call' and (method_call(ev.node, 'writelines')
                                      or method_call(ev.node, 'write')) \
                    and ev.node.args:
                for x in ast.walk(ti.expand(ev.node.args[0])):
                    if isinstance(x, ast.Call) and U(x.func) in (
                            'list', 'tuple') and x.args and isinstance(
                                x.args[0], ast.Call) and prog.resolve(
                                    inner.module, x.args[0].func) == sec.qual:
                        okw = True
                    # [s for s in <section generator>]: every one, as it is
                    if isinstance(x, (ast.ListComp, ast.GeneratorExp)) and \
                            len(x.generators) == 1 and not \
                            x.generators[0].ifs and U(x.elt) == U(
                                x.generators[0].target) and isinstance(
                                    x.generators[0].iter, ast.Call) and \
                            prog.resolve(inner.module,
                                         x.generators[0].iter.func) == \
                            sec.qual:
                        okw = True
        # (b) every element of the section generator is appended
        loops = [c for c in p.conds if c.kind == 'loop' and c.pol
                 and isinstance(ti.expand(c.expr), ast.Call)
                 and prog.resolve(inner.module,
                                  ti.expand(c.expr).func) == sec.qual]
        if not loops:
            continue
        elems = [sym for sym, d in ti.en.defs.items() if isinstance(d, tuple)
                 and d and d[0] == 'elem' and d[1] is loops[0].expr]
        app = any(e.kind == 'call' and method_call(e.node, 'append')
                  and isinstance(e.node.args[0], ast.Name)
                  and e.node.args[0].id in elems for e in p.events)
        conds_in_loop = [c for c in p.conds if c.kind == 'test' and any(
            isinstance(x, ast.Name) and x.id in elems
            for x in ast.walk(c.expr))]
        if app and not conds_in_loop:
            okw = True
        if conds_in_loop or not app:
            filtered = True
    okw = okw and not filtered
    ctx.ob('C17.EVERY', okw, ctx.where(inner.module, inner.node),
           inner.qual, 'sections collected unconditionally',
           'every formatted section is written to the sample' if okw else
           'the sample writer filters the formatted sections')


_CONSUMERS = ('list', 'tuple', 'sorted', 'set', 'frozenset', 'any', 'all',
              'sum', 'max', 'min', 'dict')


def _walk_sites(prog, fn, pol, delegates):
    """(consumption sites in fn of the per-section collections taken out of
    the mapping `pol`, parent map).  A call of a generator function of the
    module that is handed the mapping is a lazy view of its sections (it is
    recorded in `delegates` and judged on its own)."""
    pm = parent_map(fn.node)
    names = set()
    for n in walk_no_nested(fn.node):
        if isinstance(n, ast.Assign) and len(n.targets) == 1 and isinstance(
                n.targets[0], ast.Name) and isinstance(
                    n.value, ast.Subscript) and U(n.value.value) == pol:
            names.add(n.targets[0].id)
        if isinstance(n, (ast.For, ast.comprehension)) and isinstance(
                n.iter, ast.Call) and method_call(n.iter) and U(
                    method_call(n.iter)[0]) == pol and method_call(
                        n.iter)[1] in ('items', 'values'):
            tg = n.target
            if method_call(n.iter)[1] == 'items' and isinstance(
                    tg, ast.Tuple) and len(tg.elts) == 2 and isinstance(
                        tg.elts[1], ast.Name):
                names.add(tg.elts[1].id)
            elif method_call(n.iter)[1] == 'values' and isinstance(
                    tg, ast.Name):
                names.add(tg.id)
    LAZY = ('map', 'filter', 'iter', 'enumerate', 'zip', 'reversed',
            'itertools.chain', 'chain', 'itertools.chain.from_iterable',
            'chain.from_iterable', 'itertools.islice', 'islice')

    def subject(x):
        return (isinstance(x, ast.Name) and x.id in names) or (
            isinstance(x, ast.Subscript) and U(x.value) == pol)

    def delegate(x):
        """g(<mapping>, ..): a generator function of the program walking
        the mapping for its caller"""
        if not isinstance(x, ast.Call):
            return None
        g = prog.callee_of(fn, x)
        if g is None or g is fn or not any(
                isinstance(y, (ast.Yield, ast.YieldFrom))
                for y in walk_no_nested(g.node)):
            return None
        for k, a in enumerate(x.args):
            if isinstance(a, ast.Name) and a.id == pol:
                off = 1 if (g.cls is not None and not g.is_static) else 0
                if k + off < len(g.params):
                    delegates.append((g, g.params[k + off]))
                    return g
        return None

    def lazy_view(x):
        if subject(x) or delegate(x) is not None:
            return True
        if isinstance(x, ast.GeneratorExp):
            return any(lazy_view(g.iter) for g in x.generators) or \
                lazy_view(x.elt)
        if isinstance(x, ast.Call) and U(x.func) in LAZY:
            return any(lazy_view(a) for a in x.args)
        return False
    changed = True
    while changed:
        changed = False
        for n in walk_no_nested(fn.node):
            if isinstance(n, ast.Assign) and len(n.targets) == 1 and \
                    isinstance(n.targets[0], ast.Name) and \
                    n.targets[0].id not in names and not subject(
                        n.value) and lazy_view(n.value):
                names.add(n.targets[0].id)
                changed = True
    sites = []
    for n in walk_no_nested(fn.node):
        if isinstance(n, ast.For) and lazy_view(n.iter):
            sites.append(n)
        elif isinstance(n, (ast.ListComp, ast.SetComp, ast.DictComp)):
            if any(lazy_view(g.iter) for g in n.generators):
                sites.append(n)
        elif isinstance(n, ast.Call) and isinstance(n.func, ast.Name) and \
                n.func.id in _CONSUMERS and any(lazy_view(a)
                                                for a in n.args):
            sites.append(n)
        elif isinstance(n, ast.Call) and method_call(n, 'join') and \
                n.args and lazy_view(n.args[0]):
            sites.append(n)
        elif isinstance(n, ast.Starred) and lazy_view(n.value):
            sites.append(n)
        elif isinstance(n, ast.YieldFrom) and lazy_view(n.value):
            sites.append(n)
    sites.sort(key=lambda n_: (n_.lineno, n_.col_offset))
    return sites, pm


def check_walked_once(ctx):
    """What a namespace hands over as its rule defaults may be walked only
    once (entry points return lists, but also generators and
    itertools.chain objects): between taking a section's collection out of
    the policies mapping and rendering it, nothing else may iterate it - a
    second walk of a one-shot iterable finds nothing, and the sample then
    states none of that namespace's defaults."""
    prog = ctx.prog
    sec = prog.func(GEN + '._sort_and_format_by_section')
    W = ctx.where(sec.module, sec.node)
    todo = [(sec, sec.params[0])]
    done = set()
    total = 0
    bad = None
    while todo:
        fn, pol = todo.pop(0)
        if (fn.qual, pol) in done:
            continue
        done.add((fn.qual, pol))
        delegates = []
        sites, pm = _walk_sites(prog, fn, pol, delegates)
        todo.extend(delegates)
        total += len(sites)

        def chain(n, pm=pm):
            out = []
            cur = n
            while cur is not None:
                out.append(cur)
                cur = pm.get(cur)
            return out

        def exclusive(a, b):
            """a and b sit in different arms of one if statement"""
            ca, cb = chain(a), chain(b)
            for i, x in enumerate(ca):
                if isinstance(x, ast.If) and x in cb:
                    j = cb.index(x)
                    if i == 0 or j == 0:
                        return False
                    return (ca[i - 1] in x.body and cb[j - 1] in x.orelse) \
                        or (ca[i - 1] in x.orelse and cb[j - 1] in x.body)
            return False
        for i, a in enumerate(sites):
            for b in sites[i + 1:]:
                if not exclusive(a, b):
                    bad = bad or (fn, a, b)
    if total == 0:
        raise AnalysisError('no walk of a section\'s rule defaults found in '
                            '%s' % sec.qual)
    ctx.ob('C17.ONCE', bad is None, ctx.where(bad[0].module, bad[2])
           if bad else W, bad[0].qual if bad else sec.qual,
           '%d walk(s) of a section\'s rule defaults' % total,
           'each section\'s collection is walked once' if bad is None else
           'a section\'s rule defaults are walked at line %d and again at '
           'line %d: for a namespace that hands over a one-shot iterable '
           '(a generator, itertools.chain) the second walk finds nothing '
           'and the sample omits all its defaults' % (
               bad[1].lineno, bad[2].lineno))


def check_fresh_output(ctx, rule='C17.FRESH-OUTPUT'):
    """A generated file is the generated text and nothing else: every open
    for writing in the generator module truncates (mode 'w' / 'x', or
    os.open with O_TRUNC) - never append / update-in-place, which would keep
    the tail of a longer file that was there before."""
    prog = ctx.prog
    mod = prog.module(GEN)
    n = 0
    for f in sorted(mod.functions.values(), key=lambda x: x.qual):
        for c in walk_no_nested(f.node):
            if not isinstance(c, ast.Call):
                continue
            r = prog.resolve(f.module, c.func)
            bad = None
            if r in ('builtin:open', 'ext:io.open', 'ext:codecs.open'):
                m = kwarg(c, 'mode', 1)
                if m is None or not (isinstance(m, ast.Constant)
                                     and isinstance(m.value, str)):
                    continue
                if not set(m.value) & set('wax+'):
                    continue            # opened for reading
                n += 1
                if 'w' not in m.value and 'x' not in m.value:
                    bad = 'mode %r keeps what the file held before' % m.value
            elif r == 'ext:os.open' and len(c.args) >= 2:
                flags = U(c.args[1])
                if 'O_WRONLY' not in flags and 'O_RDWR' not in flags:
                    continue
                n += 1
                if 'O_TRUNC' not in flags and 'O_EXCL' not in flags:
                    bad = 'os.open(%s) without O_TRUNC overwrites in ' \
                          'place' % flags
            else:
                continue
            ctx.ob(rule, bad is None, ctx.where(f.module, c), f.qual,
                   U(c)[:70], 'an existing file is emptied first' if bad is
                   None else 'the output file is not truncated (%s): written '
                   'over a longer file, the sample keeps that file\'s tail - '
                   'uncommented rules of an old policy file, or invalid '
                   'YAML / JSON' % bad)
    ctx.floor(rule, n, 1, 'opens for writing in the generator')


def check(ctx):
    ctx.use(GEN)
    ctx.explain('C17: the help-text formatter is proved to return only '
                '#-prefixed lines; constants are propagated from the sample '
                'entry point; for every path of the YAML formatter under '
                'those constants the abstract output (literal and hole '
                'segments) is split into lines and every line must be a '
                'comment, with free-text sources only through the '
                'formatter.')
    ctx.assume('textwrap.wrap honours its indents')
    ctx.assume('names, check strings, methods, paths, scope names and '
               'deprecated_since contain no line break (the quantifier)')
    sanitizer, ok = check_sanitizer(ctx)
    fmt = check_consts(ctx)
    check_lines(ctx, fmt, sanitizer, ok)
    check_json(ctx)
    check_every(ctx)
    check_walked_once(ctx)
    check_fresh_output(ctx)

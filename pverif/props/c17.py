"""C17 - a generated sample policy file overrides nothing and states every
default (string-shape / taint analysis of the sample generator)."""
import ast

from .. import PKG
from ..dte import Table
from ..model import AnalysisError
from ..paths import Enumerator
from ..strshape import (segments, merge, Lit, Hole, Join, Unknown,
                        shape_text)
from ..util import (U, is_const, method_call, kwarg, walk_no_nested,
                    returns_of)

GEN = PKG + '.generator'

SINGLE_ATTRS = {'name', 'check_str', 'deprecated_since', 'scope_types',
                'method', 'path'}
MULTI_ATTRS = {'description', 'deprecated_reason'}


# ---------------------------------------------------------------- sanitizer
def check_sanitizer(ctx):
    prog = ctx.prog
    f = prog.func(GEN + '._format_help_text')
    W = lambda n: ctx.where(f.module, n)
    param = f.params[0]
    nested = {n.name: n for n in f.node.body
              if isinstance(n, ast.FunctionDef)}
    ok_all = True

    def wrap_ok(call):
        """textwrap.wrap(..., initial_indent='#..', subsequent_indent='#..')"""
        if not (isinstance(call, ast.Call) and prog.resolve(
                f.module, call.func) == 'ext:textwrap.wrap'):
            return False, 'not a textwrap.wrap call'
        ii = kwarg(call, 'initial_indent')
        si = kwarg(call, 'subsequent_indent')
        if not (is_const(ii) and isinstance(ii.value, str)
                and ii.value.startswith('#')):
            return False, 'initial_indent does not start with #'
        if not (is_const(si) and isinstance(si.value, str)
                and si.value.startswith('#')):
            return False, 'subsequent_indent does not start with # ' \
                '(continuation lines of a wrapped paragraph are not ' \
                'comments)'
        return True, 'wrapped with #-indents'

    # the line loop: for line in <param>....splitlines()
    line_vars = set()
    for n in walk_no_nested(f.node):
        if isinstance(n, ast.For) and isinstance(n.iter, ast.Call) and \
                method_call(n.iter, 'splitlines') and isinstance(
                    n.target, ast.Name):
            line_vars.add(n.target.id)
    # the accumulated list: the one joined in the return
    rets = returns_of(f.node)
    acc = None
    n_ret = 0
    shapes = set()
    for r in rets:
        n_ret += 1
        v = r.value
        # a trailing newline may be appended to either kind of return
        trailing = False
        if isinstance(v, ast.BinOp) and isinstance(v.op, ast.Add) and \
                is_const(v.right, '\n'):
            v = v.left
            trailing = True
        if is_const(v) and isinstance(v.value, str) and v.value.endswith(
                '\n') and '\n' not in v.value[:-1]:
            v = ast.copy_location(ast.Constant(value=v.value[:-1]), v)
            trailing = True
        this_shape = [trailing]
        if is_const(v) and isinstance(v.value, str):
            ok = v.value.startswith('#') and '\n' not in v.value
            ctx.ob('C17.SANITIZER', ok, W(r), f.qual, 'return ' + U(v),
                   'a bare comment marker' if ok else
                   'the help-text formatter can return %r, which is not a '
                   'comment' % v.value)
            ok_all = ok_all and ok
        elif isinstance(v, ast.Call) and method_call(v, 'join') and \
                is_const(method_call(v)[0], '') and len(v.args) == 1 and \
                isinstance(v.args[0], (ast.GeneratorExp, ast.ListComp)) \
                and len(v.args[0].generators) == 1 and not \
                v.args[0].generators[0].ifs and isinstance(
                    v.args[0].generators[0].iter, ast.Name) and isinstance(
                        v.args[0].elt, ast.BinOp) and isinstance(
                            v.args[0].elt.op, ast.Add) and U(
                                v.args[0].elt.left) == U(
                                    v.args[0].generators[0].target) and \
                is_const(v.args[0].elt.right, '\n'):
            # ''.join(line + '\n' for line in lines): newline terminated
            acc = v.args[0].generators[0].iter.id
            this_shape[0] = True
            ctx.ob('C17.SANITIZER', True, W(r), f.qual, 'return ' + U(v),
                   'every collected line followed by a newline')
        elif isinstance(v, ast.Call) and method_call(v, 'join') and \
                is_const(method_call(v)[0], '\n') and len(v.args) == 1 and \
                isinstance(v.args[0], ast.Name):
            acc = v.args[0].id
            ctx.ob('C17.SANITIZER', True, W(r), f.qual, 'return ' + U(v),
                   'lines joined by a single newline, no trailing newline')
        else:
            ctx.ob('C17.SANITIZER', False, W(r), f.qual, 'return ' + U(v),
                   'the help-text formatter returns something that is not a '
                   "'#' constant or a newline-join of collected lines")
            ok_all = False
        shapes.add(this_shape[0])
    if acc is None:
        raise AnalysisError('help-text formatter has no joined accumulator')
    # every element that enters the accumulator
    n_el = 0
    for n in walk_no_nested(f.node):
        if isinstance(n, ast.Assign) and U(n.targets[0]) == acc:
            ok = isinstance(n.value, ast.List) and not n.value.elts
            ctx.ob('C17.SANITIZER', ok, W(n), f.qual, U(n),
                   'starts empty' if ok else 'the collected lines do not '
                   'start from an empty list')
            ok_all = ok_all and ok
        if not isinstance(n, ast.Call):
            continue
        mc = method_call(n)
        if not mc or U(mc[0]) != acc:
            continue
        if mc[1] == 'append' and len(n.args) == 1:
            n_el += 1
            a = n.args[0]
            try:
                segs = merge(segments(a))
            except Unknown as e:
                segs = None
            ok = False
            detail = 'appended line is not a #-prefixed single line'
            if segs and isinstance(segs[0], Lit) and segs[0].text.startswith(
                    '#') and not any(isinstance(s, Lit) and '\n' in s.text
                                     for s in segs):
                ok = True
                detail = 'a #-prefixed line'
                for s in segs[1:]:
                    if isinstance(s, Hole):
                        src = s.node
                        while isinstance(src, ast.Call) and method_call(
                                src) and method_call(src)[1] in (
                                    'rstrip', 'strip', 'lstrip',
                                    'expandtabs'):
                            src = method_call(src)[0]
                        if not (isinstance(src, ast.Name)
                                and src.id in line_vars):
                            ok = False
                            detail = 'the appended line embeds %s, which ' \
                                     'is not a single line taken from ' \
                                     'splitlines()' % s.source
                    elif isinstance(s, Join):
                        ok = False
            ctx.ob('C17.SANITIZER', ok, W(n), f.qual, U(n)[:80], detail)
            ok_all = ok_all and ok
        elif mc[1] == 'extend' and len(n.args) == 1:
            n_el += 1
            a = n.args[0]
            ok, detail = False, 'extended by something other than ' \
                'wrapped #-indented lines'
            if isinstance(a, ast.Call) and isinstance(a.func, ast.Name) and \
                    a.func.id in nested:
                rr = returns_of(nested[a.func.id])
                if len(rr) == 1:
                    ok, detail = wrap_ok(rr[0].value)
            else:
                ok, detail = wrap_ok(a)
            ctx.ob('C17.SANITIZER', ok, W(n), f.qual, U(n)[:80], detail)
            ok_all = ok_all and ok
        elif mc[1] in ('insert', '__setitem__', '__iadd__'):
            ctx.ob('C17.SANITIZER', False, W(n), f.qual, U(n)[:80],
                   'unrecognised way of adding a line')
            ok_all = False
    for n in walk_no_nested(f.node):
        if isinstance(n, ast.AugAssign) and U(n.target) == acc:
            ctx.ob('C17.SANITIZER', False, W(n), f.qual, U(n)[:80],
                   'unrecognised way of adding a line')
            ok_all = False
    ctx.floor('C17.SANITIZER', n_el, 3, 'line insertions')
    f.sanitized_shapes = shapes or {False}
    return f, ok_all


# -------------------------------------------------------------------- consts
def check_consts(ctx):
    prog = ctx.prog
    gs = prog.func(GEN + '.generate_sample')
    inner = prog.func(GEN + '._generate_sample')
    sec = prog.func(GEN + '._sort_and_format_by_section')
    fmt = prog.func(GEN + '._format_rule_default_yaml')
    # entry point -> _generate_sample: include_help not overridden
    calls = [c for c in ast.walk(gs.node) if isinstance(c, ast.Call)
             and prog.callee_of(gs, c) is inner]
    ctx.floor('C17.CONSTS', len(calls), 1, 'sample entry calls')
    for c in calls:
        ih = kwarg(c, 'include_help', 3)
        ok = ih is None or is_const(ih, True)
        ctx.ob('C17.CONSTS', ok, ctx.where(gs.module, c), gs.qual,
               U(c)[:80], 'the sample is generated with help text'
               if ok else 'the sample entry point switches the help text '
               '(and with it the commenting of rule lines) off')
    d = inner.defaults().get('include_help')
    ctx.ob('C17.CONSTS', is_const(d, True), ctx.where(inner.module,
                                                      inner.node),
           inner.qual, 'include_help default ' + (U(d) if d is not None
                                                  else 'none'),
           'help text is on by default' if is_const(d, True) else
           '_generate_sample no longer includes help by default: rule lines '
           'are emitted uncommented')
    # _generate_sample -> sections: forwards include_help
    for c in ast.walk(inner.node):
        if isinstance(c, ast.Call) and prog.callee_of(inner, c) is sec:
            ih = kwarg(c, 'include_help', 2)
            ok = ih is not None and U(ih) == 'include_help'
            ctx.ob('C17.CONSTS', ok, ctx.where(inner.module, c), inner.qual,
                   U(c)[:80], 'forwards include_help' if ok else
                   'include_help is not forwarded to the section formatter')
    n = 0
    for c in ast.walk(sec.node):
        if isinstance(c, ast.Call) and prog.callee_of(sec, c) is fmt:
            n += 1
            ih = kwarg(c, 'include_help', 1)
            cr = kwarg(c, 'comment_rule', 2)
            ok = ih is not None and U(ih) == 'include_help' and (
                cr is None or is_const(cr, True))
            ctx.ob('C17.CONSTS', ok, ctx.where(sec.module, c), sec.qual,
                   U(c)[:80], 'the YAML formatter is called with the '
                   'caller\'s include_help and default comment_rule'
                   if ok else 'the section formatter overrides comment_rule '
                   'or drops include_help')
    ctx.floor('C17.CONSTS', n, 1, 'formatter calls')
    d = fmt.defaults()
    for k in ('include_help', 'comment_rule'):
        ok = is_const(d.get(k), True)
        ctx.ob('C17.CONSTS', ok, ctx.where(fmt.module, fmt.node), fmt.qual,
               '%s default %s' % (k, U(d[k]) if k in d else 'none'),
               'on by default' if ok else
               'the formatter\'s %s no longer defaults to True: sample rule '
               'lines are not commented out' % k)
    return fmt


# --------------------------------------------------------------------- lines
def classify_source(expr_text, node):
    attrs = {n.attr for n in ast.walk(node) if isinstance(n, ast.Attribute)}
    keys = {n.slice.value for n in ast.walk(node)
            if isinstance(n, ast.Subscript) and isinstance(
                n.slice, ast.Constant) and isinstance(n.slice.value, str)}
    names = attrs | keys
    if names & MULTI_ATTRS:
        return 'MULTI-LINE'
    if names and names <= (SINGLE_ATTRS | {'deprecated_rule'}):
        return 'SINGLE-LINE'
    return 'UNKNOWN'


def analyse_lines(segs, nl=False):
    """Returns list of problems [(kind, text)] for an abstract output.
    nl: the comment formatter's result ends with a newline."""
    problems = []
    line_start = True
    commented = False
    cur = ''
    rule_lines = 0

    def lit(text):
        nonlocal line_start, commented, cur
        parts = text.split('\n')
        for i, part in enumerate(parts):
            if part:
                if part.startswith('#"'):
                    nonlocal rule_lines
                    rule_lines += 1
                    if not line_start:
                        problems.append(('rule-line-not-at-line-start',
                                         part[:40]))
                if line_start:
                    commented = part.startswith('#')
                    if not commented:
                        problems.append(('uncommented-line', part[:60]))
                    line_start = False
                cur += part
            if i < len(parts) - 1:
                line_start = True
                commented = False
                cur = ''
    for s in segs:
        if isinstance(s, Lit):
            lit(s.text)
        elif isinstance(s, Hole):
            if s.cls == 'SANITIZED':
                if not line_start and not commented:
                    problems.append(('sanitized-in-uncommented-line',
                                     s.source))
                if nl:
                    line_start, commented = True, False
                else:
                    commented = True
                    line_start = False
            elif s.cls == 'SINGLE-LINE':
                if line_start or not commented:
                    problems.append(('raw-value-outside-comment', s.source))
                line_start = False
            else:
                problems.append(('multi-line-source-unsanitized', s.source))
                line_start = False
        elif isinstance(s, Join):
            seps = ''.join(x.text for x in s.sep if isinstance(x, Lit))
            if '\n' in seps:
                problems.append(('join-with-newline', s.iter_text))
            if line_start or not commented:
                problems.append(('raw-value-outside-comment', s.iter_text))
            line_start = False
    if rule_lines != 1:
        problems.append(('rule-line-count', '%d lines start with #"'
                         % rule_lines))
    return problems


def check_lines(ctx, fmt, sanitizer, sanitizer_ok):
    prog = ctx.prog
    true = ast.Constant(value=True)
    en = Enumerator(prog, fmt, env0={'include_help': true,
                                     'comment_rule': true},
                    handler_paths=False)
    paths = en.run()
    F = ctx.where(fmt.module, fmt.node).split(':')[0]

    def hook(e):
        if isinstance(e, ast.Name) and e.id in en.defs and isinstance(
                en.defs[e.id], ast.AST):
            return segments(en.defs[e.id], hook)
        if isinstance(e, ast.Call) and prog.callee_of(fmt, e) is sanitizer:
            return [Hole('_format_help_text(%s)' % U(e.args[0])[:40],
                         'SANITIZED' if sanitizer_ok else 'MULTI-LINE', e)]
        if isinstance(e, ast.BoolOp):
            return [Hole(U(e), classify_source(U(e), e), e)]
        if isinstance(e, (ast.Attribute, ast.Subscript)):
            x = e
            ex = en.expand(e)
            return [Hole(U(ex), classify_source(U(ex), ex), ex)]
        return None
    shapes = {}
    bad = {}
    n = 0
    for p in paths:
        if p.outcome.kind != 'return' or p.outcome.expr is None:
            continue
        n += 1
        try:
            segs = merge(segments(p.outcome.expr, hook))
        except Unknown as e:
            raise AnalysisError('output of the YAML formatter not '
                                'recognised: %s' % e)
        for s in segs:
            if isinstance(s, Hole) and s.cls is None:
                s.cls = classify_source(s.source, s.node) if s.node \
                    is not None else 'UNKNOWN'
        shape = shape_text(segs)
        shapes[shape] = shapes.get(shape, 0) + 1
        for nlv in sorted(getattr(sanitizer, 'sanitized_shapes', {False})):
            for kind, what in analyse_lines(segs, nlv):
                bad.setdefault((kind, what), (p, shape))
    ctx.count(n, [('C17.LINES', s) for s in list(shapes)[:64]])
    ctx.extra['formatter_paths'] = n
    ctx.extra['distinct_output_shapes'] = len(shapes)
    for (kind, what), (p, shape) in sorted(bad.items())[:6]:
        human = {
            'uncommented-line': 'the sample can contain the line `%s...` '
            'which is not commented out' % what,
            'raw-value-outside-comment': 'the value %s is written at the '
            'start of a line or on a line that is not a comment' % what,
            'multi-line-source-unsanitized': 'the free-text %s is written '
            'without passing the comment formatter: an embedded line break '
            'starts an uncommented line that overrides a policy' % what,
            'sanitized-in-uncommented-line': 'formatted help text %s '
            'continues a line that is not a comment' % what,
            'join-with-newline': 'values of %s are joined with line breaks'
            % what,
            'rule-line-not-at-line-start': 'the rule line `%s...` does not '
            'start on a line of its own (it is glued to the comment before '
            'it): uncommenting it does not state the default' % what,
            'rule-line-count': 'a section does not contain exactly one '
            'commented rule line (%s)' % what}[kind]
        ctx.ob('C17.LINES', False, '%s:%d' % (F, p.outcome.line), fmt.qual,
               '%s: %s' % (kind, what), human + ' (path: %s)' % (
                   p.cond_text()[-200:]), witness={'shape': shape[:400]})
    if not bad:
        ctx.ob('C17.LINES', True, ctx.where(fmt.module, fmt.node), fmt.qual,
               '%d paths, %d distinct output shapes' % (n, len(shapes)),
               'every line of every possible sample section starts with # '
               '(or is empty); free text occurs only through the comment '
               'formatter; names and check strings only on comment lines')
    for s in list(shapes)[:6]:
        ctx.sample('shape: ' + s[:300].replace('\n', '\\n'))
    ctx.floor('C17.LINES', n, 8, 'formatter paths')
    return en, paths


def check_rule_line(ctx, fmt):
    prog = ctx.prog
    # the first assignment of the text: "name": "check_str"\n
    first = None
    for n in fmt.node.body:
        if isinstance(n, ast.Assign):
            first = n
            break
    ok = False
    detail = 'the rule line is not `"name": "check_str"` of the default'
    if first is not None:
        try:
            segs = merge(segments(first.value))
            shape = [(type(s).__name__, getattr(s, 'text', None)
                      or getattr(s, 'source', None)) for s in segs]
            ok = shape == [('Lit', '"'), ('Hole', 'default.name'),
                           ('Lit', '": "'), ('Hole', 'default.check_str'),
                           ('Lit', '"\n')]
            if not ok and len(segs) == 5 and shape[:3] == [
                    ('Lit', '"'), ('Hole', 'default.name'),
                    ('Lit', '": ')] and shape[4] == ('Lit', '\n'):
                # the value written as a JSON scalar of default.check_str
                h = segs[3].node
                g = prog.callee_of(fmt, h) if isinstance(h, ast.Call) \
                    else None
                inner = h
                if g is not None:
                    rr = returns_of(g.node)
                    if len(rr) == 1 and isinstance(rr[0].value, ast.Call) \
                            and len(h.args) == 1 and rr[0].value.args and U(
                                rr[0].value.args[0]) == g.params[0]:
                        inner = ast.Call(func=rr[0].value.func,
                                         args=[h.args[0]],
                                         keywords=rr[0].value.keywords)
                        inner_mod = g.module
                if isinstance(inner, ast.Call) and (prog.resolve(
                        fmt.module, inner.func) or '').endswith(
                            ('jsonutils.dumps', 'json.dumps')) and len(
                                inner.args) == 1 and U(
                                    inner.args[0]) == 'default.check_str' \
                        and not any(k.arg == 'indent'
                                    for k in inner.keywords):
                    ok = True
            if ok:
                detail = 'maps the policy name to its default check string'
            else:
                detail += ' (shape %s)' % shape_text(segs)
        except Unknown:
            pass
    ctx.ob('C17.RULE-LINE', ok, ctx.where(fmt.module, first or fmt.node),
           fmt.qual, U(first)[:90] if first is not None else 'rule line',
           detail)


def check_json(ctx):
    prog = ctx.prog
    fj = prog.func(GEN + '._format_rule_default_json')
    rets = returns_of(fj.node)
    ok = False
    if len(rets) == 1:
        try:
            segs = merge(segments(rets[0].value))
            shape = [(type(s).__name__, getattr(s, 'text', None)
                      or getattr(s, 'source', None)) for s in segs]
            ok = shape == [('Lit', '"'), ('Hole', 'default.name'),
                           ('Lit', '": "'), ('Hole', 'default.check_str'),
                           ('Lit', '"')]
        except Unknown:
            ok = False
    ctx.ob('C17.JSON', ok, ctx.where(fj.module, fj.node), fj.qual,
           'JSON member', 'a member `"name": "check_str"`' if ok else
           'the JSON member is not `"name": "check_str"` of the default')
    inner = prog.func(GEN + '._generate_sample')
    okw = False
    for c in ast.walk(inner.node):
        if isinstance(c, ast.Call) and method_call(c, 'writelines') and \
                c.args and isinstance(c.args[0], ast.Tuple):
            el = c.args[0].elts
            if len(el) == 3 and is_const(el[0]) and is_const(el[2]) and \
                    el[0].value.strip() == '{' and el[2].value.strip() == \
                    '}' and isinstance(el[1], ast.Call) and method_call(
                        el[1], 'join') and is_const(method_call(el[1])[0]) \
                    and method_call(el[1])[0].value.strip() == ',':
                okw = True
    ctx.ob('C17.JSON', okw, ctx.where(inner.module, inner.node), inner.qual,
           'JSON document', 'members joined by commas inside one object'
           if okw else 'the JSON sample is not one object of comma-joined '
           'members')


def check_every(ctx):
    """Every registered default of every section yields one entry."""
    prog = ctx.prog
    sec = prog.func(GEN + '._sort_and_format_by_section')
    fmt = prog.func(GEN + '._format_rule_default_yaml')
    fj = prog.func(GEN + '._format_rule_default_json')
    t = Table(prog, sec)
    W = ctx.where(sec.module, sec.node)
    bad = None
    n = 0
    for p in t.paths:
        loops = [c for c in p.conds if c.kind == 'loop']
        if len(loops) < 2 or not all(c.pol for c in loops):
            continue
        fmtc = None
        for c in p.conds:
            e = c.expr
            if c.kind == 'test' and c.pol and isinstance(
                    e, ast.Compare) and isinstance(e.ops[0], ast.Eq):
                vals = [x.value for x in (e.left, e.comparators[0])
                        if isinstance(x, ast.Constant)]
                names = [U(x) for x in (e.left, e.comparators[0])
                         if not isinstance(x, ast.Constant)]
                if vals and names == ['output_format']:
                    fmtc = vals[0]
        ys = [e for e in p.events if e.kind == 'yield']
        if fmtc not in ('yaml', 'json'):
            # no entry is only legitimate for an unknown output format
            neither = 0
            for c in p.conds:
                e = c.expr
                if c.kind == 'test' and not c.pol and isinstance(
                        e, ast.Compare) and isinstance(
                            e.ops[0], ast.Eq) and 'output_format' in U(e):
                    neither += 1
            if not ys and neither < 2 and bad is None:
                bad = (p, 'yaml/json')
            continue
        n += 1
        want = fmt if fmtc == 'yaml' else fj
        ok = len(ys) == 1
        if ok:
            v = t.expand(ys[0].node)
            ok = isinstance(v, ast.Call) and prog.callee_of(sec, v) is want \
                and v.args and isinstance(v.args[0], ast.Name) and \
                v.args[0].id.startswith('SYM_e')
        if not ok and bad is None:
            bad = (p, fmtc)
    ctx.ob('C17.EVERY', bad is None and n >= 2, W, sec.qual,
           'one entry per registered default (%d element paths)' % n,
           'every default of every section is formatted and yielded exactly '
           'once, whatever its deprecation status' if bad is None and n >= 2
           else 'a registered default can be left out of the %s sample '
           '(path: %s): the sample no longer states every default' % (
               bad[1] if bad else '?',
               bad[0].cond_text()[-250:] if bad else 'no element path'))
    # the sample writer emits every section it is given
    inner = prog.func(GEN + '._generate_sample')
    ti = Table(prog, inner)
    okw = False
    for p in ti.paths:
        loops = [c for c in p.conds if c.kind == 'loop' and c.pol]
        if not loops:
            continue
        app = any(e.kind == 'call' and method_call(e.node, 'append')
                  and isinstance(e.node.args[0], ast.Name)
                  and e.node.args[0].id.startswith('SYM_e')
                  and e.nconds <= len(loops) + 3 for e in p.events)
        conds_in_loop = [c for c in p.conds if c.kind == 'test' and any(
            isinstance(x, ast.Name) and x.id.startswith('SYM_e')
            for x in ast.walk(c.expr))]
        if app and not conds_in_loop:
            okw = True
        if conds_in_loop:
            okw = False
            break
    ctx.ob('C17.EVERY', okw, ctx.where(inner.module, inner.node),
           inner.qual, 'sections collected unconditionally',
           'every formatted section is written to the sample' if okw else
           'the sample writer filters the formatted sections')


def check(ctx):
    ctx.use(GEN)
    ctx.explain('C17: the help-text formatter is proved to return only '
                '#-prefixed lines; constants are propagated from the sample '
                'entry point; for every path of the YAML formatter under '
                'those constants the abstract output (literal and hole '
                'segments) is split into lines and every line must be a '
                'comment, with free-text sources only through the '
                'formatter.')
    ctx.assume('textwrap.wrap honours its indents')
    ctx.assume('names, check strings, methods, paths, scope names and '
               'deprecated_since contain no line break (the quantifier)')
    sanitizer, ok = check_sanitizer(ctx)
    fmt = check_consts(ctx)
    check_lines(ctx, fmt, sanitizer, ok)
    check_rule_line(ctx, fmt)
    check_json(ctx)
    check_every(ctx)

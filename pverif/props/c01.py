"""C01 - rule expressions decide exactly as the documented boolean language.

(S) C01.TABLE: the extracted reducer table + effect terms agree with the
    reference grammar on every sentence / token string up to the tier bounds.
(N) driver structure (D0-D6), tokenizer (T1-T7), evaluators (EVAL),
    list-of-lists translation (LIST), constants (CONST).
"""
import ast
import os
from concurrent.futures import ProcessPoolExecutor

from .. import PKG
from .. import grammar as G
from .. import tokenizer as T
from ..absval import AV, Evaluator, feasible
from ..model import AnalysisError
from ..paths import Enumerator
from ..util import (U, is_const, self_attr, method_call, parent_map,
                    walk_no_nested, strip_not)

PARSER = PKG + '._parser'
CHECKS = PKG + '._checks'

BOUNDS = {'quick': {'Ns': 11, 'Na': 5}, 'thorough': {'Ns': 15, 'Na': 8}}


# ------------------------------------------------------------------ shared
def grammar_model(ctx):
    """Extract everything the table model needs.  Shared by C01/C02/C15."""
    prog = ctx.prog
    classes = G.check_classes(prog)
    pstate = G.find_parse_state(prog)
    table = G.reducer_table(prog, pstate)
    effects = {}
    for r in table:
        if r.method.name not in effects:
            effects[r.method.name] = G.effect_of(prog, classes, r.method)
    modes = {cc.sem: True for cc in classes.values()
             if cc.sem in ('and', 'or') and cc.merges}
    model = G.TableModel(table, effects, modes)
    return classes, pstate, table, effects, model


def accept_predicate(ctx, pstate):
    """The acceptance guards between the value stack and parse_rule's return.

    Extracted from the `result` accessor of the parse-state class: returns a
    predicate over (tokens, values) and a description of the guards.  Guards
    recognised: comparisons of len(self.values)/len(self.tokens) with a
    constant, membership tests of self.tokens[0] / self.tokens[-1] in a
    literal collection of kinds.
    """
    prog = ctx.prog
    res = pstate.methods.get('result')
    if res is None:
        raise AnalysisError('parse state has no result accessor')
    from ..dte import inline_helpers
    en = Enumerator(prog, res, handler_paths=True, max_depth=4,
                    inline=inline_helpers(prog, modules={PARSER}))
    paths = en.run()
    rows = []
    for p in paths:
        conds = []
        for c in p.conds:
            if c.kind == 'exc':
                continue        # a handler path: tried after the normal rows
            if c.kind != 'test':
                raise AnalysisError('loop in result accessor')
            conds.append((c.expr, c.pol))
        if p.outcome.kind == 'return':
            ok = p.outcome.expr is not None and U(en.expand(
                p.outcome.expr)) in ('self.values[0]', 'self.values[-1]')
            rows.append((conds, 'accept' if ok else 'other:' + U(
                p.outcome.expr) if p.outcome.expr is not None else 'none'))
        elif p.outcome.kind == 'raise':
            rows.append((conds, 'reject:' + U(p.outcome.expr)))
        else:
            rows.append((conds, 'none'))

    def holds(expr, toks, vals):
        """evaluate one guard over a concrete abstract stack; None=unknown"""
        if self_attr(expr) in ('values', 'tokens'):
            return len(vals) > 0          # the two stacks grow together
        if isinstance(expr, ast.Compare) and len(expr.ops) == 1:
            l, r = expr.left, expr.comparators[0]
            op = expr.ops[0]

            def val(e):
                if isinstance(e, ast.Constant):
                    return ('c', e.value)
                if isinstance(e, ast.Call) and isinstance(
                        e.func, ast.Name) and e.func.id == 'len' and \
                        len(e.args) == 1 and self_attr(e.args[0]) in (
                            'values', 'tokens'):
                    return ('c', len(vals))
                if isinstance(e, ast.Subscript) and self_attr(
                        e.value) == 'tokens' and isinstance(
                            e.slice, ast.Constant):
                    if not toks:
                        return ('err',)
                    try:
                        return ('c', toks[e.slice.value])
                    except IndexError:
                        return ('err',)
                if isinstance(e, ast.UnaryOp) and isinstance(
                        e.op, ast.USub) and isinstance(e.operand,
                                                       ast.Constant):
                    return ('c', -e.operand.value)
                if isinstance(e, (ast.Tuple, ast.List, ast.Set)) and all(
                        isinstance(x, ast.Constant) for x in e.elts):
                    return ('s', [x.value for x in e.elts])
                return None
            a, b = val(l), val(r)
            if a is None or b is None:
                return None
            if a == ('err',) or b == ('err',):
                return 'err'
            if isinstance(op, ast.Eq):
                return a[1] == b[1]
            if isinstance(op, ast.In) and b[0] == 's':
                return a[1] in b[1]
            if isinstance(op, ast.Lt):
                return a[1] < b[1]
            if isinstance(op, ast.LtE):
                return a[1] <= b[1]
            if isinstance(op, ast.Gt):
                return a[1] > b[1]
            if isinstance(op, ast.GtE):
                return a[1] >= b[1]
            return None
        if isinstance(expr, ast.Call) and isinstance(expr.func, ast.Name) \
                and expr.func.id == 'isinstance' and len(expr.args) == 2:
            subj = expr.args[0]
            if U(subj) in ('self.values[0]', 'self.values[-1]'):
                if not vals:
                    return 'err'
                v = vals[0] if U(subj).endswith('[0]') else vals[-1]
                r = prog.resolve(res.module, expr.args[1])
                if r == 'builtin:str':
                    return v[0] == 'str'
                if r and (r == CHECKS + '.BaseCheck'
                          or r in prog.classes and prog.is_subclass(
                              r, CHECKS + '.BaseCheck')):
                    return v[0] != 'str' if r == CHECKS + '.BaseCheck' \
                        else None
            return None
        return None

    unknown = []

    def pred(toks, vals):
        for conds, out in rows:
            ok = True
            for e, pol in conds:
                h = holds(e, toks, vals)
                if h is None:
                    unknown.append(U(e))
                    ok = False
                    break
                if h == 'err':
                    # IndexError inside the accessor: not a ValueError, the
                    # caller's handler does not see it -> treat as reject by
                    # crash; reported by C02.RAISE-CATCH separately.
                    return False
                if h != pol:
                    ok = False
                    break
            if ok:
                return out == 'accept'
        return False

    # every guard must be evaluable on abstract stacks, otherwise the
    # comparison below would report the model's ignorance as a difference
    for toks, vals in ((('check',), (('leaf', 0),)),
                       (('string',), (('str', 's'),)),
                       (('(',), (('str', '('),)),
                       (('check', 'and'), (('leaf', 0), ('str', 'and'))),
                       ((), ())):
        pred(toks, vals)
    if unknown:
        raise AnalysisError(
            'the result accessor %s tests `%s`, which is not a comparison of '
            'the stacks with literals: the accepted token strings cannot be '
            'read off the source' % (res.qual, unknown[0]))
    return pred, rows, unknown, res


# ------------------------------------------------------------------ TABLE
def _chunk_worker(args):
    """Compare a slice of the string space (thorough tier, in a worker)."""
    root, prefixes, length = args
    from ..core import Ctx
    ctx = Ctx('C01', root=root)
    classes, pstate, table, effects, model = grammar_model(ctx)
    pred, _rows, _unk, _res = accept_predicate(ctx, pstate)
    import itertools
    stats = {}
    bad = []
    n = 0
    for pre in prefixes:
        for k in range(0, length - len(pre) + 1):
            for rest in itertools.product(G.TERMINALS, repeat=k):
                s = pre + rest
                v, d = G.compare_string(model, s, pred)
                stats[v] = stats.get(v, 0) + 1
                n += 1
                if d is not None and len(bad) < 20:
                    bad.append((s, v, d))
    return n, stats, bad


def _sentence_worker(args):
    root, lengths = args
    from ..core import Ctx
    ctx = Ctx('C01', root=root)
    classes, pstate, table, effects, model = grammar_model(ctx)
    pred, _rows, _unk, _res = accept_predicate(ctx, pstate)
    stats = {}
    bad = []
    n = 0
    lo, hi, mod, rem = lengths
    i = 0
    for s in G.sentences(hi):
        if len(s) < lo:
            continue
        i += 1
        if i % mod != rem:
            continue
        v, d = G.compare_string(model, s, pred)
        stats[v] = stats.get(v, 0) + 1
        n += 1
        if d is not None and len(bad) < 20:
            bad.append((s, v, d))
    return n, stats, bad


DISAGREE = ('model-accepts-invalid', 'model-rejects-valid',
            'different-decisions', 'model-stuck', 'non-check-result')


def run_table(ctx, prop, want, model, pred, table, pstate):
    """Run the bounded comparison.  `want` selects which disagreement kinds
    belong to the calling property."""
    b = BOUNDS[ctx.tier]
    stats = {}
    bad = []
    total = 0
    if ctx.tier == 'quick':
        for s in G.sentences(b['Ns']):
            v, d = G.compare_string(model, s, pred)
            stats[v] = stats.get(v, 0) + 1
            total += 1
            if d is not None:
                bad.append((s, v, d))
        for s in G.all_strings(b['Na'], G.TERMINALS):
            v, d = G.compare_string(model, s, pred)
            stats[v] = stats.get(v, 0) + 1
            total += 1
            if d is not None:
                bad.append((s, v, d))
    else:
        jobs = []
        # all strings <= Na, split by 2-token prefix
        import itertools
        pre2 = list(itertools.product(G.TERMINALS, repeat=2))
        short = [()] + [(t,) for t in G.TERMINALS]
        with ProcessPoolExecutor(max_workers=min(16, os.cpu_count() or 4)) \
                as ex:
            futs = []
            for s in short:
                v, d = G.compare_string(model, s, pred)
                stats[v] = stats.get(v, 0) + 1
                total += 1
                if d is not None:
                    bad.append((s, v, d))
            for i in range(0, len(pre2), 1):
                futs.append(ex.submit(_chunk_worker,
                                      (ctx.root, [pre2[i]], b['Na'])))
            for rem in range(16):
                futs.append(ex.submit(_sentence_worker,
                                      (ctx.root, (b['Na'] + 1, b['Ns'],
                                                  16, rem))))
            for f in futs:
                n, st, bd = f.result()
                total += n
                for k, v in st.items():
                    stats[k] = stats.get(k, 0) + v
                bad.extend(bd)
    ctx.extra.setdefault('table_stats', {}).update(stats)
    ctx.extra['bounds'] = b
    ctx.extra['exhaustive'] = True
    mine = [x for x in bad if x[1] in want]
    return total, stats, mine


def check_table(ctx, classes, pstate, table, effects, model, pred):
    prog = ctx.prog
    fpath = pstate.module
    total, stats, bad = run_table(
        ctx, 'C01', ('model-rejects-valid', 'different-decisions',
                     'model-stuck'), model, pred, table, pstate)
    ctx.count(total, [('C01.TABLE', 'kind', k) for k in stats])
    # stuck on strings the reference rejects is C02's business, not C01's
    bad = [x for x in bad if not (x[1] == 'model-stuck'
                                  and not x[2].get('ref_accepts'))]
    seen = set()
    for s, v, d in sorted(bad, key=lambda x: len(x[0])):
        key = (v, d.get('last_reducer'))
        if key in seen:
            continue
        seen.add(key)
        ctx.ob('C01.TABLE', False, ctx.where(fpath, pstate.node),
               pstate.qual, 'reducer table: ' + (d.get('last_reducer')
                                                 or 'no reducer'),
               '%s on token string `%s`' % (v, ' '.join(s)),
               witness={'tokens': list(s), 'verdict': v, 'detail': d})
    if not bad:
        ctx.ob('C01.TABLE', True, ctx.where(fpath, pstate.node), pstate.qual,
               'reducer table (%d patterns, %d methods)' % (
                   len(table), len(effects)),
               'agrees with the reference grammar on %d token strings '
               '(%s)' % (total, ', '.join('%s=%d' % kv
                                          for kv in sorted(stats.items()))))
    for r in table:
        ctx.sample('reducer %s -> %s :: %s' % (
            ' '.join(r.pattern), r.method.name, '; '.join(
                '%s=%s' % (k, G.term_text(t))
                for k, t in effects[r.method.name])))


# ------------------------------------------------------------------ DRIVER
def _suffix_sensitive(table):
    out = []
    for i, a in enumerate(table):
        for j, b in enumerate(table):
            if i != j and len(a.pattern) <= len(b.pattern) and \
                    b.pattern[-len(a.pattern):] == a.pattern:
                out.append((a, b))
    return out


def _last_window(sub):
    """`X[-len(R):]` -> (text of X, text of R) else None."""
    if not isinstance(sub, ast.Subscript) or not isinstance(sub.slice,
                                                            ast.Slice):
        return None
    sl = sub.slice
    if sl.upper is not None or sl.step is not None or sl.lower is None:
        return None
    lo = sl.lower
    if isinstance(lo, ast.UnaryOp) and isinstance(lo.op, ast.USub) and \
            isinstance(lo.operand, ast.Call) and isinstance(
                lo.operand.func, ast.Name) and lo.operand.func.id == 'len' \
            and len(lo.operand.args) == 1:
        return U(sub.value), lo.operand.args[0]
    # len(X) - len(R)
    if isinstance(lo, ast.BinOp) and isinstance(lo.op, ast.Sub):
        a, b = lo.left, lo.right
        if all(isinstance(x, ast.Call) and isinstance(x.func, ast.Name)
               and x.func.id == 'len' and len(x.args) == 1 for x in (a, b)) \
                and U(a.args[0]) == U(sub.value):
            return U(sub.value), b.args[0]
    return None


def check_driver(ctx, pstate, table):
    prog = ctx.prog
    mod = pstate.module
    W = lambda n: ctx.where(mod, n)
    # --- D0: decorator + metaclass register every pattern, in order
    dec = prog.functions.get(PARSER + '.reducer')
    if dec is None:
        raise AnalysisError('anchor vanished: reducer decorator')
    inner = [n for n in dec.node.body if isinstance(n, ast.FunctionDef)]
    ok = False
    detail = 'decorator shape not recognised'
    regattr = None

    def reg_attr_of(recv, fparam):
        """the attribute of the decorated function a receiver denotes:
        func.A / vars(func).setdefault('A', []) / func.__dict__.setdefault /
        getattr(func, 'A'[, default])"""
        if isinstance(recv, ast.Attribute) and isinstance(
                recv.value, ast.Name) and recv.value.id == fparam:
            return recv.attr
        if isinstance(recv, ast.Call):
            mc = method_call(recv, 'setdefault')
            if mc and len(recv.args) == 2 and is_const(recv.args[0]) and \
                    isinstance(recv.args[1], ast.List) and \
                    not recv.args[1].elts and U(mc[0]) in (
                        'vars(%s)' % fparam, '%s.__dict__' % fparam):
                return recv.args[0].value
            if U(recv.func) == 'getattr' and len(recv.args) >= 2 and U(
                    recv.args[0]) == fparam and is_const(recv.args[1]):
                return recv.args[1].value
        return None
    if len(inner) == 1 and dec.node.args.vararg is not None:
        va = dec.node.args.vararg.arg
        fn = inner[0]
        fparam = fn.args.args[0].arg if fn.args.args else None
        appends = [c for c in ast.walk(fn) if isinstance(c, ast.Call)
                   and isinstance(c.func, ast.Attribute)
                   and c.func.attr == 'append']
        rets = [r for r in ast.walk(fn) if isinstance(r, ast.Return)]
        good_app = [c for c in appends if reg_attr_of(c.func.value, fparam)
                    and len(c.args) == 1 and U(c.args[0]) in (
                        'list(%s)' % va, va, 'tuple(%s)' % va,
                        '[*%s]' % va)]
        if len(good_app) == 1 and rets and all(
                isinstance(r.value, ast.Name) and r.value.id == fparam
                for r in rets):
            ok = True
            regattr = reg_attr_of(good_app[0].func.value, fparam)
            detail = 'appends the token sequence to func.%s and returns ' \
                     'func' % regattr
    ctx.ob('C01.D0', ok, W(dec.node), dec.qual, 'reducer decorator', detail)
    if not ok:
        raise AnalysisError('reducer decorator not recognised: table '
                            'extraction would be unfounded')
    # metaclass
    meta = None
    for k in pstate.node.keywords:
        if k.arg == 'metaclass':
            meta = prog.resolve(mod, k.value)
    if meta is None or meta not in prog.classes:
        raise AnalysisError('parse-state metaclass not found')
    mnew = prog.classes[meta].methods.get('__new__')
    if mnew is None:
        raise AnalysisError('metaclass has no __new__')
    sens = _suffix_sensitive(table)
    ok = False
    detail = 'metaclass registration loop not recognised'
    table_attr = None
    # the table is stored under a constant key of the class dict; it is
    # built by two nested iterations (loops or one comprehension)
    stores = [s_ for s_ in ast.walk(mnew.node) if isinstance(s_, ast.Assign)
              and isinstance(s_.targets[0], ast.Subscript)
              and is_const(s_.targets[0].slice)]
    gens = elt = None
    if stores:
        table_attr = stores[0].targets[0].slice.value
        v = stores[0].value
        if isinstance(v, ast.ListComp) and len(v.generators) == 2 and \
                not any(g.ifs for g in v.generators):
            gens = [(g.target, g.iter) for g in v.generators]
            elt = v.elt
        elif isinstance(v, ast.Name):
            loops = [n for n in walk_no_nested(mnew.node)
                     if isinstance(n, ast.For)]
            if len(loops) == 2:
                outer, inner_l = sorted(loops, key=lambda n: n.lineno)
                apps = [c for c in ast.walk(inner_l)
                        if isinstance(c, ast.Call) and method_call(
                            c, 'append') and len(c.args) == 1
                        and U(method_call(c)[0]) == v.id]
                if len(apps) == 1 and any(inner_l is x
                                          for x in ast.walk(outer)):
                    gens = [(outer.target, outer.iter),
                            (inner_l.target, inner_l.iter)]
                    elt = apps[0].args[0]
    if gens is not None and isinstance(gens[0][0], ast.Tuple) and len(
            gens[0][0].elts) == 2 and isinstance(elt, ast.Tuple) and len(
                elt.elts) == 2:
        oi = U(gens[0][1])
        ordered = oi.endswith('.items()') and not oi.startswith(
            ('sorted', 'reversed'))
        keyname = U(gens[0][0].elts[0])
        valname = U(gens[0][0].elts[1])
        red = U(gens[1][0])
        it2 = gens[1][1]
        ii = U(it2)
        in_ok = (ii == '%s.%s' % (valname, regattr)) or (
            isinstance(it2, ast.Call) and U(it2.func) == 'getattr'
            and len(it2.args) >= 2 and U(it2.args[0]) == valname
            and is_const(it2.args[1], regattr))
        shape = U(elt.elts[0]) == red and U(elt.elts[1]) == keyname
        if shape and in_ok and (ordered or not sens):
            ok = True
            detail = 'registers (pattern, method-name) pairs under ' \
                     '%r in class-body order' % table_attr
        elif not shape:
            detail = 'registered pair is not (pattern, method name)'
        elif not ordered and sens:
            detail = 'registration order is not class-body order ' \
                     'although patterns %s overlap' % (sens[:2],)
    ctx.ob('C01.D0', ok, W(mnew.node), mnew.qual, 'metaclass registration',
           detail)
    if not ok and table_attr is None:
        raise AnalysisError('metaclass registration not recognised')

    # --- D1: parallel stacks
    npairs = 0
    for f in pstate.methods.values():
        for blk_owner in ast.walk(f.node):
            for fld in ('body', 'orelse', 'finalbody'):
                blk = getattr(blk_owner, fld, None)
                if not isinstance(blk, list):
                    continue
                shapes = {'tokens': [], 'values': []}
                for s in blk:
                    if isinstance(s, ast.Expr) and isinstance(
                            s.value, ast.Call):
                        mc = method_call(s.value)
                        if mc and self_attr(mc[0]) in shapes and \
                                mc[1] in ('append', 'extend', 'pop',
                                          'insert', 'clear'):
                            shapes[self_attr(mc[0])].append(('m:' + mc[1], s))
                    elif isinstance(s, (ast.Assign, ast.AnnAssign)) and \
                            getattr(s, 'value', None) is not None:
                        for t in (s.targets if isinstance(s, ast.Assign)
                                  else [s.target]):
                            if self_attr(t) in shapes:
                                shapes[self_attr(t)].append(('rebind', s))
                            elif isinstance(t, ast.Subscript) and self_attr(
                                    t.value) in shapes:
                                w = _last_window(t)
                                shapes[self_attr(t.value)].append(
                                    ('slice:' + (U(w[1]) if w else U(t.slice)),
                                     s))
                    elif isinstance(s, ast.Delete):
                        for t in s.targets:
                            if isinstance(t, ast.Subscript) and self_attr(
                                    t.value) in shapes:
                                shapes[self_attr(t.value)].append(
                                    ('del:' + U(t.slice), s))
                if shapes['tokens'] or shapes['values']:
                    a = [x for x, _ in shapes['tokens']]
                    b = [x for x, _ in shapes['values']]
                    node = (shapes['tokens'] or shapes['values'])[0][1]
                    npairs += 1
                    ctx.ob('C01.D1', a == b, W(node), f.qual,
                           'stack mutations tokens=%s values=%s' % (a, b),
                           'token and value stacks are mutated in parallel'
                           if a == b else
                           'token stack and value stack are not mutated in '
                           'the same shape in this block')
    ctx.floor('C01.D1', npairs, 3, 'parallel stack mutation blocks')

    # --- D2/D5: the reduce step
    loop_fn = None
    for f in pstate.methods.values():
        for n in ast.walk(f.node):
            if isinstance(n, (ast.For, ast.comprehension)) and U(
                    n.iter) == 'self.%s' % table_attr:
                loop_fn = (f, n)
    if loop_fn is None:
        raise AnalysisError('reduce step (loop over the reducer table) not '
                            'found')
    rloop = loop_fn[1]
    if not (isinstance(rloop.target, ast.Tuple) and len(
            rloop.target.elts) == 2):
        raise AnalysisError('reduce loop does not unpack (pattern, method)')
    if not hasattr(rloop, 'lineno'):
        rloop.lineno = rloop.target.lineno
        rloop.col_offset = rloop.target.col_offset
    # the reduce entry: the parse-state method shift() calls from which the
    # table loop is reached (helpers of the class are inlined into it)
    sh0 = pstate.methods.get('shift')
    if sh0 is None:
        raise AnalysisError('anchor vanished: shift')
    rf = None
    for call, g in prog.callees(sh0):
        if isinstance(call, ast.Call) and g.cls is pstate and (
                g is loop_fn[0] or loop_fn[0].qual in prog.region(g)):
            rf = g
    if rf is None:
        rf = loop_fn[0]
    from ..dte import inline_helpers
    en = Enumerator(prog, rf, handler_paths=False, max_depth=4,
                    inline=inline_helpers(prog, modules={PARSER},
                                          exclude={rf.qual}))
    paths = en.run()
    hit = 0
    for p in paths:
        stores = [e for e in p.events if e.kind == 'store']
        if not stores:
            continue
        hit += 1
        # match condition
        match = None
        for c in p.conds:
            if c.kind == 'test' and c.pol and isinstance(
                    c.expr, ast.Compare) and isinstance(
                        c.expr.ops[0], ast.Eq):
                l, r = c.expr.left, c.expr.comparators[0]
                for a, b in ((l, r), (r, l)):
                    w = _last_window(a)
                    if w and w[0] == 'self.tokens':
                        match = (w, en.expand(b), c)
        elem = None
        for c in p.conds:
            if c.kind == 'loop':
                elem = c
        if match is None:
            ctx.ob('C01.D2', False, W(rloop), rf.qual, 'reduce match',
                   'no `tokens[-len(pattern):] == pattern` match condition '
                   'guards the reduction')
            continue
        w, rhs, c = match
        pat_expr = U(en.expand(w[1]))
        # the pattern is element 0 of the table entry
        def is_pat(node):
            e = en.expand(node)
            return isinstance(e, ast.Subscript) and is_const(e.slice, 0) \
                and isinstance(e.value, ast.Name) and e.value.id.startswith(
                    'SYM_e')
        ok = is_pat(w[1]) and U(rhs) == pat_expr
        ctx.ob('C01.D2', ok, W(c.expr) if hasattr(c.expr, 'lineno')
               else W(rloop), rf.qual, 'match ' + c.text(),
               'suffix of the token stack of the pattern\'s length is '
               'compared with the pattern' if ok else
               'the match does not compare the last len(pattern) tokens '
               'with the pattern')
        # the reducer call window
        calls = [e for e in p.events if e.kind == 'call']
        mcall = None
        for e in calls:
            cn = e.node
            if cn.args and isinstance(cn.args[0], ast.Starred) and (
                    mcall is None or U(en.expand(cn.func)).startswith(
                        'getattr(')):
                if mcall is not None and U(en.expand(
                        mcall.node.func)).startswith('getattr('):
                    continue
                mcall = e
        if mcall is None:
            ctx.ob('C01.D2', False, W(rloop), rf.qual, 'reducer call',
                   'reducer method is not called with the value window')
        else:
            sw = _last_window(mcall.node.args[0].value)
            fn = en.expand(mcall.node.func)
            getattr_ok = isinstance(fn, ast.Call) and U(fn.func) == 'getattr' \
                and len(fn.args) >= 2 and U(fn.args[0]) == 'self' and \
                isinstance(fn.args[1], ast.Subscript) and is_const(
                    fn.args[1].slice, 1)
            ok = bool(sw) and sw[0] == 'self.values' and is_pat(sw[1]) \
                and getattr_ok and len(mcall.node.args) == 1
            ctx.ob('C01.D2', ok, W(mcall.node) if hasattr(
                mcall.node, 'lineno') else W(rloop), rf.qual,
                'call ' + U(mcall.node),
                'the entry\'s method is applied to the last len(pattern) '
                'values' if ok else 'the reducer is not applied to exactly '
                'the last len(pattern) values of this table entry\'s method')
        # replacements
        for attr, slot in (('tokens', 0), ('values', 1)):
            st = [e for e in stores if isinstance(e.node, ast.Subscript)
                  and self_attr(e.node.value) == attr]
            if len(st) != 1:
                ctx.ob('C01.D2', False, W(rloop), rf.qual,
                       'replacement of self.%s' % attr,
                       'expected exactly one window replacement, found %d'
                       % len(st))
                continue
            e = st[0]
            sw = _last_window(e.node)
            v = en.expand(e.value)
            slot_ok = False
            while isinstance(v, ast.Call) and U(v.func) in (
                    'list', 'tuple') and len(v.args) == 1:
                v = v.args[0]
            if isinstance(v, ast.IfExp) and isinstance(
                    v.orelse, (ast.Tuple, ast.List)) and not v.orelse.elts:
                v = v.body          # `... if results else ()`
            if isinstance(v, (ast.ListComp, ast.GeneratorExp)) and len(
                    v.generators) == 1 and not v.generators[0].ifs:
                g0 = v.generators[0]
                if isinstance(v.elt, ast.Subscript) and is_const(
                        v.elt.slice, slot) and U(v.elt.value) == U(
                            g0.target):
                    slot_ok = True          # [r[slot] for r in results]
                if isinstance(g0.target, ast.Tuple) and len(
                        g0.target.elts) == 2 and U(v.elt) == U(
                            g0.target.elts[slot]):
                    slot_ok = True          # [a for a, b in results]
            if isinstance(v, (ast.Tuple, ast.List)) and not v.elts and \
                    mcall is not None and mcall.sym and any(
                        c.kind == 'test' and not c.pol and isinstance(
                            c.expr, ast.Name) and c.expr.id == mcall.sym
                        for c in p.conds):
                slot_ok = True              # no results: the window goes
            if isinstance(v, ast.Subscript) and is_const(v.slice, slot) and \
                    isinstance(v.value, ast.Call) and U(
                        v.value.func) == 'zip' and len(
                            v.value.args) == 1 and isinstance(
                                v.value.args[0], ast.Starred):
                slot_ok = True              # zip(*results)[slot]
            ok = bool(sw) and is_pat(sw[1]) and slot_ok
            ctx.ob('C01.D2', ok, W(e.raw) if e.raw is not None and hasattr(
                e.raw, 'lineno') else W(rloop), rf.qual,
                'replace ' + e.text(),
                'window replaced by element %d of each result' % slot if ok
                else 'the %s window is not replaced by element %d of each '
                'reducer result over the same window' % (attr, slot))
        # D5 fixpoint: reduce again after a reduction
        again = False
        if p.outcome.kind == 'return' and p.outcome.expr is not None:
            e = en.expand(p.outcome.expr)
            e, _n = strip_not(e)
            if isinstance(e, ast.Call) and prog.callee_of(rf, e) is rf:
                again = True
        for e in p.events:
            if e.kind == 'call' and e.line > stores[-1].line and \
                    prog.callee_of(rf, e.node) is rf:
                again = True
        # ... or the reduction sits in a `while` whose body completed
        for e in p.events:
            if e.kind == 'loopdone' and e.sym == 'while' and \
                    e.line <= stores[-1].line:
                again = True
        ctx.ob('C01.D5', again, W(rloop), rf.qual, 'fixpoint after reduction',
               'the reduce step runs again after a successful reduction'
               if again else 'after a reduction the reduce step is not run '
               'again (greedy fixpoint lost)')
    ctx.floor('C01.D2', hit, 1, 'reduction paths')

    # --- D6 shift pushes (tok, value) then reduces
    sh = pstate.methods.get('shift')
    if sh is None:
        raise AnalysisError('anchor vanished: shift')
    prm = sh.params[1:]
    en = Enumerator(prog, sh, handler_paths=False)
    for p in en.run():
        calls = [e for e in p.events if e.kind == 'call']
        push = {}
        red_after = False
        for e in calls:
            mc = method_call(e.node, 'append')
            if mc and self_attr(mc[0]) in ('tokens', 'values') and len(
                    e.node.args) == 1:
                push[self_attr(mc[0])] = U(e.node.args[0])
            elif prog.callee_of(sh, e.node) is rf:
                red_after = len(push) == 2
        ok = len(prm) == 2 and push.get('tokens') == prm[0] and \
            push.get('values') == prm[1] and red_after
        ctx.ob('C01.D6', ok, W(sh.node), sh.qual, 'shift',
               'pushes (kind, value) on the two stacks, then reduces' if ok
               else 'shift does not push its (kind, value) arguments on '
               '(tokens, values) and then reduce')
    return rf


# ---------------------------------------------------------------- TOKENIZER
def paren_sides(en, paths):
    """{paren kind: {'lstrip' | 'rstrip'}} read off the tokenizer's paths:
    a non-alphabetic kind yielded len(x) - len(x.<side>(kind)) times."""
    out = {}
    for p in paths:
        for y in [e for e in p.events if e.kind == 'yield']:
            t = y.node
            if not (isinstance(t, ast.Tuple) and len(t.elts) == 2):
                continue
            k = T._deref(en, t.elts[0])
            if not (is_const(k) and isinstance(k.value, str)
                    and not k.value.isalpha()):
                continue
            loopc = [c for c in p.conds[:y.nconds] if c.kind == 'loop'
                     and c.pol]
            if len(loopc) < 2:
                continue
            it = en.expand(loopc[-1].expr)
            if isinstance(it, ast.Call) and U(it.func) == 'range' and len(
                    it.args) == 1:
                a = it.args[0]
                if isinstance(a, ast.BinOp) and isinstance(a.op, ast.Sub) \
                        and all(isinstance(x, ast.Call) and U(
                            x.func) == 'len' and len(x.args) == 1
                            for x in (a.left, a.right)):
                    stripped = a.right.args[0]
                    mc = method_call(stripped)
                    if mc and mc[1] in ('lstrip', 'rstrip') and len(
                            stripped.args) == 1 and is_const(
                                stripped.args[0], k.value) and U(
                                    mc[0]) == U(a.left.args[0]):
                        out.setdefault(k.value, set()).add(mc[1])
    return out


def check_tokenizer(ctx, table, tf, en, paths):
    g = tf.func
    mod = g.module
    W = lambda n: ctx.where(mod, n)
    # T5 split
    if tf.split_ok is None:
        raise AnalysisError(tf.split_detail)
    ctx.ob('C01.T5', tf.split_ok, W(tf.split), g.qual,
           'split ' + U(tf.split), tf.split_detail if tf.split_ok else
           'rule text is not split on whitespace runs only: '
           + tf.split_detail)
    # T1 keywords
    table_kw = set()
    for r in table:
        for t in r.pattern:
            if t.isalpha() and t.islower() and not any(
                    t == k for rr in table
                    for k, _ in ctx._effects[rr.method.name]) and \
                    t not in ('check', 'string'):
                table_kw.add(t)
    for rule, y, detail in tf.problems:
        ctx.ob(rule, False, W(y.node) if hasattr(y.node, 'lineno')
               else '%s:%d' % (os.path.relpath(mod.path, ctx.root), y.line),
               g.qual, 'yield ' + U(y.node), detail)
    seen_kw = set()
    for kinds, tested_norm, yields_norm, y, c in tf.kw_tests:
        where = '%s:%d' % (os.path.relpath(mod.path, ctx.root), y.line)
        ok = tested_norm and yields_norm
        ctx.ob('C01.T1', ok, where, g.qual,
               'keyword test ' + c.text() + ' -> yield ' + U(y.node),
               'keyword recognised on the case-normalised token and the '
               'normalised kind is yielded' if ok else
               ('keyword test is not made on a case-normalised token'
                if not tested_norm else
                'the yielded kind is not the normalised keyword'))
        seen_kw |= set(kinds)
    ok = seen_kw == table_kw and bool(table_kw)
    ctx.ob('C01.T1', ok, W(g.node), g.qual,
           'keyword set %s' % sorted(seen_kw),
           'equals the keyword kinds used by the reducer table' if ok else
           'keyword kinds recognised by the tokenizer %s differ from those '
           'used by the reducer table %s' % (sorted(seen_kw),
                                             sorted(table_kw)))
    # T3 parens
    for n_ in ast.walk(g.node):
        mc_ = method_call(n_) if isinstance(n_, ast.Call) else None
        if mc_ and mc_[1] in ('fullmatch', 'match', 'search', 'finditer',
                              'groups', 'groupdict'):
            raise AnalysisError(
                'the tokenizer %s dissects its words with a regular '
                'expression (`%s`, line %d): how many parentheses are peeled '
                'from which side is read off strip()/length arithmetic only'
                % (g.qual, U(n_)[:50], n_.lineno))
    wrap_open = {r.pattern[0] for r in table
                 if len(r.pattern) == 3 and r.pattern[0] == '('
                 or (len(r.pattern) == 3 and not r.pattern[0].isalpha()
                     and '_' not in r.pattern[0])}
    wrap_close = {r.pattern[-1] for r in table
                  if len(r.pattern) == 3 and not r.pattern[-1].isalpha()
                  and '_' not in r.pattern[-1]}
    found = {}
    for p in paths:
        for y in [e for e in p.events if e.kind == 'yield']:
            t = y.node
            if not (isinstance(t, ast.Tuple) and len(t.elts) == 2):
                continue
            k = T._deref(en, t.elts[0])
            if not (is_const(k) and isinstance(k.value, str)
                    and not k.value.isalpha()):
                continue
            loopc = [c for c in p.conds[:y.nconds] if c.kind == 'loop'
                     and c.pol]
            if len(loopc) < 2:
                detail = 'paren token yielded outside a counting loop'
                found.setdefault(k.value, []).append((False, y, detail))
                continue
            it = en.expand(loopc[-1].expr)
            ok, detail = False, 'count is not len(token) - len(stripped)'
            if isinstance(it, ast.Call) and U(it.func) == 'range' and len(
                    it.args) == 1:
                a = it.args[0]
                if isinstance(a, ast.BinOp) and isinstance(a.op, ast.Sub) \
                        and all(isinstance(x, ast.Call)
                                and U(x.func) == 'len' and len(x.args) == 1
                                for x in (a.left, a.right)):
                    whole = a.left.args[0]
                    stripped = a.right.args[0]
                    mc = method_call(stripped)
                    if mc and mc[1] in ('lstrip', 'rstrip') and len(
                            stripped.args) == 1 and is_const(
                                stripped.args[0]):
                        ch = stripped.args[0].value
                        side = mc[1]
                        if U(mc[0]) != U(whole):
                            detail = 'strip is applied to a different ' \
                                     'string than the one measured'
                        elif ch != k.value:
                            detail = 'strips %r but yields kind %r' % (
                                ch, k.value)
                        elif not is_const(t.elts[1], k.value) and not \
                                is_const(T._deref(en, t.elts[1]), k.value):
                            detail = 'paren token value differs from kind'
                            ok = True
                        else:
                            ok = True
                            detail = '%s(%r) count yields %r' % (
                                side, ch, k.value)
                        found.setdefault(k.value, []).append(
                            (ok, y, detail, side))
                        continue
            found.setdefault(k.value, []).append((ok, y, detail))
    uniq = {}
    for k, lst in found.items():
        for item in lst:
            uniq[(k, item[1].line, item[0], item[2])] = item
    for (k, line, ok, detail), item in sorted(uniq.items(),
                                              key=lambda x: x[0][:2]):
        ctx.ob('C01.T3', ok, '%s:%d' % (os.path.relpath(mod.path, ctx.root),
                                        line), g.qual,
               'paren yield %r' % k, detail)
    sides = {k: {i[3] for i in lst if len(i) > 3} for k, lst in found.items()}
    opens = {k for k, s in sides.items() if 'lstrip' in s}
    closes = {k for k, s in sides.items() if 'rstrip' in s}
    ok = opens == wrap_open and closes == wrap_close and len(opens) == 1 \
        and len(closes) == 1
    ctx.ob('C01.T3', ok, W(g.node), g.qual,
           'paren kinds open=%s close=%s' % (sorted(opens), sorted(closes)),
           'leading/trailing peel kinds equal the wrap patterns\' '
           'delimiters' if ok else
           'peeled paren kinds open=%s close=%s do not match the wrap '
           'patterns open=%s close=%s' % (sorted(opens), sorted(closes),
                                          sorted(wrap_open),
                                          sorted(wrap_close)))
    ctx.ob('C01.T3', tf.order_ok, W(g.node), g.qual, 'paren order',
           'opening parens are yielded before and closing parens after the '
           'token' if tf.order_ok else tf.order_detail)
    # T7 check token carries _parse_check(peeled token)
    cv = getattr(tf, 'check_value', None)
    if cv is None:
        raise AnalysisError('tokenizer never yields a check token')
    ok = False
    detail = 'check token does not carry the parsed check'
    if isinstance(cv, ast.Call) and ctx.prog.resolve(mod, cv.func) == \
            PARSER + '._parse_check' and len(cv.args) == 1:
        root, chain = T._strip_chain(en, cv.args[0])
        root = T._deref(en, root)
        is_elem = isinstance(root, ast.Name) and root.id.startswith('SYM_e')
        meths = {(m, c) for m, c in chain}
        o = next(iter(opens), '(')
        cl = next(iter(closes), ')')
        if is_elem and ('lstrip', o) in meths and ('rstrip', cl) in meths \
                and len(chain) == 2:
            ok = True
            detail = 'check token carries _parse_check(token peeled of ' \
                     'leading %r and trailing %r)' % (o, cl)
        elif not is_elem:
            detail = 'parsed text is not derived from the split token'
        else:
            detail = 'parsed text is not the token with exactly the ' \
                     'leading and trailing parens peeled (%s)' % (chain,)
    ctx.ob('C01.T7', ok, '%s:%d' % (os.path.relpath(mod.path, ctx.root),
                                    tf.check_yield.line), g.qual,
           'check yield ' + U(tf.check_yield.node), detail)


# ---------------------------------------------------------------- EVALUATORS
def check_eval(ctx, classes):
    prog = ctx.prog
    want = {'AndCheck': 'and', 'OrCheck': 'or', 'NotCheck': 'not',
            'TrueCheck': 'true', 'FalseCheck': 'false'}
    n = 0
    for short, sem in want.items():
        q = CHECKS + '.' + short
        cc = classes.get(q)
        if cc is None:
            raise AnalysisError('anchor vanished: %s' % q)
        call = prog.find_method(q, '__call__')
        n += 1
        ok = cc.sem == sem
        if ok and sem in ('and', 'or', 'not'):
            init_attr = list(cc.init_attrs.values())
            ok = cc.child_attr in init_attr
            why = 'folds over the children given to the constructor' if ok \
                else 'evaluates self.%s which the constructor does not set ' \
                'from its argument' % cc.child_attr
        else:
            why = '%s.__call__ evaluates as %r' % (short, cc.sem)
        detail = {
            'and': 'ALL fold: False on the first rejecting child, True on '
                   'exhaustion',
            'or': 'ANY fold: True on the first accepting child, False on '
                  'exhaustion',
            'not': 'negation of the single child',
            'true': 'constant True', 'false': 'constant False'}[sem]
        ctx.ob('C01.EVAL', ok, ctx.where(call.module, call.node), call.qual,
               '%s.__call__' % short,
               detail if ok else 'expected %s but %s %s' % (
                   detail, why, (cc.call_info or {}).get('why', '')))
    # the adapter returns the call result unchanged
    chk = prog.func(CHECKS + '._check')
    from ..dte import inline_helpers
    en = Enumerator(prog, chk, handler_paths=False, max_depth=4,
                    inline=inline_helpers(prog, modules={CHECKS},
                                          classes=False))
    for p in en.run():
        ok = False
        if p.outcome.kind == 'return' and p.outcome.expr is not None:
            e = en.expand(p.outcome.expr)
            ok = isinstance(e, ast.Call) and U(e.func) == chk.params[0]
        n += 1
        ctx.ob('C01.EVAL', ok, ctx.where(chk.module, chk.node), chk.qual,
               '_check returns ' + p.outcome.text(),
               'returns the result of calling the rule' if ok else
               'the adapter does not return the rule\'s own result')
    ctx.floor('C01.EVAL', n, 6, 'evaluators')


# ------------------------------------------------------------------- LIST
def find_list_translator(prog):
    f = prog.functions.get(PARSER + '._parse_list_rule')
    pr = prog.func(PARSER + '.parse_rule')
    if f is None:
        # the callee of parse_rule that is neither the text translator (it
        # consumes the tokenizer) nor a class
        tok, consumer, _loop = T.find_tokenizer(prog)
        for call, g in prog.callees(pr):
            if g is not None and g.cls is None and g is not consumer and \
                    g.module.name == PARSER:
                f = g
    if f is None:
        raise AnalysisError('list-rule translator not found')
    return f


def _known_single(p, sym, nonempty):
    """Do the path conditions on len(<sym>) pin its length to 1?"""
    lo, hi = (1 if nonempty else 0), None
    for c in p.conds:
        if c.kind != 'test':
            continue
        e = c.expr
        if isinstance(e, ast.Name) and e.id == sym:
            if c.pol:
                lo = max(lo, 1)
            else:
                hi = 0
            continue
        if not (isinstance(e, ast.Compare) and len(e.ops) == 1):
            continue
        a, b, op = e.left, e.comparators[0], e.ops[0]
        flip = False
        if isinstance(a, ast.Constant):
            a, b, flip = b, a, True
        if not (isinstance(a, ast.Call) and U(a) == 'len(%s)' % sym
                and isinstance(b, ast.Constant)
                and isinstance(b.value, int)):
            continue
        k = b.value
        name = type(op).__name__
        if flip:
            name = {'Lt': 'Gt', 'Gt': 'Lt', 'LtE': 'GtE',
                    'GtE': 'LtE'}.get(name, name)
        if not c.pol:
            name = {'Lt': 'GtE', 'GtE': 'Lt', 'Gt': 'LtE', 'LtE': 'Gt',
                    'Eq': 'NotEq', 'NotEq': 'Eq'}.get(name, name)
        if name == 'Eq':
            lo, hi = max(lo, k), k if hi is None else min(hi, k)
        elif name == 'Lt':
            hi = k - 1 if hi is None else min(hi, k - 1)
        elif name == 'LtE':
            hi = k if hi is None else min(hi, k)
        elif name == 'Gt':
            lo = max(lo, k + 1)
        elif name == 'GtE':
            lo = max(lo, k)
    return lo == 1 and hi == 1


def _known_not_single(p, sym):
    """Do the path conditions exclude len(<sym>) == 1?"""
    lo, hi, ne = 0, None, set()
    for c in p.conds:
        if c.kind != 'test':
            continue
        e = c.expr
        if isinstance(e, ast.Name) and e.id == sym:
            if c.pol:
                lo = max(lo, 1)
            else:
                hi = 0
            continue
        if not (isinstance(e, ast.Compare) and len(e.ops) == 1):
            continue
        a, b, op = e.left, e.comparators[0], e.ops[0]
        flip = False
        if isinstance(a, ast.Constant):
            a, b, flip = b, a, True
        if not (isinstance(a, ast.Call) and U(a) == 'len(%s)' % sym
                and isinstance(b, ast.Constant)
                and isinstance(b.value, int)):
            continue
        k = b.value
        name = type(op).__name__
        if flip:
            name = {'Lt': 'Gt', 'Gt': 'Lt', 'LtE': 'GtE',
                    'GtE': 'LtE'}.get(name, name)
        if not c.pol:
            name = {'Lt': 'GtE', 'GtE': 'Lt', 'Gt': 'LtE', 'LtE': 'Gt',
                    'Eq': 'NotEq', 'NotEq': 'Eq'}.get(name, name)
        if name == 'Eq':
            lo, hi = max(lo, k), k if hi is None else min(hi, k)
        elif name == 'NotEq':
            ne.add(k)
        elif name == 'Lt':
            hi = k - 1 if hi is None else min(hi, k - 1)
        elif name == 'LtE':
            hi = k if hi is None else min(hi, k)
        elif name == 'Gt':
            lo = max(lo, k + 1)
        elif name == 'GtE':
            lo = max(lo, k)
    return lo >= 2 or (hi is not None and hi < 1) or 1 in ne


def check_list(ctx, classes, arity_rule=None, empty_and_rule=None):
    """_check_list_impl; when the translator works in two passes and the
    path rules then report something, the report is withdrawn and the check
    declines (the paths explore the two loops independently)."""
    nf, no = len(ctx.findings), len(ctx.obligations)
    ctx._two_pass = None
    res = _check_list_impl(ctx, classes, arity_rule, empty_and_rule)
    if ctx._two_pass and len(ctx.findings) > nf:
        del ctx.findings[nf:]
        del ctx.obligations[no:]
        raise AnalysisError(ctx._two_pass)
    return res


def _check_list_impl(ctx, classes, arity_rule=None, empty_and_rule=None):
    """The list-of-lists form is the OR over its entries of the AND over
    each entry's members, every member parsed as a single check and no
    non-empty entry or member left out: decided on the translator's paths
    (helpers inlined, comprehensions unfolded, one entry / one member)."""
    prog = ctx.prog
    f = find_list_translator(prog)
    param = f.params[0]
    mod = f.module
    # a translator in two passes (entries collected by one loop, built by a
    # second one): the paths explore each loop for zero or one element
    # independently, so the two cannot be related
    top_loops = [st for st in f.node.body if isinstance(st, ast.For)]
    if len(top_loops) > 1 and any(
            isinstance(n, ast.Name) and n.id in {
                U(method_call(c)[0]) for lp in top_loops[:-1]
                for c in ast.walk(lp) if isinstance(c, ast.Call)
                and method_call(c, 'append')}
            for n in ast.walk(top_loops[-1].iter)):
        ctx._two_pass = (
            'the list translator %s works in two passes (line %d collects '
            'what the loop at line %d iterates): the path rules on entries '
            'and members read a single pass' % (
                f.qual, top_loops[0].lineno, top_loops[-1].lineno))

    # the outer rule and its entries are the same kind of container: the
    # classes `parse_rule` takes for a list rule are the classes the
    # translator takes for an entry (a tuple accepted outside and refused
    # inside turns a well-formed entry into a denial)
    def container_classes(g, subject_is_param):
        out = []
        for n in ast.walk(g.node):
            if isinstance(n, ast.Call) and isinstance(
                    n.func, ast.Name) and n.func.id == 'isinstance' and len(
                        n.args) == 2:
                is_p = isinstance(n.args[0], ast.Name) and \
                    n.args[0].id == g.params[0]
                if is_p != subject_is_param:
                    continue
                cls_ = n.args[1]
                if isinstance(cls_, ast.Name) and isinstance(
                        g.module.assigns.get(cls_.id), ast.Tuple):
                    cls_ = g.module.assigns[cls_.id]
                names = sorted(U(x) for x in (
                    cls_.elts if isinstance(cls_, ast.Tuple) else [cls_]))
                if names != ['str'] and 'dict' not in names:
                    out.append((n, names))
        return out
    pr_ = prog.functions.get(PARSER + '.parse_rule')
    outer = container_classes(pr_, True) if pr_ is not None else []
    inner = container_classes(f, False)
    BUILTIN_C = {'list', 'tuple', 'set', 'frozenset'}
    if outer and inner and set(outer[0][1]) <= BUILTIN_C:
        want_c = outer[0][1]
        for n_, names in inner:
            ctx.ob('C01.LIST', names == want_c, ctx.where(mod, n_), f.qual,
                   'entry container classes %s' % names,
                   'an entry is taken for a list of members exactly when it '
                   'is of a class parse_rule takes for a list rule' if
                   names == want_c else
                   'parse_rule takes %s for a list rule, the translator '
                   'takes %s for an entry: an entry of a class in the first '
                   'set and not in the second is replaced by a denial'
                   % (want_c, names))

    def inline(call, frame):
        g = prog.callee_of(frame, call)
        if g is None or g.module.name != PARSER or g.cls is not None:
            return None
        if g.qual == PARSER + '._parse_check':
            return None
        if any(isinstance(x, (ast.Yield, ast.YieldFrom))
               for x in ast.walk(g.node)):
            return None
        return g
    en = Enumerator(prog, f, inline=inline, comps=True, handler_paths=False,
                    max_depth=5)
    paths = en.run()
    W = lambda line: '%s:%d' % (ctx.where(mod, f.node).split(':')[0], line)
    reported = set()
    arity_seen = set()

    def ob(ok, line, construct, detail, **kw):
        k = (construct, detail)
        if k in reported:
            return
        reported.add(k)
        ctx.ob('C01.LIST', ok, W(line), f.qual, construct, detail, **kw)

    def elem_src(sym):
        d = en.defs.get(sym.id) if isinstance(sym, ast.Name) else None
        if isinstance(d, tuple) and d and d[0] == 'elem':
            return d[1]
        return None

    n_and = n_or = n_paths = 0
    for p in paths:
        # the collections of this path and what was put into them
        contents, opaque = {}, set()
        for ev in p.events:
            if ev.kind != 'call':
                continue
            mc = method_call(ev.node)
            if mc and isinstance(mc[0], ast.Name) and mc[0].id.startswith(
                    'SYM_m'):
                if mc[1] in ('append', 'add') and len(ev.node.args) == 1:
                    contents.setdefault(mc[0].id, []).append(ev.node.args[0])
                elif mc[1] in ('extend', 'insert', 'remove', 'pop', 'clear',
                               'update', 'discard', 'sort', 'reverse'):
                    opaque.add(mc[0].id)
        loops = [c for c in p.conds if c.kind == 'loop']
        outer = [c for c in loops if U(c.expr) == param]
        entry = None
        for sym, d in en.defs.items():
            if isinstance(d, tuple) and d and d[0] == 'elem' and U(
                    d[1]) == param:
                if any(c.kind == 'loop' and c.pol and c.expr is d[1]
                       for c in p.conds):
                    entry = sym

        def derived_from_entry(src, depth=4):
            """is the iterable the entry itself, or a display holding the
            entry / a constant?"""
            if depth <= 0 or src is None:
                return False
            if isinstance(src, ast.Name) and src.id == entry:
                return True
            if isinstance(src, ast.Name) and src.id in en.defs and \
                    isinstance(en.defs[src.id], (ast.List, ast.Tuple)):
                return all((isinstance(x, ast.Name) and x.id == entry)
                           or isinstance(x, ast.Constant)
                           for x in en.defs[src.id].elts)
            if isinstance(src, (ast.List, ast.Tuple)):
                return all((isinstance(x, ast.Name) and x.id == entry)
                           or isinstance(x, ast.Constant) for x in src.elts)
            if isinstance(src, ast.Call) and U(src.func) in (
                    'list', 'tuple') and len(src.args) == 1:
                return derived_from_entry(src.args[0], depth - 1)
            return False

        def term(e, depth=8):
            if depth <= 0 or e is None:
                return ('?', U(e) if e is not None else 'None')
            if isinstance(e, ast.Name) and e.id.startswith('SYM_m'):
                if e.id in opaque:
                    return ('?', 'collection changed by other means')
                return ('coll', e.id, [term(x, depth - 1)
                                       for x in contents.get(e.id, [])])
            if isinstance(e, ast.Name) and e.id in en.defs and isinstance(
                    en.defs[e.id], ast.AST):
                return term(en.defs[e.id], depth - 1)
            if isinstance(e, ast.Call):
                r = prog.resolve(mod, e.func)
                if r == PARSER + '._parse_check' and len(e.args) == 1:
                    return ('L', e.args[0])
                if r == CHECKS + '.FalseCheck':
                    return ('F',)
                if r == CHECKS + '.TrueCheck':
                    return ('T',)
                cc = classes.get(r)
                if cc is not None and cc.sem in ('and', 'or') and len(
                        e.args) == 1:
                    return (cc.sem, term(e.args[0], depth - 1), e)
            if isinstance(e, ast.Subscript) and is_const(e.slice) and \
                    e.slice.value in (0, -1):
                c = term(e.value, depth - 1)
                if c[0] == 'coll':
                    # the path must know the collection is a singleton
                    return ('first', c, _known_single(p, c[1],
                                                      bool(c[2])))
            return ('?', U(e)[:60])

        if p.outcome.kind != 'return' or p.outcome.expr is None:
            if p.outcome.kind == 'raise':
                continue            # C02 decides what malformed values do
            ob(False, p.outcome.line, 'list rule -> ' + p.outcome.text(),
               'the list-rule translator can finish without a check')
            continue
        n_paths += 1
        R = term(p.outcome.expr)
        line = p.outcome.line
        if arity_rule is not None or empty_and_rule is not None:
            # every combinator built over a collection: the path excludes
            # that the collection has exactly one element (a one-operand
            # and/or prints as `(x)`, which parses back to `x`)
            def combs(t):
                if isinstance(t, tuple):
                    if t and t[0] in ('and', 'or') and len(t) == 3 and \
                            isinstance(t[1], tuple) and t[1][0] == 'coll':
                        yield t
                    for x in t:
                        if isinstance(x, (tuple, list)):
                            yield from combs(x)
                elif isinstance(t, list):
                    for x in t:
                        yield from combs(x)
            for cb in combs(R):
                sym = cb[1][1]
                if empty_and_rule is not None:
                    # an AND over no operands allows everybody: it is built
                    # only from a collection this path has put something in
                    if cb[0] == 'and':
                        ok = bool(cb[1][2])
                        key = (getattr(cb[2], 'lineno', line), 'empty', ok)
                        if key not in arity_seen:
                            arity_seen.add(key)
                            ctx.ob(empty_and_rule, ok, W(getattr(
                                cb[2], 'lineno', line)), f.qual,
                                '%s over the collected members' % U(
                                    cb[2].func),
                                'never built over nothing' if ok else
                                'the list-rule translator can build %s over '
                                'no members at all, which allows every '
                                'request: an entry whose members are all '
                                'skipped grants access (path: %s)' % (
                                    U(cb[2].func), p.cond_text()[-200:]))
                    continue
                ok = _known_not_single(p, sym)
                key = (getattr(cb[2], 'lineno', line), cb[0], ok)
                if key in arity_seen:
                    continue
                arity_seen.add(key)
                ctx.ob(arity_rule, ok, W(getattr(cb[2], 'lineno', line)),
                       f.qual, '%s over %s' % (U(cb[2].func), 'the collected '
                                               'operands'),
                       'built only when there is not exactly one operand'
                       if ok else
                       'the list-rule translator can build a one-operand '
                       '%s: it prints as `(x)`, and parsing that text gives '
                       '`x`, so the printed form of such a rule is not a '
                       'fixed point (path: %s)' % (
                           U(cb[2].func), p.cond_text()[-160:]))
        entered = bool(outer) and outer[0].pol and entry is not None
        if not entered:
            # empty rule: C01.CONST decides it
            continue
        entry_truth = None
        for c in p.conds:
            if c.kind == 'test' and isinstance(c.expr, ast.Name) and \
                    c.expr.id == entry:
                entry_truth = c.pol

        def member_ok(t):
            """a parsed member of the entry"""
            if t[0] != 'L':
                return False, 'a member of an entry is not parsed as a ' \
                    'single check (%s)' % (t[1] if t[0] == '?' else t[0])
            a = t[1]
            if (isinstance(a, ast.Name) and a.id == entry) or isinstance(
                    a, ast.Constant):
                # the bare-string entry itself / the constant stand-in
                return True, ''
            src = elem_src(a)
            if src is None or not derived_from_entry(src):
                return False, 'the text parsed (%s) is not a member of the ' \
                    'entry' % U(en.expand(a))[:40]
            return True, ''

        def entry_ok(t):
            """the translation of one entry: AND of its parsed members"""
            nonlocal n_and
            if t[0] == 'and':
                n_and += 1
                coll = t[1]
                if coll[0] != 'coll':
                    return False, 'AND node not built from the collected ' \
                        'members'
                items = coll[2]
            elif t[0] == 'first':
                if not t[2]:
                    return False, 'the first member stands for the entry ' \
                        'without a `len(..) == 1` test'
                items = t[1][2]
            elif t[0] == 'L':
                items = [t]
            elif t[0] == 'F':
                # always-deny stands for an entry that is neither a string
                # nor a sequence (what `['!']` stands for in the same place)
                malformed = [c for c in p.conds if c.kind == 'test' and
                             not c.pol and isinstance(c.expr, ast.Call)
                             and U(c.expr.func) == 'isinstance' and
                             c.expr.args and isinstance(
                                 c.expr.args[0], ast.Name) and
                             c.expr.args[0].id == entry]
                if len(malformed) >= 2:
                    return True, ''
                return False, 'a well-formed entry is translated to ' \
                    'always-deny'
            elif t[0] == 'or':
                return False, 'the members of an entry are joined by a ' \
                    'check with \'or\' semantics'
            else:
                return False, 'entry translated to %s' % (t[1:],)
            if not items:
                return False, 'a member of a non-empty entry is left out ' \
                    'of its AND'
            for it in items:
                ok, why = member_ok(it)
                if not ok:
                    return False, why
            return True, ''

        if R[0] == 'or':
            n_or += 1
            coll = R[1]
            items = coll[2] if coll[0] == 'coll' else None
        elif R[0] == 'first':
            items = R[1][2]
            if not R[2]:
                ob(False, line, 'result ' + U(en.expand(p.outcome.expr))[:60],
                   'the first entry stands for the whole list rule without '
                   'a `len(..) == 1` test')
                continue
        elif R[0] == 'F':
            # legitimate only when the entry is empty
            ok = entry_truth is False
            ob(ok, line, 'all entries empty -> FalseCheck',
               'a list rule whose entries are all empty denies' if ok else
               'a non-empty entry can be left out of the result (path: %s)'
               % p.cond_text()[-200:])
            continue
        elif R[0] == 'and':
            ob(False, line, 'result ' + U(en.expand(p.outcome.expr))[:60],
               'the outer list of a list-of-lists rule is joined by a check '
               'with \'and\' semantics')
            continue
        else:
            ob(False, line, 'result ' + U(en.expand(p.outcome.expr))[:60],
               'the list-rule translator answers with something that is not '
               'the OR of its entries (%s)' % (R[1:],))
            continue
        if items is None:
            ob(False, line, 'OR node', 'OR node not built from the collected '
               'entries')
            continue
        if not items:
            ok = entry_truth is False
            if not ok:
                ob(False, line, 'entries of a list rule',
                   'a non-empty entry can be left out of the result (path: '
                   '%s)' % p.cond_text()[-200:])
            continue
        if entry_truth is False:
            ob(False, line, 'entries of a list rule',
               'an empty entry takes part in the result')
            continue
        bad = None
        for it in items:
            ok, why = entry_ok(it)
            if not ok:
                bad = why
        ob(bad is None, line, 'result ' + U(en.expand(p.outcome.expr))[:70],
           'OR over the entries of the AND over each entry\'s parsed members'
           if bad is None else bad + ' (path: %s)' % p.cond_text()[-160:])
    ctx.count(len(paths))
    ctx.floor('C01.LIST', n_paths, 2, 'list-rule translator paths')
    if not ctx.findings:
        ctx.floor('C01.LIST', n_and, 1, 'AND joins of an entry')
        ctx.floor('C01.LIST', n_or, 1, 'OR joins of the entries')
    return f


# ------------------------------------------------------------------ CONST
def kinds_domain():
    """The K domain of rule values."""
    S = lambda label, v, **kw: AV(label, bool(v), types=('str',),
                                  eq={v: True, '*': False}, length=len(v),
                                  **kw)
    return {
        "''": S("''", ''),
        "'@'": S("'@'", '@'),
        "'!'": S("'!'", '!'),
        'str': AV('other str', True, types=('str',),
                  eq={'': False, '@': False, '!': False}, length=('ge', 1)),
        '[]': AV('[]', False, types=('list',), eq={'*': False}, length=0),
        '[..]': AV('non-empty list', True, types=('list',), eq={'*': False},
                   length=('ge', 1)),
        '()': AV('()', False, types=('tuple',), eq={'*': False}, length=0),
        '(..)': AV('non-empty tuple', True, types=('tuple',),
                   eq={'*': False}, length=('ge', 1)),
        'None': AV('None', False, types=('NoneType',), eq={'*': False},
                   is_none=True),
        'False': AV('False', False, types=('bool',),
                    eq={False: True, 0: True, '*': False}),
        'True': AV('True', True, types=('bool',),
                   eq={True: True, 1: True, '*': False}),
        '0': AV('0', False, types=('int',), eq={0: True, False: True,
                                                '*': False}),
        '5': AV('non-zero int', True, types=('int',), eq={0: False,
                                                          '*': None}),
        '0.0': AV('0.0', False, types=('float',), eq={0: True, '*': False}),
        '1.5': AV('non-zero float', True, types=('float',), eq={'*': None}),
        '{}': AV('{}', False, types=('dict',), eq={'*': False}, length=0),
        '{..}': AV('non-empty dict', True, types=('dict',), eq={'*': False},
                   length=('ge', 1)),
    }


def leaf_inline(prog):
    """inline policy for the single-check parser: its module-level helpers
    (handler lookup and the like), not the check classes."""
    from ..dte import inline_helpers
    return inline_helpers(prog, modules={PARSER}, classes=False,
                          exclude={PARSER + '.parse_rule'})


def parse_rule_paths(ctx):
    """Paths of parse_rule with the text / list translators inlined."""
    prog = ctx.prog
    pr = prog.func(PARSER + '.parse_rule')
    region = prog.region(pr)

    def inline(call, frame):
        g = prog.callee_of(frame, call)
        if g is None or g.module.name != PARSER:
            return None
        # inline the per-form translators, not the tokenizer / leaf parser
        if g.qual in (PARSER + '._parse_check',):
            return None
        if any(isinstance(x, (ast.Yield, ast.YieldFrom))
               for x in ast.walk(g.node)):
            return None
        if g.cls is not None:
            return None
        return g
    en = Enumerator(prog, pr, inline=inline, handler_paths=True)
    return pr, en, en.run()


def const_class_table(prog, module, tab):
    """`tab` (an expression, expanded) is a constant table whose values are
    the two constant check classes."""
    if isinstance(tab, (ast.Name, ast.Attribute)):
        tab = prog.const_expr(module, tab, names_ok=True) or tab
    return isinstance(tab, ast.Dict) and bool(tab.values) and all(
        prog.resolve(module, v) in (CHECKS + '.TrueCheck',
                                    CHECKS + '.FalseCheck')
        for v in tab.values)


def outcome_class(ctx, en, frame_mod_of, p, binding=None):
    """'true' / 'false' / other description for a path outcome."""
    prog = ctx.prog
    if p.outcome.kind == 'raise':
        return 'raise'
    if p.outcome.kind == 'end' or p.outcome.expr is None:
        return 'none'
    e = en.expand(p.outcome.expr)
    if binding:
        from ..absval import fold_table_lookup
        e = fold_table_lookup(prog, frame_mod_of(p.outcome.frame), e,
                              binding)
    if isinstance(e, ast.Call):
        mod = frame_mod_of(p.outcome.frame)
        r = prog.resolve(mod, e.func)
        if r == CHECKS + '.TrueCheck':
            return 'true'
        if r == CHECKS + '.FalseCheck':
            return 'false'
    return 'other:' + U(e)[:60]


def check_const(ctx):
    prog = ctx.prog
    pr, en, paths = parse_rule_paths(ctx)
    param = pr.params[0]
    dom = kinds_domain()

    def modof(frame):
        return prog.functions[frame].module if frame in prog.functions \
            else pr.module

    def evaluator_for_kind(av):
        def f(cond):
            return Evaluator(prog, modof(cond.frame), {param: av})
        return f
    n = 0
    for k in ("''", '[]', '()'):
        feas = feasible(paths, evaluator_for_kind(dom[k]))
        outs = {outcome_class(ctx, en, modof, p) for p, _u in feas}
        ok = outs == {'true'}
        n += 1
        ctx.ob('C01.CONST', ok, ctx.where(pr.module, pr.node), pr.qual,
               'parse_rule(%s)' % k,
               'every feasible path constructs TrueCheck' if ok else
               'the always-allow input %s can yield %s' % (k, sorted(outs)),
               witness={'input': k, 'outcomes': sorted(outs)})
    # '@' and '!' through the leaf parser
    pc = prog.func(PARSER + '._parse_check')
    en2 = Enumerator(prog, pc, handler_paths=True, inline=leaf_inline(prog))
    p2 = en2.run()
    prm = pc.params[0]
    for k, want in (("'@'", 'true'), ("'!'", 'false')):
        av = dom[k]

        def evf(cond, av=av):
            return Evaluator(prog, pc.module, {prm: av})
        feas = feasible(p2, evf)
        outs = set()
        for p, unk in feas:
            if _needs_separator(en2, p, prm):
                continue        # unpacking split(':') of a colon-free text
            outs.add(outcome_class(ctx, en2, lambda fr: pc.module, p,
                                   {prm: av}))
        ok = outs == {want}
        n += 1
        ctx.ob('C01.CONST', ok, ctx.where(pc.module, pc.node), pc.qual,
               '_parse_check(%s)' % k,
               'decides constant %s' % want if ok else
               'the constant check %s can yield %s' % (k, sorted(outs)),
               witness={'input': k, 'outcomes': sorted(outs)})
    ctx.floor('C01.CONST', n, 5, 'constant inputs')


def check_text_driver(ctx, pstate):
    """Every non-empty rule text is decided by tokenizer + reducer table:
    the text-rule parser has no side door."""
    prog = ctx.prog
    pr, en, paths = parse_rule_paths(ctx)
    param = pr.params[0]
    dom = kinds_domain()
    tok, _consumer, _loop = T.find_tokenizer(prog)

    def modof(frame):
        return prog.functions[frame].module if frame in prog.functions \
            else pr.module
    bad = None
    extra = None
    n = 0
    for k in ('str', "'@'", "'!'"):
        av = dom[k]

        def evf(cond, av=av):
            return Evaluator(prog, modof(cond.frame), {param: av})
        for p, unk in feasible(paths, evf):
            n += 1
            exc = any(c.kind == 'exc' for c in p.conds)
            if p.outcome.kind != 'return' or p.outcome.expr is None:
                continue
            e = en.expand(p.outcome.expr)
            tokenized = any(
                ev.kind == 'iter' and isinstance(en.expand(ev.node),
                                                 ast.Call)
                and prog.callee_of(prog.functions.get(ev.frame, pr),
                                   en.expand(ev.node)) is tok
                for ev in p.events)
            from_state = isinstance(e, ast.Attribute) and isinstance(
                e.value, ast.Call) and prog.resolve(
                    modof(p.outcome.frame), e.value.func) == pstate.qual
            if exc and outcome_class(ctx, en, modof, p) == 'false':
                continue
            if not (tokenized and from_state) and bad is None:
                bad = (p, U(e)[:80], k)
            # what is shifted is what the tokenizer yielded, token by token:
            # a token put in front of, between or after them changes the
            # language the reducer table accepts
            for ev in p.events:
                mc = method_call(ev.node) if ev.kind == 'call' else None
                if not (mc and mc[1] == 'shift' and 'shift' in
                        pstate.methods):
                    continue
                recv = en.expand(mc[0])
                if not (isinstance(recv, ast.Call) and prog.resolve(
                        modof(ev.frame), recv.func) == pstate.qual):
                    continue
                elems = set()
                for a in ev.node.args:
                    for x in ast.walk(en.expand(a)):
                        if isinstance(x, ast.Name) and isinstance(
                                en.defs.get(x.id), tuple) and en.defs[
                                    x.id][0] == 'elem':
                            it = en.expand(en.defs[x.id][1])
                            if isinstance(it, ast.Call) and prog.callee_of(
                                    prog.functions.get(ev.frame, pr),
                                    it) is tok:
                                elems.add(x.id)
                if len(ev.node.args) == 1 and isinstance(
                        ev.node.args[0], ast.Starred) and len(elems) == 1 \
                        and isinstance(en.expand(ev.node.args[0].value),
                                       ast.Name):
                    continue            # state.shift(*pair)
                if len(ev.node.args) != 2 or len(elems) != 1 or not all(
                        any(isinstance(x, ast.Name) and x.id in elems
                            for x in ast.walk(en.expand(a)))
                        for a in ev.node.args):
                    if extra is None:
                        extra = (ev, U(ev.node)[:60])
    ctx.ob('C01.TEXT-DRIVER', bad is None and n > 0,
           '%s:%d' % (ctx.where(pr.module, pr.node).split(':')[0],
                      bad[0].outcome.line) if bad
           else ctx.where(pr.module, pr.node), pr.qual,
           'non-empty rule texts (%d feasible paths)' % n,
           'every non-empty text is tokenized, shifted through the reducer '
           'table and answered by the parse state\'s result' if bad is None
           else 'a non-empty rule text (%s) can be answered by %s without '
           'going through the tokenizer and the reducer table: keywords, '
           'whitespace and parentheses are not interpreted on that path '
           '(path: %s)' % (dom[bad[2]].label, bad[1],
                           bad[0].cond_text()[-200:]))
    _report_extra_shift(ctx, pr, extra)


def _report_extra_shift(ctx, pr, extra):
    ctx.ob('C01.TEXT-DRIVER', extra is None, '%s:%d' % (
        ctx.where(pr.module, pr.node).split(':')[0], extra[0].line)
        if extra else ctx.where(pr.module, pr.node), pr.qual,
        'tokens shifted' if extra is None else 'shift ' + extra[1],
        'exactly the tokens the tokenizer yields are shifted, in order'
        if extra is None else
        'the driver shifts a token (%s) that is not the one the tokenizer '
        'yielded: the reducer table then accepts token sequences other than '
        'those of the rule text (e.g. a stray parenthesis pairing with an '
        'implicit one)' % extra[1])


def _needs_separator(en, path, subject):
    """True when the path uses element [1] of `subject.split(sep, ..)` on its
    normal (non-exception) flow: impossible for a text without the
    separator."""
    if any(c.kind == 'exc' for c in path.conds):
        return False
    for sym, d in en.defs.items():
        if isinstance(d, ast.Call):
            mc = method_call(d, 'split')
            if mc and U(mc[0]) == subject and d.args and is_const(d.args[0]):
                # was this symbol created on this path?
                if any(e.sym == sym for e in path.events):
                    return True
    return False


# -------------------------------------------------------------------- main
def check(ctx):
    ctx.use(PARSER, CHECKS)
    ctx.explain(
        'C01: the @reducer table and the effect term of every reducer method '
        'are extracted from the AST and compared, as a shift-reduce table '
        'model, with a recursive-descent reference of the documented '
        'grammar on every sentence up to Ns tokens and every token string '
        'up to Na tokens (acceptance and decision equality by flattened '
        'tree or truth table).  Structural rules cover the generic driver, '
        'the tokenizer, the five evaluators, the list-of-lists translator '
        'and the constant inputs.')
    ctx.assume('grammar correctness is decided up to the stated token '
               'bounds, not by induction')
    ctx.assume('the reduce/shift driver is covered by structural rules '
               'D0-D6, not executed')
    ctx.trust('python ast / re._parser')
    classes0 = G.check_classes(ctx.prog)
    check_eval(ctx, classes0)
    # and/or/not evaluate their operands with the arguments of *this* call:
    # nothing about a request is parked on the (shared) check node
    from . import c12
    nw, nreg = c12.check_node_writes(ctx, 'C01.EVAL(C12.NO-WRITE)')
    if not nw:
        ctx.ob('C01.EVAL(C12.NO-WRITE)', True, ctx.where(
            ctx.prog.module(CHECKS), ctx.prog.module(CHECKS).tree), CHECKS,
            'evaluation region of %d functions' % nreg,
            'no check method stores into its own node while evaluating')
    eval_broken = bool(ctx.findings)
    try:
        classes, pstate, table, effects, model = grammar_model(ctx)
    except G.EffectError:
        if eval_broken:
            # the evaluator finding explains why effects are unclassifiable
            return
        raise
    ctx._effects = effects
    ctx.floor('C01.TABLE', len(table), 1, 'reducer patterns')
    pred, rows, unknown, res = accept_predicate(ctx, pstate)
    check_table(ctx, classes, pstate, table, effects, model, pred)
    check_driver(ctx, pstate, table)
    tf, en, paths = T.extract(ctx.prog)
    check_tokenizer(ctx, table, tf, en, paths)
    check_list(ctx, classes)
    # which words are quoted strings rather than checks (C05.QUOTED): a
    # check taken for a string is dropped from the expression
    from . import c05 as _c05
    ctx.borrow_soft('C01.TOKENS', _c05.check_quoted, only=['C05.QUOTED'])
    check_const(ctx)
    check_text_driver(ctx, pstate)
